#!/venv/bin/python
"""py2v — fail-closed translator from the laspy source tree to Gallina (coq/Gen/*.v).

Two jobs (DESIGN §4.1):
 (a) table dump: the values the running code uses (masks, formats, sizes, ctypes layouts)
 (b) function translation: small int/bool functions, Python `ast` -> Gallina text.

Fail closed: a construct the translator does not know raises Untranslatable; the target
definition is then *omitted* from the generated file (a comment records why), so every
theorem that mentions it stops compiling.

usage: py2v.py <repo> <outdir>
"""
import ast
import os
import sys
import textwrap


class Untranslatable(Exception):
    pass


def z(n):
    return f"({n})" if n < 0 else f"{n}"


# ----------------------------------------------------------------------------------
# expression / statement translation over Z and bool
# ----------------------------------------------------------------------------------
class Fn:
    """Translate one Python function (ast.FunctionDef) into a Gallina term.

    env: name -> ('Z'|'bool')   for parameters and locals
    consts: name -> python int  for module/class constants (inlined as literals)
    state: list of `self.<attr>` names that are threaded (modelled as locals self_<attr>)
    callees: name -> (gallina_name, [param types], result type, mutates_state)
    """

    def __init__(self, env, consts=None, state=(), callees=None, raises=False):
        self.env = dict(env)
        self.consts = consts or {}
        self.state = list(state)
        self.callees = callees or {}
        self.raises = raises

    # ---------------- expressions ----------------
    def expr(self, e):
        """returns (text, type)"""
        if isinstance(e, ast.Constant):
            if isinstance(e.value, bool):
                return ("true" if e.value else "false", "bool")
            if isinstance(e.value, int):
                return (z(e.value), "Z")
            raise Untranslatable(f"constant {e.value!r}")
        if isinstance(e, ast.Name):
            if e.id in self.env:
                return (e.id, self.env[e.id])
            if e.id in self.consts:
                return (z(self.consts[e.id]), "Z")
            raise Untranslatable(f"unknown name {e.id}")
        if isinstance(e, ast.Attribute):
            if isinstance(e.value, ast.Name) and e.value.id in ("self", "cls"):
                if e.attr in self.state:
                    return (f"self_{e.attr}", self.env[f"self_{e.attr}"])
                if e.attr in self.consts:
                    return (z(self.consts[e.attr]), "Z")
            raise Untranslatable(f"attribute {ast.dump(e)}")
        if isinstance(e, ast.BinOp):
            l, lt = self.expr(e.left)
            r, rt = self.expr(e.right)
            if lt == "bool" and isinstance(e.op, (ast.Add, ast.Sub)):
                l, lt = f"(if {l} then 1 else 0)", "Z"
            if rt == "bool" and isinstance(e.op, (ast.Add, ast.Sub)):
                r, rt = f"(if {r} then 1 else 0)", "Z"
            if lt != "Z" or rt != "Z":
                raise Untranslatable("binop on non-int")
            ops = {
                ast.Add: "Z.add", ast.Sub: "Z.sub", ast.Mult: "Z.mul",
                ast.FloorDiv: "Z.div", ast.Mod: "Z.modulo",
                ast.BitAnd: "Z.land", ast.BitOr: "Z.lor", ast.BitXor: "Z.lxor",
                ast.LShift: "Z.shiftl", ast.RShift: "Z.shiftr", ast.Pow: "Z.pow",
            }
            for k, v in ops.items():
                if isinstance(e.op, k):
                    return (f"({v} {l} {r})", "Z")
            raise Untranslatable(f"binop {type(e.op).__name__}")
        if isinstance(e, ast.UnaryOp):
            v, t = self.expr(e.operand)
            if isinstance(e.op, ast.Invert) and t == "Z":
                return (f"(Z.lnot {v})", "Z")
            if isinstance(e.op, ast.USub) and t == "Z":
                return (f"(Z.opp {v})", "Z")
            if isinstance(e.op, ast.Not):
                return (f"(negb {self.as_bool(v, t)})", "bool")
            raise Untranslatable("unaryop")
        if isinstance(e, ast.Compare):
            if len(e.ops) != 1:
                # a < b <= c
                parts = []
                left = e.left
                for op, right in zip(e.ops, e.comparators):
                    parts.append(self.expr(ast.Compare(left=left, ops=[op], comparators=[right]))[0])
                    left = right
                return ("(" + " && ".join(parts) + ")", "bool")
            op = e.ops[0]
            l, lt = self.expr(e.left)
            # `bool(x) is True`
            if isinstance(op, ast.Is) and isinstance(e.comparators[0], ast.Constant) and e.comparators[0].value is True and lt == "bool":
                return (l, "bool")
            # x in range(a, b)   (also through a local helper returning range(a, b+1))
            if isinstance(op, (ast.In, ast.NotIn)):
                rng = self.range_of(e.comparators[0])
                if rng is None:
                    raise Untranslatable("in <non-range>")
                lo, hi = rng
                t = f"(({lo} <=? {l}) && ({l} <? {hi}))"
                if isinstance(op, ast.NotIn):
                    t = f"(negb {t})"
                return (t, "bool")
            r, rt = self.expr(e.comparators[0])
            if lt == "bool" and rt == "bool" and isinstance(op, (ast.Eq, ast.NotEq)):
                t = f"(Bool.eqb {l} {r})"
                return (t if isinstance(op, ast.Eq) else f"(negb {t})", "bool")
            if lt != "Z" or rt != "Z":
                raise Untranslatable("compare non-int")
            ops = {ast.Eq: "=?", ast.Lt: "<?", ast.LtE: "<=?", ast.Gt: ">?", ast.GtE: ">=?"}
            for k, v in ops.items():
                if isinstance(op, k):
                    return (f"({l} {v} {r})", "bool")
            if isinstance(op, ast.NotEq):
                return (f"(negb ({l} =? {r}))", "bool")
            raise Untranslatable("compare op")
        if isinstance(e, ast.BoolOp):
            parts = [self.as_bool(*self.expr(v)) for v in e.values]
            j = " && " if isinstance(e.op, ast.And) else " || "
            return ("(" + j.join(parts) + ")", "bool")
        if isinstance(e, ast.IfExp):
            c = self.as_bool(*self.expr(e.test))
            a, at = self.expr(e.body)
            b, bt = self.expr(e.orelse)
            if at != bt:
                raise Untranslatable("ifexp types")
            return (f"(if {c} then {a} else {b})", at)
        if isinstance(e, ast.Call):
            return self.call(e)
        raise Untranslatable(f"expr {type(e).__name__}")

    def range_of(self, e):
        if isinstance(e, ast.Call) and isinstance(e.func, ast.Name):
            if e.func.id == "range" and len(e.args) == 2:
                return (self.expr(e.args[0])[0], self.expr(e.args[1])[0])
            if e.func.id == "range" and len(e.args) == 1:
                return ("0", self.expr(e.args[0])[0])
            if e.func.id in self.local_ranges and len(e.args) == 2:
                params, (lo, hi) = self.local_ranges[e.func.id]
                sub = Fn(dict(self.env, **{p: "Z" for p in params}), self.consts)
                # substitute by let-binding
                a0 = self.expr(e.args[0])[0]
                a1 = self.expr(e.args[1])[0]
                lo_t = sub.expr(lo)[0]
                hi_t = sub.expr(hi)[0]
                wrap = lambda t: f"(let {params[0]} := {a0} in let {params[1]} := {a1} in {t})"
                return (wrap(lo_t), wrap(hi_t))
        return None

    local_ranges = {}

    def as_bool(self, v, t):
        if t == "bool":
            return v
        if t == "Z":
            return f"(negb ({v} =? 0))"
        raise Untranslatable("truthiness")

    def call(self, e):
        f = e.func
        if isinstance(f, ast.Name):
            if f.id == "bool" and len(e.args) == 1:
                return (self.as_bool(*self.expr(e.args[0])), "bool")
            if f.id == "int" and len(e.args) == 1:
                v, t = self.expr(e.args[0])
                return (v, "Z") if t == "Z" else (f"(if {v} then 1 else 0)", "Z")
            if f.id in ("min", "max") and len(e.args) == 2:
                a, at = self.expr(e.args[0])
                b, bt = self.expr(e.args[1])
                if at == bt == "Z":
                    return (f"(Z.{f.id} {a} {b})", "Z")
            if f.id in self.callees:
                g, ptypes, rt, _ = self.callees[f.id]
                args = [self.expr(a) for a in e.args]
                if [t for _, t in args] != ptypes:
                    raise Untranslatable(f"call {f.id} arg types")
                return ("(" + " ".join([g] + [a for a, _ in args]) + ")", rt)
        if isinstance(f, ast.Attribute) and f.attr == "bit_length" and not e.args:
            v, t = self.expr(f.value)
            if t == "Z":
                # python: (v).bit_length() for v >= 0 is 0 when v = 0, else log2 v + 1
                return (f"(py_bit_length {v})", "Z")
        raise Untranslatable(f"call {ast.dump(f)}")

    # ---------------- statements ----------------
    def assigned(self, stmts):
        out = []
        for s in stmts:
            if isinstance(s, (ast.Assign, ast.AugAssign)):
                tgts = s.targets if isinstance(s, ast.Assign) else [s.target]
                for t in tgts:
                    n = self.target_name(t)
                    if n not in out:
                        out.append(n)
            elif isinstance(s, ast.If):
                for n in self.assigned(s.body) + self.assigned(s.orelse):
                    if n not in out:
                        out.append(n)
            elif isinstance(s, ast.Expr) and isinstance(s.value, ast.Call):
                m = self.method_call(s.value)
                if m and m[3]:
                    for a in self.state:
                        if f"self_{a}" not in out:
                            out.append(f"self_{a}")
        return out

    def target_name(self, t):
        if isinstance(t, ast.Name):
            return t.id
        if isinstance(t, ast.Attribute) and isinstance(t.value, ast.Name) and t.value.id == "self" and t.attr in self.state:
            return f"self_{t.attr}"
        raise Untranslatable(f"assignment target {ast.dump(t)}")

    def method_call(self, c):
        if isinstance(c.func, ast.Attribute) and isinstance(c.func.value, ast.Name) and c.func.value.id == "self":
            return self.callees.get(c.func.attr)
        return None

    def always_returns(self, stmts):
        if not stmts:
            return False
        s = stmts[-1]
        if isinstance(s, (ast.Return, ast.Raise)):
            return True
        if isinstance(s, ast.If):
            return self.always_returns(s.body) and self.always_returns(s.orelse)
        return False

    def block(self, stmts, final):
        """final: text produced when control falls off the end of stmts (None = must not)."""
        if not stmts:
            if final is None:
                raise Untranslatable("control falls off the end")
            return final()
        s, rest = stmts[0], stmts[1:]
        if isinstance(s, ast.Expr) and isinstance(s.value, ast.Constant) and isinstance(s.value.value, str):
            return self.block(rest, final)  # docstring
        if isinstance(s, ast.Pass):
            return self.block(rest, final)
        if isinstance(s, ast.Return):
            if s.value is None:
                raise Untranslatable("bare return")
            v, t = self.expr(s.value)
            self.ret_types.add(t)
            return f"Ok {v}" if self.raises else v
        if isinstance(s, ast.Raise):
            if not self.raises:
                raise Untranslatable("raise in total function")
            return f"Err {self.err_of(s)}"
        if isinstance(s, ast.Assign):
            if len(s.targets) != 1:
                raise Untranslatable("multi-assign")
            n = self.target_name(s.targets[0])
            v, t = self.expr(s.value)
            if n in self.env and self.env[n] != t:
                raise Untranslatable(f"type change of {n}")
            self.env[n] = t
            return f"let {n} := {v} in\n{self.block(rest, final)}"
        if isinstance(s, ast.AugAssign):
            n = self.target_name(s.target)
            cur = ast.Name(id=n) if isinstance(s.target, ast.Name) else s.target
            v, t = self.expr(ast.BinOp(left=cur, op=s.op, right=s.value))
            return f"let {n} := {v} in\n{self.block(rest, final)}"
        if isinstance(s, ast.Expr) and isinstance(s.value, ast.Call):
            m = self.method_call(s.value)
            if m is None:
                raise Untranslatable(f"call statement {ast.dump(s.value.func)}")
            g, ptypes, rt, mut = m
            args = [self.expr(a) for a in s.value.args]
            if [t for _, t in args] != ptypes:
                raise Untranslatable("method arg types")
            st = [f"self_{a}" for a in self.state]
            if not mut or len(st) != 1:
                raise Untranslatable("method call shape")
            call = " ".join([g] + st + [a for a, _ in args])
            return f"let {st[0]} := {call} in\n{self.block(rest, final)}"
        if isinstance(s, ast.If):
            c = self.as_bool(*self.expr(s.test))
            if self.always_returns(s.body):
                save = dict(self.env)
                a = self.block(s.body, None)
                self.env = save
                b = self.block(list(s.orelse) + rest, final)
                return f"if {c} then ({a})\nelse ({b})"
            if s.orelse and self.always_returns(s.orelse):
                save = dict(self.env)
                b = self.block(s.orelse, None)
                self.env = save
                a = self.block(list(s.body) + rest, final)
                return f"if {c} then ({a})\nelse ({b})"
            vs = self.assigned(s.body) + [n for n in self.assigned(s.orelse) if n not in self.assigned(s.body)]
            for n in vs:
                if n not in self.env:
                    raise Untranslatable(f"{n} assigned only under if")
            if not vs:
                raise Untranslatable("if without effect")
            tup = vs[0] if len(vs) == 1 else "(" + ", ".join(vs) + ")"
            pat = vs[0] if len(vs) == 1 else "'(" + ", ".join(vs) + ")"
            wrap = (lambda t: f"Ok {t}") if self.raises else (lambda t: t)
            a = self.block(s.body, lambda: wrap(tup))
            b = self.block(s.orelse, lambda: wrap(tup))
            k = self.block(rest, final)
            if self.raises:
                return f"bind (if {c} then ({a}) else ({b})) (fun {pat} =>\n{k})"
            return f"let {pat} := (if {c} then ({a}) else ({b})) in\n{k}"
        raise Untranslatable(f"statement {type(s).__name__}")

    def err_of(self, s):
        exc = s.exc
        name = None
        if isinstance(exc, ast.Call):
            exc = exc.func
        if isinstance(exc, ast.Name):
            name = exc.id
        elif isinstance(exc, ast.Attribute):
            name = exc.attr
        return {
            "OverflowError": "EOverflow", "IndexError": "EIndex", "ValueError": "EValue",
            "StopIteration": "EStop",
        }.get(name, "ELaspy" if name and ("Laspy" in name or "NotSupported" in name or "Laz" in name) else "EOther")

    def function(self, fdef, name, params, result=None, state_result=False):
        """params: [(pyname, type)]; returns Gallina Definition text."""
        self.ret_types = set()
        for p, t in params:
            self.env[p] = t
        for a in self.state:
            self.env.setdefault(f"self_{a}", "Z")
        pnames = [a.arg for a in fdef.args.args if a.arg not in ("self", "cls")]
        if pnames != [p for p, _ in params]:
            raise Untranslatable(f"{name}: parameters {pnames} != expected {[p for p,_ in params]}")
        st = [f"self_{a}" for a in self.state]
        if state_result:
            tup = st[0] if len(st) == 1 else "(" + ", ".join(st) + ")"
            body = self.block(fdef.body, lambda: (f"Ok {tup}" if self.raises else tup))
            rty = "Z" if len(st) == 1 else " * ".join("Z" for _ in st)
        else:
            body = self.block(fdef.body, None)
            if len(self.ret_types) != 1:
                raise Untranslatable(f"{name}: return types {self.ret_types}")
            rty = self.ret_types.pop()
        if result and rty != result:
            raise Untranslatable(f"{name}: result {rty} != {result}")
        if self.raises:
            rty = f"result ({rty})"
        binders = " ".join(f"({n} : {self.env[n]})" for n in st + [p for p, _ in params])
        body = textwrap.indent(body, "  ")
        return f"Definition {name} {binders} : {rty} :=\n{body}.\n", rty


# ----------------------------------------------------------------------------------
# helpers on modules
# ----------------------------------------------------------------------------------
def parse(repo, rel):
    with open(os.path.join(repo, rel)) as f:
        return ast.parse(f.read(), rel)


def find_class(mod, name):
    for n in mod.body:
        if isinstance(n, ast.ClassDef) and n.name == name:
            return n
    raise Untranslatable(f"class {name} not found")


def find_func(scope, name, decorator=None):
    for n in scope.body:
        if isinstance(n, ast.FunctionDef) and n.name == name:
            decs = [ast.unparse(d) for d in n.decorator_list]
            if decorator is None and not any(d.endswith(".setter") for d in decs):
                return n
            if decorator is not None and decorator in decs:
                return n
    raise Untranslatable(f"function {name} ({decorator}) not found")


def int_consts(scope):
    out = {}
    for n in scope.body:
        if isinstance(n, ast.Assign) and len(n.targets) == 1 and isinstance(n.targets[0], ast.Name):
            try:
                v = ast.literal_eval(n.value)
            except Exception:
                continue
            if isinstance(v, int) and not isinstance(v, bool):
                out[n.targets[0].id] = v
    return out


HEADER = """(* GENERATED by tools/py2v.py from {src} — do not edit, never committed. *)
From Coq Require Import ZArith List Bool String.
From LasV Require Import Lib.Base.
Import ListNotations.
Open Scope Z_scope.
Open Scope bool_scope.

"""


class Out:
    def __init__(self, src):
        self.text = HEADER.format(src=src)
        self.missing = []

    def add(self, name, thunk):
        try:
            self.text += thunk() + "\n"
        except Untranslatable as ex:
            self.missing.append((name, str(ex)))
            self.text += f"(* MISSING {name}: untranslatable: {ex} *)\n\n"
        except Exception as ex:  # fail closed on anything
            self.missing.append((name, repr(ex)))
            self.text += f"(* MISSING {name}: translator error: {ex!r} *)\n\n"


# ----------------------------------------------------------------------------------
# target: header.GlobalEncoding  -> GenGlobalEncoding.v
# ----------------------------------------------------------------------------------
FLAGS = [
    ("gps_time_type", "GPS_TIME_TYPE_MASK"),
    ("waveform_data_packets_internal", "WAVEFORM_INTERNAL_MASK"),
    ("waveform_data_packets_external", "WAVEFORM_EXTERNAL_MASK"),
    ("synthetic_return_numbers", "SYNTHETIC_RETURN_NUMBERS_MASK"),
    ("wkt", "WKT_MASK"),
]


def gen_global_encoding(repo):
    o = Out("laspy/header.py class GlobalEncoding")
    mod = parse(repo, "laspy/header.py")
    cls = find_class(mod, "GlobalEncoding")
    consts = int_consts(cls)
    callees = {}

    def helper(pyname, params, mut=True):
        def t():
            fn = Fn({}, consts, state=["value"], callees=dict(callees))
            txt, rty = fn.function(find_func(cls, pyname), f"ge{pyname}", params, state_result=True)
            callees[pyname] = (f"ge{pyname}", [t for _, t in params], rty, True)
            return txt
        return t

    # helpers are translated in dependency order; unknown helpers -> callers fail closed
    helper_sigs = [("_set_bit", [("mask", "Z")]), ("_unset_bit", [("mask", "Z")]),
                   ("_set_if_true", [("mask", "Z"), ("value", "bool")])]
    for pyname, params in helper_sigs:
        o.add(pyname, helper(pyname, params))

    for flag, maskname in FLAGS:
        def getter(flag=flag):
            fn = Fn({}, consts, state=["value"], callees=dict(callees))
            f = find_func(cls, flag, "property")
            # the gps getter wraps in the GpsTimeType enum: GpsTimeType(x) has int value x for x in {0,1}
            body = f.body
            last = body[-1]
            if isinstance(last, ast.Return) and isinstance(last.value, ast.Call) and isinstance(last.value.func, ast.Name) and last.value.func.id == "GpsTimeType":
                inner = last.value.args[0]
                f = ast.FunctionDef(name=f.name, args=f.args, body=body[:-1] + [ast.Return(value=ast.Call(func=ast.Name(id="bool"), args=[inner], keywords=[]))], decorator_list=[])
            txt, rty = fn.function(f, f"ge_get_{flag}", [], result="bool")
            return txt
        o.add(f"get_{flag}", getter)

        def setter(flag=flag):
            fn = Fn({}, consts, state=["value"], callees=dict(callees))
            f = find_func(cls, flag, f"{flag}.setter")
            txt, rty = fn.function(f, f"ge_set_{flag}", [("value", "bool")], state_result=True)
            return txt
        o.add(f"set_{flag}", setter)

    def masks():
        return "Definition ge_masks : list Z := [" + "; ".join(z(consts[m]) for _, m in FLAGS) + "].\n"
    o.add("masks", masks)

    def tables():
        names = [f for f, _ in FLAGS]
        g = "Definition ge_getters : list (Z -> bool) := [" + "; ".join(f"ge_get_{n}" for n in names) + "].\n"
        s = "Definition ge_setters : list (Z -> bool -> Z) := [" + "; ".join(f"ge_set_{n}" for n in names) + "].\n"
        return g + s
    o.add("tables", tables)
    return o


# ----------------------------------------------------------------------------------
# target: _compression/format.py, packing.py -> GenFormatBits.v
# ----------------------------------------------------------------------------------
def gen_format_bits(repo):
    o = Out("laspy/_compression/format.py, laspy/point/packing.py")
    mod = parse(repo, "laspy/_compression/format.py")
    for name, rt in [("is_point_format_compressed", "bool"), ("compressed_id_to_uncompressed", "Z"),
                     ("uncompressed_id_to_compressed", "Z")]:
        def t(name=name, rt=rt):
            fn = Fn({}, int_consts(mod))
            return fn.function(find_func(mod, name), name, [("point_format_id", "Z")], result=rt)[0]
        o.add(name, t)
    pk = parse(repo, "laspy/point/packing.py")

    def lsb():
        fn = Fn({}, {})
        return fn.function(find_func(pk, "least_significant_bit_set"), "least_significant_bit_set", [("mask", "Z")], result="Z")[0]
    o.add("least_significant_bit_set", lsb)
    return o


TARGETS = {
    "GenGlobalEncoding.v": gen_global_encoding,
    "GenFormatBits.v": gen_format_bits,
}


def main():
    repo, outdir = sys.argv[1], sys.argv[2]
    os.makedirs(outdir, exist_ok=True)
    report = {}
    for fname, gen in TARGETS.items():
        try:
            o = gen(repo)
            text, missing = o.text, o.missing
        except Exception as ex:
            text = f"(* GENERATION FAILED: {ex!r} *)\n"
            missing = [("*", repr(ex))]
        path = os.path.join(outdir, fname)
        old = None
        if os.path.exists(path):
            with open(path) as f:
                old = f.read()
        if old != text:
            with open(path, "w") as f:
                f.write(text)
        report[fname] = missing
    import json
    print(json.dumps(report))


if __name__ == "__main__":
    main()
