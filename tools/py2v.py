#!/venv/bin/python
"""py2v — fail-closed translator from the laspy source tree to Gallina (coq/Gen/*.v).

Two jobs (DESIGN §4.1):
 (a) table dump: the values the running code uses (masks, formats, sizes, ctypes layouts)
 (b) function translation: small int/bool functions, Python `ast` -> Gallina text.

Fail closed: a construct the translator does not know raises Untranslatable; the target
definition is then *omitted* from the generated file (a comment records why), so every
theorem that mentions it stops compiling.

usage: py2v.py <repo> <outdir>
"""
import ast
import copy
import os
import re
import sys
import textwrap


class Untranslatable(Exception):
    pass


def z(n):
    return f"({n})" if n < 0 else f"{n}"


# ----------------------------------------------------------------------------------
# expression / statement translation over Z and bool
# ----------------------------------------------------------------------------------
class Fn:
    """Translate one Python function (ast.FunctionDef) into a Gallina term.

    env: name -> ('Z'|'bool')   for parameters and locals
    consts: name -> python int  for module/class constants (inlined as literals)
    state: list of `self.<attr>` names that are threaded (modelled as locals self_<attr>)
    callees: name -> (gallina_name, [param types], result type, mutates_state)
    """

    def __init__(self, env, consts=None, state=(), callees=None, raises=False):
        self.env = dict(env)
        self.consts = consts or {}
        self.state = list(state)
        self.callees = callees or {}
        self.raises = raises

    # ---------------- expressions ----------------
    def expr(self, e):
        """returns (text, type)"""
        if isinstance(e, ast.Constant):
            if isinstance(e.value, bool):
                return ("true" if e.value else "false", "bool")
            if isinstance(e.value, int):
                return (z(e.value), "Z")
            raise Untranslatable(f"constant {e.value!r}")
        if isinstance(e, ast.Name):
            if e.id in self.env:
                return (e.id, self.env[e.id])
            if e.id in self.consts:
                return (z(self.consts[e.id]), "Z")
            raise Untranslatable(f"unknown name {e.id}")
        if isinstance(e, ast.Attribute):
            if isinstance(e.value, ast.Name) and e.value.id in ("self", "cls"):
                if e.attr in self.state:
                    return (f"self_{e.attr}", self.env[f"self_{e.attr}"])
                if e.attr in self.consts:
                    return (z(self.consts[e.attr]), "Z")
            raise Untranslatable(f"attribute {ast.dump(e)}")
        if isinstance(e, ast.BinOp):
            l, lt = self.expr(e.left)
            r, rt = self.expr(e.right)
            if lt == "bool" and isinstance(e.op, (ast.Add, ast.Sub)):
                l, lt = f"(if {l} then 1 else 0)", "Z"
            if rt == "bool" and isinstance(e.op, (ast.Add, ast.Sub)):
                r, rt = f"(if {r} then 1 else 0)", "Z"
            if lt != "Z" or rt != "Z":
                raise Untranslatable("binop on non-int")
            ops = {
                ast.Add: "Z.add", ast.Sub: "Z.sub", ast.Mult: "Z.mul",
                ast.FloorDiv: "Z.div", ast.Mod: "Z.modulo",
                ast.BitAnd: "Z.land", ast.BitOr: "Z.lor", ast.BitXor: "Z.lxor",
                ast.LShift: "Z.shiftl", ast.RShift: "Z.shiftr", ast.Pow: "Z.pow",
            }
            for k, v in ops.items():
                if isinstance(e.op, k):
                    return (f"({v} {l} {r})", "Z")
            raise Untranslatable(f"binop {type(e.op).__name__}")
        if isinstance(e, ast.UnaryOp):
            v, t = self.expr(e.operand)
            if isinstance(e.op, ast.Invert) and t == "Z":
                return (f"(Z.lnot {v})", "Z")
            if isinstance(e.op, ast.USub) and t == "Z":
                return (f"(Z.opp {v})", "Z")
            if isinstance(e.op, ast.Not):
                return (f"(negb {self.as_bool(v, t)})", "bool")
            raise Untranslatable("unaryop")
        if isinstance(e, ast.Compare):
            if len(e.ops) != 1:
                # a < b <= c
                parts = []
                left = e.left
                for op, right in zip(e.ops, e.comparators):
                    parts.append(self.expr(ast.Compare(left=left, ops=[op], comparators=[right]))[0])
                    left = right
                return ("(" + " && ".join(parts) + ")", "bool")
            op = e.ops[0]
            l, lt = self.expr(e.left)
            # `bool(x) is True`
            if isinstance(op, ast.Is) and isinstance(e.comparators[0], ast.Constant) and e.comparators[0].value is True and lt == "bool":
                return (l, "bool")
            # x in range(a, b)   (also through a local helper returning range(a, b+1))
            if isinstance(op, (ast.In, ast.NotIn)):
                rng = self.range_of(e.comparators[0])
                if rng is None:
                    raise Untranslatable("in <non-range>")
                lo, hi = rng
                t = f"(({lo} <=? {l}) && ({l} <? {hi}))"
                if isinstance(op, ast.NotIn):
                    t = f"(negb {t})"
                return (t, "bool")
            r, rt = self.expr(e.comparators[0])
            if lt == "bool" and rt == "bool" and isinstance(op, (ast.Eq, ast.NotEq)):
                t = f"(Bool.eqb {l} {r})"
                return (t if isinstance(op, ast.Eq) else f"(negb {t})", "bool")
            if lt != "Z" or rt != "Z":
                raise Untranslatable("compare non-int")
            ops = {ast.Eq: "=?", ast.Lt: "<?", ast.LtE: "<=?", ast.Gt: ">?", ast.GtE: ">=?"}
            for k, v in ops.items():
                if isinstance(op, k):
                    return (f"({l} {v} {r})", "bool")
            if isinstance(op, ast.NotEq):
                return (f"(negb ({l} =? {r}))", "bool")
            raise Untranslatable("compare op")
        if isinstance(e, ast.BoolOp):
            parts = [self.as_bool(*self.expr(v)) for v in e.values]
            j = " && " if isinstance(e.op, ast.And) else " || "
            return ("(" + j.join(parts) + ")", "bool")
        if isinstance(e, ast.IfExp):
            c = self.as_bool(*self.expr(e.test))
            a, at = self.expr(e.body)
            b, bt = self.expr(e.orelse)
            if at != bt:
                raise Untranslatable("ifexp types")
            return (f"(if {c} then {a} else {b})", at)
        if isinstance(e, ast.Call):
            return self.call(e)
        raise Untranslatable(f"expr {type(e).__name__}")

    def range_of(self, e):
        if isinstance(e, ast.Call) and isinstance(e.func, ast.Name):
            if e.func.id == "range" and len(e.args) == 2:
                return (self.expr(e.args[0])[0], self.expr(e.args[1])[0])
            if e.func.id == "range" and len(e.args) == 1:
                return ("0", self.expr(e.args[0])[0])
            if e.func.id in self.local_ranges and len(e.args) == 2:
                params, (lo, hi) = self.local_ranges[e.func.id]
                sub = Fn(dict(self.env, **{p: "Z" for p in params}), self.consts)
                # substitute by let-binding
                a0 = self.expr(e.args[0])[0]
                a1 = self.expr(e.args[1])[0]
                lo_t = sub.expr(lo)[0]
                hi_t = sub.expr(hi)[0]
                wrap = lambda t: f"(let {params[0]} := {a0} in let {params[1]} := {a1} in {t})"
                return (wrap(lo_t), wrap(hi_t))
        return None

    local_ranges = {}

    def as_bool(self, v, t):
        if t == "bool":
            return v
        if t == "Z":
            return f"(negb ({v} =? 0))"
        raise Untranslatable("truthiness")

    def call(self, e):
        f = e.func
        if isinstance(f, ast.Name):
            if f.id == "bool" and len(e.args) == 1:
                return (self.as_bool(*self.expr(e.args[0])), "bool")
            if f.id == "int" and len(e.args) == 1:
                v, t = self.expr(e.args[0])
                return (v, "Z") if t == "Z" else (f"(if {v} then 1 else 0)", "Z")
            if f.id in ("min", "max") and len(e.args) == 2:
                a, at = self.expr(e.args[0])
                b, bt = self.expr(e.args[1])
                if at == bt == "Z":
                    return (f"(Z.{f.id} {a} {b})", "Z")
            if f.id in self.callees:
                g, ptypes, rt, _ = self.callees[f.id]
                args = [self.expr(a) for a in e.args]
                if [t for _, t in args] != ptypes:
                    raise Untranslatable(f"call {f.id} arg types")
                return ("(" + " ".join([g] + [a for a, _ in args]) + ")", rt)
        if isinstance(f, ast.Attribute) and f.attr == "bit_length" and not e.args:
            v, t = self.expr(f.value)
            if t == "Z":
                # python: (v).bit_length() for v >= 0 is 0 when v = 0, else log2 v + 1
                return (f"(py_bit_length {v})", "Z")
        raise Untranslatable(f"call {ast.dump(f)}")

    # ---------------- statements ----------------
    def assigned(self, stmts):
        out = []
        for s in stmts:
            if isinstance(s, (ast.Assign, ast.AugAssign)):
                tgts = s.targets if isinstance(s, ast.Assign) else [s.target]
                for t in tgts:
                    n = self.target_name(t)
                    if n not in out:
                        out.append(n)
            elif isinstance(s, ast.If):
                for n in self.assigned(s.body) + self.assigned(s.orelse):
                    if n not in out:
                        out.append(n)
            elif isinstance(s, ast.Expr) and isinstance(s.value, ast.Call):
                m = self.method_call(s.value)
                if m and m[3]:
                    for a in self.state:
                        if f"self_{a}" not in out:
                            out.append(f"self_{a}")
        return out

    def target_name(self, t):
        if isinstance(t, ast.Name):
            return t.id
        if isinstance(t, ast.Attribute) and isinstance(t.value, ast.Name) and t.value.id == "self" and t.attr in self.state:
            return f"self_{t.attr}"
        raise Untranslatable(f"assignment target {ast.dump(t)}")

    def method_call(self, c):
        if isinstance(c.func, ast.Attribute) and isinstance(c.func.value, ast.Name) and c.func.value.id == "self":
            return self.callees.get(c.func.attr)
        return None

    def always_returns(self, stmts):
        if not stmts:
            return False
        s = stmts[-1]
        if isinstance(s, (ast.Return, ast.Raise)):
            return True
        if isinstance(s, ast.If):
            return self.always_returns(s.body) and self.always_returns(s.orelse)
        return False

    def block(self, stmts, final):
        """final: text produced when control falls off the end of stmts (None = must not)."""
        if not stmts:
            if final is None:
                raise Untranslatable("control falls off the end")
            return final()
        s, rest = stmts[0], stmts[1:]
        if isinstance(s, ast.Expr) and isinstance(s.value, ast.Constant) and isinstance(s.value.value, str):
            return self.block(rest, final)  # docstring
        if isinstance(s, ast.Pass):
            return self.block(rest, final)
        if isinstance(s, ast.Return):
            if s.value is None:
                raise Untranslatable("bare return")
            v, t = self.expr(s.value)
            self.ret_types.add(t)
            return f"Ok {v}" if self.raises else v
        if isinstance(s, ast.Raise):
            if not self.raises:
                raise Untranslatable("raise in total function")
            return f"Err {self.err_of(s)}"
        if isinstance(s, ast.Assign):
            if len(s.targets) != 1:
                raise Untranslatable("multi-assign")
            n = self.target_name(s.targets[0])
            v, t = self.expr(s.value)
            if n in self.env and self.env[n] != t:
                raise Untranslatable(f"type change of {n}")
            self.env[n] = t
            return f"let {n} := {v} in\n{self.block(rest, final)}"
        if isinstance(s, ast.AugAssign):
            n = self.target_name(s.target)
            cur = ast.Name(id=n) if isinstance(s.target, ast.Name) else s.target
            v, t = self.expr(ast.BinOp(left=cur, op=s.op, right=s.value))
            return f"let {n} := {v} in\n{self.block(rest, final)}"
        if isinstance(s, ast.Expr) and isinstance(s.value, ast.Call):
            m = self.method_call(s.value)
            if m is None:
                raise Untranslatable(f"call statement {ast.dump(s.value.func)}")
            g, ptypes, rt, mut = m
            args = [self.expr(a) for a in s.value.args]
            if [t for _, t in args] != ptypes:
                raise Untranslatable("method arg types")
            st = [f"self_{a}" for a in self.state]
            if not mut or len(st) != 1:
                raise Untranslatable("method call shape")
            call = " ".join([g] + st + [a for a, _ in args])
            return f"let {st[0]} := {call} in\n{self.block(rest, final)}"
        if isinstance(s, ast.If):
            c = self.as_bool(*self.expr(s.test))
            if self.always_returns(s.body):
                save = dict(self.env)
                a = self.block(s.body, None)
                self.env = save
                b = self.block(list(s.orelse) + rest, final)
                return f"if {c} then ({a})\nelse ({b})"
            if s.orelse and self.always_returns(s.orelse):
                save = dict(self.env)
                b = self.block(s.orelse, None)
                self.env = save
                a = self.block(list(s.body) + rest, final)
                return f"if {c} then ({a})\nelse ({b})"
            vs = self.assigned(s.body) + [n for n in self.assigned(s.orelse) if n not in self.assigned(s.body)]
            for n in vs:
                if n not in self.env:
                    raise Untranslatable(f"{n} assigned only under if")
            if not vs:
                raise Untranslatable("if without effect")
            tup = vs[0] if len(vs) == 1 else "(" + ", ".join(vs) + ")"
            pat = vs[0] if len(vs) == 1 else "'(" + ", ".join(vs) + ")"
            wrap = (lambda t: f"Ok {t}") if self.raises else (lambda t: t)
            a = self.block(s.body, lambda: wrap(tup))
            b = self.block(s.orelse, lambda: wrap(tup))
            k = self.block(rest, final)
            if self.raises:
                return f"bind (if {c} then ({a}) else ({b})) (fun {pat} =>\n{k})"
            return f"let {pat} := (if {c} then ({a}) else ({b})) in\n{k}"
        raise Untranslatable(f"statement {type(s).__name__}")

    def err_of(self, s):
        exc = s.exc
        name = None
        if isinstance(exc, ast.Call):
            exc = exc.func
        if isinstance(exc, ast.Name):
            name = exc.id
        elif isinstance(exc, ast.Attribute):
            name = exc.attr
        return {
            "OverflowError": "EOverflow", "IndexError": "EIndex", "ValueError": "EValue",
            "StopIteration": "EStop",
        }.get(name, "ELaspy" if name and ("Laspy" in name or "NotSupported" in name or "Laz" in name) else "EOther")

    def function(self, fdef, name, params, result=None, state_result=False):
        """params: [(pyname, type)]; returns Gallina Definition text."""
        self.ret_types = set()
        for p, t in params:
            self.env[p] = t
        for a in self.state:
            self.env.setdefault(f"self_{a}", "Z")
        pnames = [a.arg for a in fdef.args.args if a.arg not in ("self", "cls")]
        if pnames != [p for p, _ in params]:
            raise Untranslatable(f"{name}: parameters {pnames} != expected {[p for p,_ in params]}")
        st = [f"self_{a}" for a in self.state]
        if state_result:
            tup = st[0] if len(st) == 1 else "(" + ", ".join(st) + ")"
            body = self.block(fdef.body, lambda: (f"Ok {tup}" if self.raises else tup))
            rty = "Z" if len(st) == 1 else " * ".join("Z" for _ in st)
        else:
            body = self.block(fdef.body, None)
            if len(self.ret_types) != 1:
                raise Untranslatable(f"{name}: return types {self.ret_types}")
            rty = self.ret_types.pop()
        if result and rty != result:
            raise Untranslatable(f"{name}: result {rty} != {result}")
        if self.raises:
            rty = f"result ({rty})"
        binders = " ".join(f"({n} : {self.env[n]})" for n in st + [p for p, _ in params])
        body = textwrap.indent(body, "  ")
        return f"Definition {name} {binders} : {rty} :=\n{body}.\n", rty


# ----------------------------------------------------------------------------------
# helpers on modules
# ----------------------------------------------------------------------------------
def parse_raw(repo, rel):
    with open(os.path.join(repo, rel)) as f:
        return ast.parse(f.read(), rel)


NF_MODE = False       # second pass of main(): definitions that could not be read from the source as written are retried on its normal form


def parse(repo, rel):
    """the module as written; in the second pass (NF_MODE) its NORMAL FORM: calls of helper functions that did not exist when the
    translators were written (tools/known_functions.json) inlined in every function and method, see Inliner"""
    mod = parse_raw(repo, rel)
    return normal_form(repo, rel, mod) if NF_MODE else mod


def find_class(mod, name):
    for n in mod.body:
        if isinstance(n, ast.ClassDef) and n.name == name:
            return n
    raise Untranslatable(f"class {name} not found")


def find_func(scope, name, decorator=None):
    for n in scope.body:
        if isinstance(n, ast.FunctionDef) and n.name == name:
            decs = [ast.unparse(d) for d in n.decorator_list]
            if decorator is None and not any(d.endswith(".setter") for d in decs):
                return n
            if decorator is not None and decorator in decs:
                return n
    raise Untranslatable(f"function {name} ({decorator}) not found")


# ----------------------------------------------------------------------------------
# normal form: calls of small helpers of the same package are inlined before a function is read
# ----------------------------------------------------------------------------------
PRIMITIVES = {"write_string", "write_as_c_string", "read_string"}      # helpers the layout readers understand themselves
try:
    with open(os.path.join(os.path.dirname(os.path.abspath(__file__)), "known_functions.json")) as _f:
        KNOWN_FUNCTIONS = set(__import__("json").load(_f))    # every def of the laspy package at the time the readers were written
except Exception:
    KNOWN_FUNCTIONS = set()
_MODCACHE = {}


def _module_of(repo, rel):
    key = (repo, rel)
    if key not in _MODCACHE:
        try:
            _MODCACHE[key] = parse_raw(repo, rel)
        except Exception:
            _MODCACHE[key] = None
    return _MODCACHE[key]


def _imports(repo, rel, mod):
    """local name -> (module file, name in it) for `from .x import a as b` / `from ..x.y import a` inside the laspy package"""
    out = {}
    pkg = os.path.dirname(rel).split("/")
    for n in mod.body:
        if isinstance(n, ast.ImportFrom) and n.level >= 1:
            base = pkg[:len(pkg) - (n.level - 1)]
            parts = base + (n.module.split(".") if n.module else [])
            for cand in ("/".join(parts) + ".py", "/".join(parts) + "/__init__.py"):
                if os.path.exists(os.path.join(repo, cand)):
                    for a in n.names:
                        out[a.asname or a.name] = (cand, a.name)
                    break
    return out


def imported_int_consts(repo, rel, mod):
    """integer constants of the module, including those imported from sibling modules"""
    out = {}
    for local, (cand, name) in _imports(repo, rel, mod).items():
        m2 = _module_of(repo, cand)
        if m2 is not None:
            c2 = int_consts(m2)
            if name in c2:
                out[local] = c2[name]
    out.update(int_consts(mod))
    return out


class _Subst(ast.NodeTransformer):
    def __init__(self, mapping):
        self.mapping = mapping

    def visit_Name(self, node):
        if node.id in self.mapping:
            new = copy.deepcopy(self.mapping[node.id])
            if isinstance(new, ast.Name):
                new.ctx = node.ctx
            return new
        return node


PURE_BUILTINS = {"len", "int", "float", "str", "bool", "abs", "min", "max", "bytes"}
PURE_METHODS = {"timetuple"}


def _simple_arg(e):
    """expressions whose evaluation has no side effect and does not depend on when, within the helper, it happens: substituting
    them for the parameter is the same as binding the parameter"""
    return isinstance(e, (ast.Name, ast.Constant)) or (isinstance(e, ast.Attribute) and _simple_arg(e.value)) \
        or (isinstance(e, ast.Subscript) and _simple_arg(e.value) and _simple_arg(e.slice)) \
        or (isinstance(e, ast.UnaryOp) and _simple_arg(e.operand)) \
        or (isinstance(e, ast.BinOp) and _simple_arg(e.left) and _simple_arg(e.right)) \
        or (isinstance(e, ast.Call) and not e.keywords and all(_simple_arg(a) for a in e.args)
            and ((isinstance(e.func, ast.Name) and e.func.id in PURE_BUILTINS)
                 or (isinstance(e.func, ast.Attribute) and e.func.attr in PURE_METHODS and not e.args and _simple_arg(e.func.value))))


def _body_without_doc(fn):
    b = list(fn.body)
    if b and isinstance(b[0], ast.Expr) and isinstance(b[0].value, ast.Constant) and isinstance(b[0].value.value, str):
        b = b[1:]
    return [s for s in b if not (isinstance(s, ast.Expr) and isinstance(s.value, ast.Call)
                                 and ast.unparse(s.value.func).startswith("logger."))]


def _has_inner_return(stmts):
    for s in stmts:
        for n in ast.walk(s):
            if isinstance(n, (ast.Return, ast.Yield, ast.YieldFrom)):
                return True
    return False


class Inliner:
    """inline(fn) -> a copy of the FunctionDef in which calls of helper functions that live in the same class, the same module or
    a sibling module of the package are replaced by their bodies (parameters replaced by the argument expressions). Only shapes
    whose replacement is evidently equivalent are touched: arguments are names / attributes / constants (evaluated without side
    effect, so substitution = binding), the helper has no nested return, no yield, no decorators other than static/classmethod;
    a helper that is a single `return e` is inlined inside expressions, a helper of statements (+ optional final `return e`) is
    inlined at statement level (`helper(..)`, `x = helper(..)`, `return helper(..)`). Anything else is left as written - the reader
    of the function then fails closed as before."""

    def __init__(self, repo, rel, mod, cls=None, keep=(), depth=4):
        self.repo, self.rel, self.mod, self.cls = repo, rel, mod, cls
        self.keep = set(keep) | PRIMITIVES
        self.depth = depth
        self.imports = _imports(repo, rel, mod)
        self.counter = 0
        self.caller_names = set()

    def resolve(self, call):
        f = call.func
        drop_first = False
        target = None
        ctx = (self.rel, self.mod, self.cls)
        if isinstance(f, ast.Attribute) and isinstance(f.value, ast.Name) and self.cls is not None \
                and f.value.id in ("self", "cls", self.cls.name):
            for n in self.cls.body:
                if isinstance(n, ast.FunctionDef) and n.name == f.attr:
                    decs = [ast.unparse(d) for d in n.decorator_list]
                    if any(d not in ("staticmethod", "classmethod") for d in decs):
                        return None
                    target, drop_first = n, "staticmethod" not in decs
                    break
        elif isinstance(f, ast.Name):
            if f.id in self.keep:
                return None
            for n in self.mod.body:
                if isinstance(n, ast.FunctionDef) and n.name == f.id and not n.decorator_list:
                    target = n
                    ctx = (self.rel, self.mod, None)
                    break
            if target is None and f.id in self.imports:
                cand, name = self.imports[f.id]
                m2 = _module_of(self.repo, cand)
                if m2 is not None and name not in self.keep:
                    for n in m2.body:
                        if isinstance(n, ast.FunctionDef) and n.name == name and not n.decorator_list:
                            target = n
                            ctx = (cand, m2, None)
                            break
        if target is None or (isinstance(f, ast.Attribute) and f.attr in self.keep):
            return None
        a = target.args
        if a.vararg or a.kwarg or a.posonlyargs:
            return None
        params = [p.arg for p in a.args]
        defaults = dict(zip(params[len(params) - len(a.defaults):], a.defaults))
        for p, d in zip(a.kwonlyargs, a.kw_defaults):
            params.append(p.arg)
            if d is not None:
                defaults[p.arg] = d
        if drop_first:
            if not params:
                return None
            first = params.pop(0)
            bound = {first: f.value}
        else:
            bound = {}
        pos = [p.arg for p in a.args][1 if drop_first else 0:]
        if len(call.args) > len(pos) or any(isinstance(x, ast.Starred) for x in call.args):
            return None
        for p, e in zip(pos, call.args):
            bound[p] = e
        for k in call.keywords:
            if k.arg is None or k.arg not in params or k.arg in bound:
                return None
            bound[k.arg] = k.value
        for p in params:
            if p not in bound:
                if p not in defaults:
                    return None
                bound[p] = defaults[p]
        if not all(_simple_arg(e) for e in bound.values()):
            return None
        body = _body_without_doc(target)
        assigned = {n.id for s in body for n in ast.walk(s) if isinstance(n, ast.Name) and isinstance(n.ctx, ast.Store)}
        if assigned & set(bound):          # a parameter re-bound in the helper: substitution would not be binding
            return None
        return target, body, bound, ctx

    def expr_form(self, call):
        r = self.resolve(call)
        if r is None:
            return None
        target, body, bound, ctx = r
        if len(body) == 1 and isinstance(body[0], ast.Return) and body[0].value is not None:
            e = _Subst(bound).visit(copy.deepcopy(body[0].value))
            return Inliner(self.repo, ctx[0], ctx[1], ctx[2], self.keep, self.depth - 1).in_expr(e) if self.depth > 1 else e
        return None

    def in_expr(self, e):
        me = self

        class T(ast.NodeTransformer):
            def visit_Call(self, node):
                node = self.generic_visit(node)
                if me.depth <= 0:
                    return node
                r = me.expr_form(node)
                return r if r is not None else node
        return T().visit(e)

    def stmt_form(self, call):
        """(statements, result expression or None) for a helper of several statements"""
        r = self.resolve(call)
        if r is None:
            return None
        target, body, bound, ctx = r
        res = None
        if body and isinstance(body[-1], ast.Return):
            res, body = body[-1].value, body[:-1]
        if not body or _has_inner_return(body):
            return None
        locs = {n.id for s in body for n in ast.walk(s) if isinstance(n, ast.Name) and isinstance(n.ctx, ast.Store)}
        self.counter += 1
        sub = dict(bound)
        for l in sorted(locs & self.caller_names):      # a local of the helper must not capture a name of the caller
            sub[l] = ast.Name(id=f"{l}__h{self.counter}", ctx=ast.Load())
        stmts = [_Subst(sub).visit(copy.deepcopy(s)) for s in body]
        res = _Subst(sub).visit(copy.deepcopy(res)) if res is not None else None
        inner = Inliner(self.repo, ctx[0], ctx[1], ctx[2], self.keep, self.depth - 1)
        inner.caller_names = self.caller_names | {n.id for x in stmts for n in ast.walk(x) if isinstance(n, ast.Name)}
        inner.counter = self.counter * 10
        if self.depth > 1:
            stmts = inner.block(stmts)
            res = inner.in_expr(res) if res is not None else None
        return stmts, res

    def block(self, stmts):
        out = []
        for s in stmts:
            s = copy.deepcopy(s)
            call = None
            if isinstance(s, ast.Expr) and isinstance(s.value, ast.Call):
                call = s.value
            elif isinstance(s, (ast.Assign, ast.Return, ast.AugAssign, ast.AnnAssign)) and isinstance(s.value, ast.Call):
                call = s.value
            if call is not None and self.depth > 0:
                r = self.stmt_form(call)
                if r is not None:
                    body, res = r
                    out.extend(body)
                    if isinstance(s, (ast.Assign, ast.AugAssign, ast.AnnAssign)) and res is not None:
                        s.value = res
                        out.append(s)
                    elif isinstance(s, ast.Return):
                        s.value = res
                        out.append(s)
                    elif isinstance(s, (ast.Assign, ast.AugAssign, ast.AnnAssign)):
                        return_none = copy.deepcopy(s)     # helper returns nothing but its value is used: keep the call (fails closed later)
                        out = out[:len(out) - len(body)]
                        out.append(return_none)
                    continue
            # a statement helper used as a direct ARGUMENT of the statement's call (`lst.append(helper(..))`): its statements
            # are hoisted in front when everything evaluated before it is side-effect free
            top = s.value if isinstance(s, (ast.Expr, ast.Assign, ast.Return, ast.AugAssign, ast.AnnAssign)) and isinstance(getattr(s, "value", None), ast.Call) else None
            if top is not None and self.depth > 0 and _simple_arg(top.func):
                for i, a in enumerate(top.args):
                    if isinstance(a, ast.Call):
                        r = self.stmt_form(a)
                        if r is not None and r[1] is not None and all(_simple_arg(x) for x in top.args[:i]):
                            out.extend(r[0])
                            top.args[i] = r[1]
                        break
                    if not _simple_arg(a):
                        break
            for fld in ("body", "orelse", "finalbody"):
                if hasattr(s, fld) and isinstance(getattr(s, fld), list) and not isinstance(s, (ast.FunctionDef, ast.ClassDef)):
                    setattr(s, fld, self.block(getattr(s, fld)))
            if isinstance(s, ast.Try):
                for h in s.handlers:
                    h.body = self.block(h.body)
            if isinstance(s, (ast.With,)):
                pass
            for fld in ("value", "test", "iter"):
                if hasattr(s, fld) and isinstance(getattr(s, fld), ast.AST):
                    setattr(s, fld, self.in_expr(getattr(s, fld)))
            out.append(s)
        return out

    def inline(self, fn):
        new = copy.deepcopy(fn)
        self.caller_names = {n.id for n in ast.walk(fn) if isinstance(n, ast.Name)} | {a.arg for a in fn.args.args}
        new.body = self.block(_body_without_doc(fn))
        return ast.fix_missing_locations(new)


def normal_form(repo, rel, mod):
    """every function / method of the module with its helper calls inlined (the helpers themselves stay defined)"""
    raw = copy.deepcopy(mod)
    out = copy.deepcopy(mod)

    def scope(nodes_out, nodes_raw, cls_raw):
        for i, n in enumerate(nodes_out):
            if isinstance(n, ast.FunctionDef):
                nodes_out[i] = inlined(repo, rel, raw, cls_raw, nodes_raw[i], keep=KNOWN_FUNCTIONS)
            elif isinstance(n, ast.ClassDef):
                scope(n.body, nodes_raw[i].body, nodes_raw[i])
    scope(out.body, raw.body, None)
    return ast.fix_missing_locations(out)


def inlined_new_helpers(repo, rel, mod, cls, fn):
    return inlined(repo, rel, mod, cls, fn, keep=KNOWN_FUNCTIONS)


def inlined(repo, rel, mod, cls, fn, keep=()):
    """normal form of a function for the structural readers; on any internal error the function is returned as written"""
    try:
        return Inliner(repo, rel, mod, cls, keep).inline(fn)
    except Exception:
        return fn


def int_consts(scope):
    out = {}
    for n in scope.body:
        if isinstance(n, ast.Assign) and len(n.targets) == 1 and isinstance(n.targets[0], ast.Name):
            try:
                v = ast.literal_eval(n.value)
            except Exception:
                continue
            if isinstance(v, int) and not isinstance(v, bool):
                out[n.targets[0].id] = v
    return out


HEADER = """(* GENERATED by tools/py2v.py from {src} — do not edit, never committed. *)
From Coq Require Import String.\nFrom Coq Require Import ZArith List Bool.
From LasV Require Import Lib.Base.
Import ListNotations.
Open Scope Z_scope.
Open Scope bool_scope.

"""


class Out:
    def __init__(self, src):
        self.text = HEADER.format(src=src)
        self.missing = []

    def add(self, name, thunk):
        start = len(self.text)
        ok = True
        try:
            self.text += thunk() + "\n"
        except Untranslatable as ex:
            ok = False
            self.missing.append((name, str(ex)))
            self.text += f"(* MISSING {name}: untranslatable: {ex} *)\n\n"
        except Exception as ex:  # fail closed on anything
            ok = False
            self.missing.append((name, repr(ex)))
            self.text += f"(* MISSING {name}: translator error: {ex!r} *)\n\n"
        self.parts = getattr(self, "parts", []) + [(name, start, len(self.text), ok)]


# ----------------------------------------------------------------------------------
# target: header.GlobalEncoding  -> GenGlobalEncoding.v
# ----------------------------------------------------------------------------------
FLAGS = [
    ("gps_time_type", "GPS_TIME_TYPE_MASK"),
    ("waveform_data_packets_internal", "WAVEFORM_INTERNAL_MASK"),
    ("waveform_data_packets_external", "WAVEFORM_EXTERNAL_MASK"),
    ("synthetic_return_numbers", "SYNTHETIC_RETURN_NUMBERS_MASK"),
    ("wkt", "WKT_MASK"),
]


def gen_global_encoding(repo):
    o = Out("laspy/header.py class GlobalEncoding")
    mod = parse(repo, "laspy/header.py")
    cls = find_class(mod, "GlobalEncoding")
    consts = int_consts(cls)
    callees = {}

    def helper(pyname, params, mut=True):
        def t():
            fn = Fn({}, consts, state=["value"], callees=dict(callees))
            txt, rty = fn.function(find_func(cls, pyname), f"ge{pyname}", params, state_result=True)
            callees[pyname] = (f"ge{pyname}", [t for _, t in params], rty, True)
            return txt
        return t

    # helpers are translated in dependency order; unknown helpers -> callers fail closed
    helper_sigs = [("_set_bit", [("mask", "Z")]), ("_unset_bit", [("mask", "Z")]),
                   ("_set_if_true", [("mask", "Z"), ("value", "bool")])]
    for pyname, params in helper_sigs:
        o.add(pyname, helper(pyname, params))

    for flag, maskname in FLAGS:
        def getter(flag=flag):
            fn = Fn({}, consts, state=["value"], callees=dict(callees))
            f = find_func(cls, flag, "property")
            # the gps getter wraps in the GpsTimeType enum: GpsTimeType(x) has int value x for x in {0,1}
            body = f.body
            last = body[-1]
            if isinstance(last, ast.Return) and isinstance(last.value, ast.Call) and isinstance(last.value.func, ast.Name) and last.value.func.id == "GpsTimeType":
                inner = last.value.args[0]
                f = ast.FunctionDef(name=f.name, args=f.args, body=body[:-1] + [ast.Return(value=ast.Call(func=ast.Name(id="bool"), args=[inner], keywords=[]))], decorator_list=[])
            txt, rty = fn.function(f, f"ge_get_{flag}", [], result="bool")
            return txt
        o.add(f"get_{flag}", getter)

        def setter(flag=flag):
            fn = Fn({}, consts, state=["value"], callees=dict(callees))
            f = find_func(cls, flag, f"{flag}.setter")
            txt, rty = fn.function(f, f"ge_set_{flag}", [("value", "bool")], state_result=True)
            return txt
        o.add(f"set_{flag}", setter)

    def masks():
        return "Definition ge_masks : list Z := [" + "; ".join(z(consts[m]) for _, m in FLAGS) + "].\n"
    o.add("masks", masks)

    def tables():
        names = [f for f, _ in FLAGS]
        g = "Definition ge_getters : list (Z -> bool) := [" + "; ".join(f"ge_get_{n}" for n in names) + "].\n"
        s = "Definition ge_setters : list (Z -> bool -> Z) := [" + "; ".join(f"ge_set_{n}" for n in names) + "].\n"
        return g + s
    o.add("tables", tables)
    return o


# ----------------------------------------------------------------------------------
# target: _compression/format.py, packing.py -> GenFormatBits.v
# ----------------------------------------------------------------------------------
def gen_format_bits(repo):
    o = Out("laspy/_compression/format.py, laspy/point/packing.py")
    mod = parse(repo, "laspy/_compression/format.py")
    for name, rt in [("is_point_format_compressed", "bool"), ("compressed_id_to_uncompressed", "Z"),
                     ("uncompressed_id_to_compressed", "Z")]:
        def t(name=name, rt=rt):
            fn = Fn({}, int_consts(mod))
            return fn.function(find_func(mod, name), name, [("point_format_id", "Z")], result=rt)[0]
        o.add(name, t)
    pk = parse(repo, "laspy/point/packing.py")

    def lsb():
        fn = Fn({}, {})
        return fn.function(find_func(pk, "least_significant_bit_set"), "least_significant_bit_set", [("mask", "Z")], result="Z")[0]
    o.add("least_significant_bit_set", lsb)
    return o



# ----------------------------------------------------------------------------------
# target: header.py write_to / read_from field sequences -> GenHeaderLayout.v
# ----------------------------------------------------------------------------------
ALIASES = {
    "creation_date.timetuple().tm_yday": "creation_yday", "creation_date.year": "creation_year",
    "creation_day_of_year": "creation_yday", "len(_vlrs)": "number_of_vlrs", "point_format.size": "point_size",
    "int(0)": "zero", "0": "zero", "(0)": "zero", "LAS_FILE_SIGNATURE": "signature", "file_sig": "signature", "uuid.bytes_le": "uuid",
    "vlr_bytes": "vlrs", "_vlrs": "vlrs", "start_of_waveform_data_packet_record": "start_of_waveform",
}


def canon(node, subst):
    t = ast.unparse(node)
    for k, v in subst.items():
        t = re.sub(rf"\[{k}\]", f"[{v}]", t)
    t = re.sub(r"\b(self|header)\.", "", t)
    m = re.fullmatch(r"int\((.*\[\d+\])\)", t)
    if m:
        t = m.group(1)
    return ALIASES.get(t, t)


def const_int(node, consts, flags=None):
    """compile-time integer: literals, module constants / known locals, conditional expressions on a known boolean flag
    (`8 if extended else 2`), + - * of those"""
    flags = flags or {}
    if isinstance(node, ast.Constant) and isinstance(node.value, int) and not isinstance(node.value, bool):
        return node.value
    if isinstance(node, ast.Name) and node.id in consts:
        return consts[node.id]
    if isinstance(node, ast.IfExp):
        t = node.test
        neg = False
        if isinstance(t, ast.UnaryOp) and isinstance(t.op, ast.Not):
            t, neg = t.operand, True
        if isinstance(t, ast.Name) and t.id in flags:
            v = flags[t.id] != neg
            return const_int(node.body if v else node.orelse, consts, flags)
    if isinstance(node, ast.BinOp) and isinstance(node.op, (ast.Add, ast.Sub, ast.Mult)):
        a, b = const_int(node.left, consts, flags), const_int(node.right, consts, flags)
        return a + b if isinstance(node.op, ast.Add) else a - b if isinstance(node.op, ast.Sub) else a * b
    raise Untranslatable(f"width {ast.unparse(node)}")


def const_bytes(node, consts, flags=None):
    """compile-time bytes: a literal, literal * n, n * literal, bytes(n); None if it is not one"""
    if isinstance(node, ast.Constant) and isinstance(node.value, bytes):
        return node.value
    try:
        if isinstance(node, ast.BinOp) and isinstance(node.op, ast.Mult):
            for x, y in ((node.left, node.right), (node.right, node.left)):
                if isinstance(x, ast.Constant) and isinstance(x.value, bytes):
                    return x.value * const_int(y, consts, flags)
        if isinstance(node, ast.Call) and isinstance(node.func, ast.Name) and node.func.id == "bytes" and len(node.args) == 1 and not node.keywords:
            return bytes(const_int(node.args[0], consts, flags))
    except Untranslatable:
        return None
    return None


def local_consts(stmt, consts, flags):
    """`name = <compile-time integer>`: remember it (a temporary for a width)"""
    if isinstance(stmt, ast.Assign) and len(stmt.targets) == 1 and isinstance(stmt.targets[0], ast.Name):
        try:
            consts[stmt.targets[0].id] = const_int(stmt.value, consts, flags)
            return True
        except Untranslatable:
            return False
    return False


def is_little(node, locals_):
    if isinstance(node, ast.Constant):
        return node.value == "little"
    if isinstance(node, ast.Name):
        return locals_.get(node.id) == "little"
    return False


def unsigned_kw(call):
    for k in call.keywords:
        if k.arg == "signed":
            return isinstance(k.value, ast.Constant) and k.value.value is False
        if k.arg == "byteorder":
            continue
    return True


def byteorder_ok(call, pos, locals_):
    for k in call.keywords:
        if k.arg == "byteorder":
            return is_little(k.value, locals_)
    return len(call.args) > pos and is_little(call.args[pos], locals_)


def version_test(test, minor):
    """evaluate `self.version.minor >= k` / `header.version.minor >= k`; None if not such a test"""
    if isinstance(test, ast.Compare) and len(test.ops) == 1 and re.fullmatch(r"(self|header)\.version\.minor", ast.unparse(test.left)):
        k = test.comparators[0]
        if isinstance(k, ast.Constant) and isinstance(k.value, int):
            op = test.ops[0]
            return {ast.GtE: minor >= k.value, ast.Gt: minor > k.value, ast.Lt: minor < k.value,
                    ast.LtE: minor <= k.value, ast.Eq: minor == k.value}.get(type(op))
    return None


def has_stream_io(node, meth):
    for n in ast.walk(node):
        if isinstance(n, ast.Call) and isinstance(n.func, ast.Attribute) and n.func.attr == meth \
                and isinstance(n.func.value, ast.Name) and n.func.value.id == "stream":
            return True
        if isinstance(n, ast.Call) and any(isinstance(a, ast.Name) and a.id == "stream" for a in n.args):
            return True
    return False


def header_write_layout(fn, consts, minor, ge_width):
    fields = []
    locals_ = {}

    def classify(arg, subst):
        if isinstance(arg, ast.Call) and isinstance(arg.func, ast.Attribute) and arg.func.attr == "to_bytes":
            if not byteorder_ok(arg, 1, locals_) or not unsigned_kw(arg):
                raise Untranslatable(f"to_bytes not little/unsigned: {ast.unparse(arg)}")
            return ("KUInt", const_int(arg.args[0], consts), canon(arg.func.value, subst))
        if isinstance(arg, ast.Call) and ast.unparse(arg.func) == "struct.pack":
            if not (isinstance(arg.args[0], ast.Constant) and arg.args[0].value == "<d"):
                raise Untranslatable("struct.pack format")
            return ("KF64", 8, canon(arg.args[1], subst))
        name = canon(arg, subst)
        if name == "signature":
            return ("KConst", 4, name)
        if name == "uuid":
            return ("KBytes", 16, name)
        if name in ("extra_header_bytes", "vlrs", "extra_vlr_bytes"):
            return ("KVar", 0, name)
        raise Untranslatable(f"stream.write({ast.unparse(arg)})")

    def walk(stmts, subst):
        for s in stmts:
            if isinstance(s, ast.Assign) and isinstance(s.value, ast.Constant) and isinstance(s.value.value, str) and isinstance(s.targets[0], ast.Name):
                locals_[s.targets[0].id] = s.value.value
                continue
            call = None
            if isinstance(s, ast.Expr) and isinstance(s.value, ast.Call):
                call = s.value
            elif isinstance(s, ast.Assign) and isinstance(s.value, ast.Call):
                call = s.value
            if call is not None:
                f = ast.unparse(call.func)
                if f == "stream.write":
                    fields.append(classify(call.args[0], subst))
                    continue
                if f == "write_string" and ast.unparse(call.args[0]) == "stream":
                    fields.append(("KStr", const_int(call.args[2], consts), canon(call.args[1], subst)))
                    continue
                if f == "write_as_c_string" and ast.unparse(call.args[0]) == "stream":
                    fields.append(("KCStr", const_int(call.args[2], consts), canon(call.args[1], subst)))
                    continue
                if f == "self.global_encoding.write_to":
                    fields.append(("KUInt", ge_width, "global_encoding"))
                    continue
            if isinstance(s, ast.If):
                v = version_test(s.test, minor)
                if v is None:
                    if has_stream_io(s, "write"):
                        raise Untranslatable(f"stream write under condition {ast.unparse(s.test)}")
                    continue
                walk(s.body if v else s.orelse, subst)
                continue
            if isinstance(s, ast.For):
                it = s.iter
                if isinstance(it, ast.Call) and ast.unparse(it.func) == "range" and len(it.args) == 1 and isinstance(s.target, ast.Name):
                    for i in range(const_int(it.args[0], consts)):
                        walk(s.body, dict(subst, **{s.target.id: i}))
                    continue
                raise Untranslatable("for loop shape")
            if has_stream_io(s, "write"):
                raise Untranslatable(f"unrecognised stream write in: {ast.unparse(s)[:80]}")
    walk(fn.body, {})
    return fields


def header_read_layout(fn, consts, minor, ge_width):
    fields = []
    locals_ = {}

    def reads_in(node):
        """stream.read(...) calls and helper calls on `stream`, in source order"""
        out = []

        def dfs(n):
            if isinstance(n, ast.Call):
                f = ast.unparse(n.func)
                if f == "stream.read":
                    out.append(("read", n))
                    return
                if f == "read_string" and n.args and ast.unparse(n.args[0]) == "stream":
                    out.append(("read_string", n))
                    return
                if f == "GlobalEncoding.read_from":
                    out.append(("ge", n))
                    return
                if f == "VLRList.read_from":
                    out.append(("vlrs", n))
                    return
            for c in ast.iter_child_nodes(n):
                dfs(c)
        dfs(node)
        return out

    def kind_of_context(stmt_value, readcall):
        """what wraps the stream.read: int.from_bytes / struct.unpack / UUID / raw"""
        for n in ast.walk(stmt_value):
            if isinstance(n, ast.Call) and readcall in n.args + [k.value for k in n.keywords]:
                f = ast.unparse(n.func)
                if f == "int.from_bytes":
                    if not byteorder_ok(n, 1, locals_) or not unsigned_kw(n):
                        raise Untranslatable("from_bytes not little/unsigned")
                    return "KUInt"
                if f == "struct.unpack":
                    if not (isinstance(n.args[0], ast.Constant) and n.args[0].value == "<d"):
                        raise Untranslatable("struct.unpack format")
                    return "KF64"
                if f == "UUID":
                    return "KBytes"
                raise Untranslatable(f"stream.read wrapped in {f}")
        return "raw"

    def walk(stmts, subst):
        for s in stmts:
            if isinstance(s, ast.Assign) and isinstance(s.value, ast.Constant) and isinstance(s.value.value, str) and isinstance(s.targets[0], ast.Name):
                locals_[s.targets[0].id] = s.value.value
                continue
            if isinstance(s, ast.Assign) and ast.unparse(s.targets[0]) == "stream":
                continue  # stream = io.BytesIO(prefetch)
            if isinstance(s, ast.If):
                v = version_test(s.test, minor)
                if v is None:
                    rs = [r for b in (s.body, s.orelse) for st in b for r in reads_in(st)]
                    if not rs:
                        continue
                    # `if current_pos < header_size: header.extra_header_bytes = stream.read(...)`: variable part
                    if len(rs) == 1 and rs[0][0] == "read" and isinstance(s.body[0], ast.Assign):
                        fields.append(("KVar", 0, canon(s.body[0].targets[0], subst)))
                        continue
                    raise Untranslatable(f"stream read under condition {ast.unparse(s.test)}")
                walk(s.body if v else s.orelse, subst)
                continue
            if isinstance(s, ast.For):
                it = s.iter
                if isinstance(it, ast.Call) and ast.unparse(it.func) == "range" and len(it.args) == 1 and isinstance(s.target, ast.Name):
                    for i in range(const_int(it.args[0], consts)):
                        walk(s.body, dict(subst, **{s.target.id: i}))
                    continue
                raise Untranslatable("for loop shape")
            if isinstance(s, ast.Try):
                if any(reads_in(x) for x in ast.walk(s) if isinstance(x, ast.stmt) and x is not s):
                    raise Untranslatable("stream read inside try")
                continue
            rs = reads_in(s)
            if not rs:
                continue
            if not isinstance(s, ast.Assign) or len(s.targets) != 1:
                raise Untranslatable(f"read outside assignment: {ast.unparse(s)[:80]}")
            tgt = canon(s.targets[0], subst)
            if tgt == "_version" and len(rs) == 2:
                for nm, (k, c) in zip(("version.major", "version.minor"), rs):
                    fields.append((kind_of_context(s.value, c), const_int(c.args[0], consts), nm))
                continue
            if len(rs) != 1:
                raise Untranslatable(f"several reads in {ast.unparse(s)[:80]}")
            k, c = rs[0]
            if k == "read":
                kind = kind_of_context(s.value, c)
                if kind == "raw":
                    kind = "KConst" if tgt == "signature" else "KBytes"
                fields.append((kind, const_int(c.args[0], consts), tgt))
            elif k == "read_string":
                fields.append(("KStr", const_int(c.args[1], consts), tgt))
            elif k == "ge":
                fields.append(("KUInt", ge_width, tgt))
            elif k == "vlrs":
                fields.append(("KVar", 0, tgt))
    walk(fn.body, {})
    return fields


def ge_io_width(cls, consts):
    w = find_func(cls, "write_to")
    r = find_func(cls, "read_from")
    ws = [n for n in ast.walk(w) if isinstance(n, ast.Call) and isinstance(n.func, ast.Attribute) and n.func.attr == "to_bytes"]
    rs = [n for n in ast.walk(r) if isinstance(n, ast.Call) and ast.unparse(n.func) == "stream.read"]
    if len(ws) != 1 or len(rs) != 1:
        raise Untranslatable("GlobalEncoding io shape")
    for n in ws:
        if not byteorder_ok(n, 1, {}) or not unsigned_kw(n):
            raise Untranslatable("GlobalEncoding.write_to byte order")
    a, b = const_int(ws[0].args[0], consts), const_int(rs[0].args[0], consts)
    if a != b:
        raise Untranslatable("GlobalEncoding widths differ")
    return a


def coq_layout(fields):
    return "[" + "; ".join(f'({k}, {w}%nat, "{n}"%string)' for k, w, n in fields) + "]"


def gen_header_layout(repo):
    o = Out("laspy/header.py LasHeader.write_to / read_from, laspy/vlrs/vlrlist.py")
    o.text = o.text.replace("From LasV Require Import Lib.Base.", "From LasV Require Import Lib.Base Lib.Layout.")
    mod = parse(repo, "laspy/header.py")
    consts = imported_int_consts(repo, "laspy/header.py", mod)
    cls = find_class(mod, "LasHeader")
    gecls = find_class(mod, "GlobalEncoding")
    for minor in (1, 2, 3, 4):
        def w(minor=minor):
            gw = ge_io_width(gecls, consts)
            return f"Definition hdr_write_layout_{minor} : layout := " + coq_layout(header_write_layout(find_func(cls, "write_to"), consts, minor, gw)) + ".\n"
        o.add(f"hdr_write_layout_{minor}", w)

        def r(minor=minor):
            gw = ge_io_width(gecls, consts)
            return f"Definition hdr_read_layout_{minor} : layout := " + coq_layout(header_read_layout(find_func(cls, "read_from"), consts, minor, gw)) + ".\n"
        o.add(f"hdr_read_layout_{minor}", r)

    def sizes():
        for n in mod.body:
            if isinstance(n, ast.Assign) and ast.unparse(n.targets[0]) == "LAS_HEADERS_SIZE":
                d = ast.literal_eval(n.value)
                rows = "; ".join(f"({k.split('.')[0]}, {k.split('.')[1]}, {v})" for k, v in d.items())
                return f"Definition las_headers_size : list (Z * Z * Z) := [{rows}].\n"
        raise Untranslatable("LAS_HEADERS_SIZE")
    o.add("las_headers_size", sizes)

    # VLR record headers
    vmod = parse(repo, "laspy/vlrs/vlrlist.py")
    vconsts = imported_int_consts(repo, "laspy/vlrs/vlrlist.py", vmod)
    vcls = find_class(vmod, "VLRList")

    def vlr_w(ext):
        def t():
            fn = find_func(vcls, "write_to")
            loop = [s for s in fn.body if isinstance(s, ast.For)]
            if len(loop) != 1:
                raise Untranslatable("VLRList.write_to loop")
            fields = []
            vc = dict(vconsts)
            flags = {"as_extended": ext}
            for s in loop[0].body:
                if local_consts(s, vc, flags):
                    continue
                calls = []
                if isinstance(s, ast.Expr) and isinstance(s.value, ast.Call):
                    calls = [(s.value, None)]
                elif isinstance(s, ast.If) and ast.unparse(s.test) == "as_extended":
                    br = s.body if ext else s.orelse
                    calls = [(x.value, None) for x in br if isinstance(x, ast.Expr) and isinstance(x.value, ast.Call)]
                    for x in br:
                        if not (isinstance(x, ast.Expr) and isinstance(x.value, ast.Call)) and has_stream_io(x, "write"):
                            raise Untranslatable("VLR write under nested condition")
                elif has_stream_io(s, "write"):
                    raise Untranslatable(f"VLR write in {ast.unparse(s)[:60]}")
                for c, _ in calls:
                    f = ast.unparse(c.func)
                    if f == "stream.write":
                        a = c.args[0]
                        cb = const_bytes(a, vc, flags)
                        if cb is not None:
                            if any(cb):
                                raise Untranslatable("non-zero reserved")
                            fields.append(("KConst", len(cb), "reserved"))
                        elif isinstance(a, ast.Call) and isinstance(a.func, ast.Attribute) and a.func.attr == "to_bytes":
                            if not byteorder_ok(a, 1, {}) or not unsigned_kw(a):
                                raise Untranslatable("VLR to_bytes order")
                            nm = ast.unparse(a.func.value).replace("vlr.", "").replace("len(record_data)", "record_length")
                            fields.append(("KUInt", const_int(a.args[0], vc, flags), nm))
                        elif ast.unparse(a) == "record_data":
                            fields.append(("KVar", 0, "record_data"))
                        else:
                            raise Untranslatable(f"VLR stream.write({ast.unparse(a)})")
                    elif f in ("write_string", "write_as_c_string"):
                        fields.append(("KStr" if f == "write_string" else "KCStr", const_int(c.args[2], vc, flags),
                                       ast.unparse(c.args[1]).replace("vlr.", "")))
                    elif has_stream_io(c, "write"):
                        raise Untranslatable(f"VLR write through an unknown call: {ast.unparse(c)[:60]}")
            if len(fields) < 4:
                raise Untranslatable("VLRList.write_to: fewer than 4 fields recognised")
            return f"Definition vlr_write_layout_{'ext' if ext else 'std'} : layout := " + coq_layout(fields) + ".\n"
        return t
    o.add("vlr_write_layout_std", vlr_w(False))
    o.add("vlr_write_layout_ext", vlr_w(True))

    def vlr_r(ext):
        def t():
            fn = find_func(vcls, "read_from")
            loop = [s for s in fn.body if isinstance(s, ast.For)]
            if len(loop) != 1:
                raise Untranslatable("VLRList.read_from loop")
            fields = []
            vc = dict(vconsts)
            flags = {"extended": ext}

            def one(s):
                if local_consts(s, vc, flags):
                    return
                rd = [n for n in ast.walk(s) if isinstance(n, ast.Call) and ast.unparse(n.func) in ("data_stream.read", "read_string")]
                if not rd:
                    if any(isinstance(n, ast.Name) and n.id in ("data_stream", "stream") for n in ast.walk(s)):
                        raise Untranslatable(f"VLR read through an unknown call: {ast.unparse(s)[:60]}")
                    return
                if len(rd) != 1:
                    raise Untranslatable("several reads")
                c = rd[0]
                tgt = ast.unparse(s.targets[0]) if isinstance(s, ast.Assign) else "reserved"
                tgt = {"record_data_len": "record_length", "record_data_bytes": "record_data"}.get(tgt, tgt)
                if ast.unparse(c.func) == "read_string":
                    fields.append(("KStr", const_int(c.args[1], vc, flags), tgt))
                    return
                src = ast.unparse(s)
                if "int.from_bytes" in src:
                    fb = [n for n in ast.walk(s) if isinstance(n, ast.Call) and ast.unparse(n.func) == "int.from_bytes"][0]
                    if not byteorder_ok(fb, 1, {}) or not unsigned_kw(fb):
                        raise Untranslatable("VLR from_bytes order")
                    fields.append(("KUInt", const_int(c.args[0], vc, flags), tgt))
                elif ".split(b'\\x00')[0]" in src or '.split(b"\\0")[0]' in src:
                    fields.append(("KStr", const_int(c.args[0], vc, flags), tgt))
                elif tgt == "record_data":
                    fields.append(("KVar", 0, tgt))
                elif tgt == "reserved":
                    fields.append(("KConst", const_int(c.args[0], vc, flags), tgt))
                else:
                    raise Untranslatable(f"VLR read {src[:60]}")
            for s in loop[0].body:
                if isinstance(s, ast.If) and ast.unparse(s.test) == "extended":
                    for x in (s.body if ext else s.orelse):
                        one(x)
                else:
                    one(s)
            if len(fields) < 4:
                raise Untranslatable("VLRList.read_from: fewer than 4 fields recognised")
            return f"Definition vlr_read_layout_{'ext' if ext else 'std'} : layout := " + coq_layout(fields) + ".\n"
        return t
    o.add("vlr_read_layout_std", vlr_r(False))
    o.add("vlr_read_layout_ext", vlr_r(True))
    return o



# ----------------------------------------------------------------------------------
# target: table dump of laspy.point.dims / extradims / PointFormat -> GenDims.v
# ----------------------------------------------------------------------------------
def gen_dims(repo):
    o = Out("laspy/point/dims.py, laspy/extradims.py, laspy/point/format.py (values of the running module)")
    sys.path.insert(0, repo)
    for m in [k for k in sys.modules if k == "laspy" or k.startswith("laspy.")]:
        del sys.modules[m]
    import importlib
    dims = importlib.import_module("laspy.point.dims")
    extradims = importlib.import_module("laspy.extradims")
    fmtmod = importlib.import_module("laspy.point.format")
    import numpy as np

    def qs(x):
        return '"' + x + '"%string'

    def compat():
        rows = []
        for ver, fmts in dims.VERSION_TO_POINT_FMT.items():
            a, b = ver.split(".")
            rows.append(f"({a}, {b}, [{'; '.join(str(int(f)) for f in fmts)}])")
        return "Definition version_to_point_fmt : list (Z * Z * list Z) := [" + "; ".join(rows) + "].\n"
    o.add("version_to_point_fmt", compat)

    def pref():
        rows = []
        for f in sorted(dims.POINT_FORMAT_DIMENSIONS.keys()):
            a, b = dims.preferred_file_version_for_point_format(f).split(".")
            rows.append(f"({f}, ({a}, {b}))")
        return "Definition preferred_version : list (Z * (Z * Z)) := [" + "; ".join(rows) + "].\n"
    o.add("preferred_version", pref)

    def minfmt():
        rows = []
        for ver in dims.VERSION_TO_POINT_FMT:
            a, b = ver.split(".")
            rows.append(f"({a}, {b}, {dims.min_point_format_for_version(ver)})")
        return "Definition min_point_format : list (Z * Z * Z) := [" + "; ".join(rows) + "].\n"
    o.add("min_point_format", minfmt)

    def fields():
        # per format: (name, byte offset, width, kind letter i/u/f) from PointFormat(i).dtype()
        out = []
        for f in sorted(dims.POINT_FORMAT_DIMENSIONS.keys()):
            dt = fmtmod.PointFormat(f).dtype()
            if dt.isalignedstruct:
                raise Untranslatable("aligned struct")
            rows = []
            for name in dt.names:
                sub, off = dt.fields[name][0], dt.fields[name][1]
                rows.append(f"({qs(name)}, {off}, {sub.itemsize}, {qs(sub.kind)})")
            out.append(f"({f}, {dt.itemsize}, [{'; '.join(rows)}])")
        return "Definition point_formats : list (Z * Z * list (string * Z * Z * string)) := [\n  " + ";\n  ".join(out) + "].\n"
    o.add("point_formats", fields)

    def subfields():
        out = []
        for f in sorted(dims.POINT_FORMAT_DIMENSIONS.keys()):
            rows = []
            for composed, subs in dims.COMPOSED_FIELDS[f].items():
                for sf in subs:
                    rows.append(f"({qs(sf.name)}, {qs(composed)}, {int(sf.mask)})")
            out.append(f"({f}, [{'; '.join(rows)}])")
        return "Definition sub_fields : list (Z * list (string * string * Z)) := [\n  " + ";\n  ".join(out) + "].\n"
    o.add("sub_fields", subfields)

    def ebtypes():
        rows = []
        for i, dt in enumerate(extradims._allowed_extra_dims_types):
            n = dt.shape[0] if dt.ndim == 1 else 1
            rows.append(f"({i + 1}, {qs(dt.base.kind)}, {dt.base.itemsize}, {n})")
        return "Definition extra_dim_types : list (Z * string * Z * Z) := [" + "; ".join(rows) + "].\n"
    o.add("extra_dim_types", ebtypes)
    return o



# ----------------------------------------------------------------------------------
# target: lasreader.py read_points / seek cursor arithmetic -> GenCursor.v
# ----------------------------------------------------------------------------------
class ProjFn(Fn):
    """Projection of a method onto its integer bookkeeping: statements that neither assign a tracked
    variable nor steer control flow are dropped; `return` yields the tuple `ret` of tracked names.
    attrmap maps source attribute expressions to tracked names."""

    def __init__(self, env, consts, attrmap, ret, effects, raises=False):
        super().__init__(env, consts, raises=raises)
        self.attrmap = attrmap
        self.ret = ret
        self.effects = effects      # unparsed call prefix -> tracked name receiving the argument
        self.ranges = {}

    def expr(self, e):
        if isinstance(e, ast.Attribute):
            t = ast.unparse(e)
            if t in self.attrmap:
                n = self.attrmap[t]
                return (n, self.env[n])
            if t in self.consts:
                return (z(self.consts[t]), "Z")
        if isinstance(e, ast.Compare) and len(e.ops) == 1 and isinstance(e.ops[0], (ast.In, ast.NotIn)) \
                and isinstance(e.comparators[0], ast.Name) and e.comparators[0].id in self.ranges:
            lo, hi = self.ranges[e.comparators[0].id]
            l, lt = self.expr(e.left)
            t = f"(({lo} <=? {l}) && ({l} <? {hi}))"
            return (f"(negb {t})" if isinstance(e.ops[0], ast.NotIn) else t, "bool")
        return super().expr(e)

    def target_name(self, t):
        u = ast.unparse(t)
        if u in self.attrmap:
            return self.attrmap[u]
        return super().target_name(t)

    def tracked(self, node):
        names = set(self.env) | set(self.ranges)
        for n in ast.walk(node):
            if isinstance(n, ast.Name) and n.id in names:
                return True
            if isinstance(n, ast.Attribute) and ast.unparse(n) in self.attrmap:
                return True
        return False

    def assigns_tracked(self, s):
        for n in ast.walk(s):
            if isinstance(n, (ast.Assign, ast.AugAssign)):
                tg = n.targets if isinstance(n, ast.Assign) else [n.target]
                for t in tg:
                    u = ast.unparse(t)
                    if u in self.attrmap or (isinstance(t, ast.Name) and (t.id in self.env or t.id in self.ranges)):
                        return True
        return False

    def droppable(self, s):
        if any(isinstance(n, (ast.Return, ast.Raise)) for n in ast.walk(s)):
            return False
        return not self.assigns_tracked(s)

    def block(self, stmts, final):
        if not stmts:
            return super().block(stmts, final)
        s, rest = stmts[0], stmts[1:]
        if isinstance(s, ast.Return):
            tup = "(" + ", ".join(self.ret) + ")" if len(self.ret) > 1 else self.ret[0]
            for n in self.ret:
                if n not in self.env:
                    raise Untranslatable(f"return before {n} is defined")
            self.ret_types.add("tuple")
            return f"Ok {tup}" if self.raises else tup
        # effect calls: self.point_source.seek(x) / ...read_n_points(x)
        for n in ast.walk(s):
            if isinstance(n, ast.Call) and ast.unparse(n.func) in self.effects and not isinstance(s, (ast.If, ast.For, ast.While)):
                name = self.effects[ast.unparse(n.func)]
                v, t = self.expr(n.args[0])
                if t != "Z":
                    raise Untranslatable("effect argument type")
                self.env[name] = "Z"
                tgt_ok = not self.assigns_tracked(s)
                if not tgt_ok:
                    raise Untranslatable("effect mixed with tracked assignment")
                return f"let {name} := {v} in\n{self.block(rest, final)}"
        if isinstance(s, ast.Assign) and len(s.targets) == 1 and isinstance(s.targets[0], ast.Name) \
                and isinstance(s.value, ast.Call) and ast.unparse(s.value.func) == "range" and len(s.value.args) == 2:
            lo = self.expr(s.value.args[0])[0]
            hi = self.expr(s.value.args[1])[0]
            nm = s.targets[0].id
            self.ranges[nm] = (f"{nm}_lo", f"{nm}_hi")
            self.env[f"{nm}_lo"] = "Z"
            self.env[f"{nm}_hi"] = "Z"
            return f"let {nm}_lo := {lo} in let {nm}_hi := {hi} in\n{self.block(rest, final)}"
        if isinstance(s, ast.Assign) and len(s.targets) == 1 and isinstance(s.targets[0], ast.Name) \
                and s.targets[0].id not in self.env:
            try:
                v, t = self.expr(s.value)
            except Untranslatable:
                v = None
            if v is not None:
                self.env[s.targets[0].id] = t
                return f"let {s.targets[0].id} := {v} in\n{self.block(rest, final)}"
        if isinstance(s, ast.If) and self.droppable(s):
            return self.block(rest, final)
        if isinstance(s, ast.If) and not self.tracked(s.test):
            if self.droppable(s):
                return self.block(rest, final)
            raise Untranslatable(f"control flow on untracked condition {ast.unparse(s.test)}")
        if isinstance(s, ast.If):
            # if/elif chains where every branch assigns the same new names (ranges, ints)
            return self.if_chain(s, rest, final)
        if not isinstance(s, (ast.If, ast.Raise)) and self.droppable(s) and not (
                isinstance(s, (ast.Assign, ast.AugAssign)) and self.assigns_tracked(s)):
            if isinstance(s, (ast.Assign, ast.AugAssign, ast.Expr)):
                return self.block(rest, final)
        return super().block(stmts, final)

    def if_chain(self, s, rest, final):
        c = self.as_bool(*self.expr(s.test))
        if self.always_returns(s.body):
            save = (dict(self.env), dict(self.ranges))
            a = self.block(list(s.body), None)
            self.env, self.ranges = dict(save[0]), dict(save[1])
            b = self.block(list(s.orelse) + rest, final)
            return f"if {c} then ({a})\nelse ({b})"
        if s.orelse and self.always_returns(s.orelse) and not self.always_returns(s.body):
            save = (dict(self.env), dict(self.ranges))
            b = self.block(list(s.orelse), None)
            self.env, self.ranges = dict(save[0]), dict(save[1])
            a = self.block(list(s.body) + rest, final)
            return f"if {c} then ({a})\nelse ({b})"
        # both branches fall through: continuation is duplicated into both (small functions only)
        save = (dict(self.env), dict(self.ranges))
        a = self.block(list(s.body) + rest, final)
        self.env, self.ranges = dict(save[0]), dict(save[1])
        b = self.block(list(s.orelse) + rest, final)
        return f"if {c} then ({a})\nelse ({b})"


def gen_cursor(repo):
    o = Out("laspy/lasreader.py LasReader.read_points / seek, PointChunkIterator.__next__")
    mod = parse(repo, "laspy/lasreader.py")
    cls = find_class(mod, "LasReader")
    attrmap = {"self.header.point_count": "point_count", "self.points_read": "points_read"}
    consts = {"io.SEEK_SET": 0, "io.SEEK_CUR": 1, "io.SEEK_END": 2}

    def rp():
        fn = ProjFn({"point_count": "Z", "points_read": "Z", "n": "Z", "src_read": "Z"}, consts, attrmap,
                    ["points_read", "src_read"], {"self.point_source.read_n_points": "src_read"})
        f = find_func(cls, "read_points")
        fn.ret_types = set()
        body = fn.block(f.body, None)
        body = textwrap.indent(body, "  ")
        # src_read = -1 marks "no source access" (the early return)
        return ("(* result: (new points_read, records requested from the source; -1 = source not touched) *)\n"
                "Definition gen_read_points (point_count points_read n : Z) : Z * Z :=\n  let src_read := (-1) in\n" + body + ".\n")
    o.add("gen_read_points", rp)

    def sk():
        fn = ProjFn({"point_count": "Z", "points_read": "Z", "pos": "Z", "whence": "Z"}, consts, attrmap,
                    ["points_read", "src_seek"], {"self.point_source.seek": "src_seek"}, raises=True)
        f = find_func(cls, "seek")
        fn.ret_types = set()
        body = fn.block(f.body, None)
        body = textwrap.indent(body, "  ")
        return ("(* result: (new points_read, point index the source was positioned at) *)\n"
                "Definition gen_seek (point_count points_read pos whence : Z) : result (Z * Z) :=\n" + body + ".\n")
    o.add("gen_seek", sk)

    def it():
        """__next__ is `x = self.reader.read_points(self.points_per_iteration)` followed by: raise StopIteration when x is
        empty, return x otherwise (either branch order, optional docstring)"""
        icls = find_class(mod, "PointChunkIterator")
        f = find_func(icls, "__next__")
        body = [st for st in f.body if not (isinstance(st, ast.Expr) and isinstance(st.value, ast.Constant) and isinstance(st.value.value, str))]
        if not body or not isinstance(body[0], ast.Assign) or len(body[0].targets) != 1 or not isinstance(body[0].targets[0], ast.Name):
            raise Untranslatable("PointChunkIterator.__next__ shape")
        x = body[0].targets[0].id
        if ast.unparse(body[0].value) != "self.reader.read_points(self.points_per_iteration)":
            raise Untranslatable("PointChunkIterator.__next__ does not read points_per_iteration points")

        def is_ret(st):
            return isinstance(st, ast.Return) and isinstance(st.value, ast.Name) and st.value.id == x

        def is_stop(st):
            return isinstance(st, ast.Raise) and st.exc is not None and ast.unparse(st.exc).startswith("StopIteration")
        rest = body[1:]
        ok = False
        if len(rest) == 2 and isinstance(rest[0], ast.If) and not rest[0].orelse and len(rest[0].body) == 1:
            t = ast.unparse(rest[0].test)
            if t in (f"not {x}", f"len({x}) == 0") and is_stop(rest[0].body[0]) and is_ret(rest[1]):
                ok = True
            if t in (x, f"len({x}) > 0", f"len({x})") and is_ret(rest[0].body[0]) and is_stop(rest[1]):
                ok = True
        if len(rest) == 1 and isinstance(rest[0], ast.If) and len(rest[0].body) == 1 and len(rest[0].orelse) == 1:
            t = ast.unparse(rest[0].test)
            if t == f"not {x}" and is_stop(rest[0].body[0]) and is_ret(rest[0].orelse[0]):
                ok = True
            if t == x and is_ret(rest[0].body[0]) and is_stop(rest[0].orelse[0]):
                ok = True
        if not ok:
            raise Untranslatable("PointChunkIterator.__next__ shape")
        return "Definition gen_iter_stops_on_empty : bool := true.\n"
    o.add("gen_iter", it)
    return o


TARGETS = {
    "GenGlobalEncoding.v": gen_global_encoding,
    "GenFormatBits.v": gen_format_bits,
    "GenHeaderLayout.v": gen_header_layout,
    "GenDims.v": gen_dims,
    "GenCursor.v": gen_cursor,
}


def load_plugins():
    """tools/py2v_*.py may add targets: each defines TARGETS = {"GenX.v": gen(repo) -> Out}; they import this module as py2v."""
    import glob
    import importlib.util
    here = os.path.dirname(os.path.abspath(__file__))
    sys.modules.setdefault("py2v", sys.modules[__name__])
    for path in sorted(glob.glob(os.path.join(here, "py2v_*.py"))):
        spec = importlib.util.spec_from_file_location(os.path.basename(path)[:-3], path)
        mod = importlib.util.module_from_spec(spec)
        try:
            spec.loader.exec_module(mod)
            TARGETS.update(getattr(mod, "TARGETS", {}))
        except Exception as ex:   # fail closed: a broken plugin produces a failed generation for its file name
            name = "Gen" + os.path.basename(path)[5:-3].capitalize() + ".v"
            TARGETS[name] = (lambda repo, ex=ex: (_ for _ in ()).throw(ex))


def retry_on_normal_form(gen, repo, o1):
    """Definitions the readers could not extract from the source as written are retried on its normal form (helpers introduced
    since the readers were written inlined). A definition read from the source as written is never replaced."""
    global NF_MODE
    if os.environ.get("VERIF_PY2V_INLINE", "1") == "0":
        return o1.text, o1.missing
    NF_MODE = True
    try:
        o2 = gen(repo)
    except Exception:
        return o1.text, o1.missing
    finally:
        NF_MODE = False
    p1, p2 = getattr(o1, "parts", []), getattr(o2, "parts", [])
    if [p[0] for p in p1] != [p[0] for p in p2]:
        return o1.text, o1.missing
    text, missing = o1.text, list(o1.missing)
    for (name, a, b, ok1), (_, c, d, ok2) in reversed(list(zip(p1, p2))):
        if not ok1 and ok2:
            text = text[:a] + f"(* {name}: read from the normal form of the source (new helpers inlined) *)\n" + o2.text[c:d] + text[b:]
            missing = [m for m in missing if m[0] != name]
    return text, missing


def main():
    repo, outdir = sys.argv[1], sys.argv[2]
    load_plugins()
    os.makedirs(outdir, exist_ok=True)
    report = {}
    for fname, gen in TARGETS.items():
        try:
            o = gen(repo)
            text, missing = o.text, o.missing
            if missing:
                text, missing = retry_on_normal_form(gen, repo, o)
        except Exception as ex:
            text = f"(* GENERATION FAILED: {ex!r} *)\n"
            missing = [("*", repr(ex))]
        path = os.path.join(outdir, fname)
        old = None
        if os.path.exists(path):
            with open(path) as f:
                old = f.read()
        if old != text:
            with open(path, "w") as f:
                f.write(text)
        report[fname] = missing
    import json
    print(json.dumps(report))


if __name__ == "__main__":
    main()
