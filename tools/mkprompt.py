#!/venv/bin/python
"""mkprompt.py <round> <PID> ...  — writes the prompt for a blind mutation sub-agent of round <round> to /tmp/mut_<PID>_prompt<round>.txt.

The prompt holds ONLY the property record, the location of a scratch worktree (/tmp/mut_<PID>, created here when missing) and one-paragraph
summaries of the changes earlier rounds already produced for that property (so that the new ones differ in kind); nothing about the checks.
Outputs are expected in /tmp/mut_<PID>_out<round>/<k>/{patch.diff,demo.py,meta.json}; `ROUND=<round> tools/seeded.py <PID>` confirms and files them."""
import glob, json, os, subprocess, sys
V = os.path.dirname(os.path.dirname(os.path.abspath(__file__)))
rnd = sys.argv[1]
ORD = {"2": "SECOND", "3": "THIRD", "4": "FOURTH", "5": "FIFTH", "6": "SIXTH", "7": "SEVENTH"}.get(rnd, rnd + "th")
recs = {json.loads(l)["id"]: json.loads(l) for l in open(os.path.join(V, "properties.jsonl"))}
head = open(os.path.join(V, "tools", "prompts", "mutant_head.txt")).read()
for pid in sys.argv[2:]:
    wt, out = f"/tmp/mut_{pid}", f"/tmp/mut_{pid}_out{rnd}"
    if not os.path.isdir(wt):
        subprocess.run(f"git -C /repo worktree prune; git -C /repo worktree add -q --detach {wt} main", shell=True, check=True)
    os.makedirs(out, exist_ok=True)
    s = head.replace("@@RECORD@@", json.dumps(recs[pid], indent=1)).replace("@@OUT@@", out).replace("@@WT@@", wt).replace("@@PID@@", pid)
    prev = []
    for d in sorted(glob.glob(os.path.join(V, "seeded", f"{pid}-*"))):
        try:
            m = json.load(open(d + "/meta.json"))
        except Exception:
            continue
        prev.append("- " + " ".join(str(m.get("summary", "")).split())[:420])
    if rnd != "1":
        s += (f"IMPORTANT — this is a {ORD} round. The following changes were already produced for this property by other people; yours must differ in kind AND in code "
              "site/mechanism from all of them (look for other mechanisms the property depends on: other API entry points (laspy.open/read/create/convert, LasData methods, "
              "header setters, record/views APIs, chunk iterators, context managers), other input classes the quantifier names (versions, formats, extra-dimension layouts, "
              "empty/one-element, boundary magnitudes), interactions between two features, state carried across calls or shared between objects, rarely used parameters, "
              "error paths, helper functions shared by several callers, class-level / module-level state, defaults of optional arguments):\n" + "\n".join(prev) +
              "\n\nAlso note: the worktree already contains a number of recent bug-fix commits (see `git log --oneline | head -50`); a change that merely reverts one of those commits "
              "does not count — invent new ones. Never use `git stash` (the stash is shared between worktrees); to test on a clean tree use `git diff > /tmp/x_" + pid +
              ".diff; git checkout -- .; ...; git apply /tmp/x_" + pid + ".diff`. First run `git -C " + wt + " checkout -q --detach main && git -C " + wt + " checkout -- . && git -C " + wt +
              " clean -fdq` so that you start from the newest tree.\n")
    open(f"/tmp/mut_{pid}_prompt{rnd}.txt", "w").write(s)
    print(pid, len(prev), "earlier changes listed ->", f"/tmp/mut_{pid}_prompt{rnd}.txt")
