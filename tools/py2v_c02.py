"""Translator plugin for property C02: the 192-byte extra-bytes descriptor of laspy (ctypes structure
ExtraBytesStruct in laspy/vlrs/known.py), its option-bit constants and the identity of the VLR that carries it,
dumped from the running module -> coq/Gen/GenC02.v.  Fail-closed: anything unexpected is an Untranslatable."""
import ctypes
import importlib
import os
import sys

import py2v
from py2v import Out, Untranslatable


def qs(x):
    if '"' in x or "\\" in x or any(ord(c) < 32 or ord(c) > 126 for c in x):
        raise Untranslatable(f"string {x!r} not printable")
    return '"' + x + '"%string'


def gen(repo):
    o = Out("laspy/vlrs/known.py ExtraBytesStruct / ExtraBytesVlr (ctypes layout and constants of the running module)")
    sys.path.insert(0, repo)
    for m in [k for k in sys.modules if k == "laspy" or k.startswith("laspy.")]:
        del sys.modules[m]
    known = importlib.import_module("laspy.vlrs.known")
    if not os.path.realpath(known.__file__).startswith(os.path.realpath(repo)):
        raise Untranslatable(f"laspy imported from {known.__file__}, not from {repo}")
    S = known.ExtraBytesStruct

    def fields():
        if not issubclass(S, ctypes.LittleEndianStructure):
            raise Untranslatable("ExtraBytesStruct is not a LittleEndianStructure")
        rows = []
        for name, ct in S._fields_:
            d = getattr(S, name)
            count, t = 1, ct
            while hasattr(t, "_length_"):
                count *= int(t._length_)
                t = t._type_
            code = getattr(t, "_type_", None)
            if not isinstance(code, str) or len(code) != 1:
                raise Untranslatable(f"field {name}: element type {t!r} is not a simple ctypes scalar")
            esz = ctypes.sizeof(t)
            if esz * count != d.size:
                raise Untranslatable(f"field {name}: size {d.size} is not {count} elements of {esz} bytes")
            rows.append(f"({qs(name)}, {int(d.offset)}, {int(d.size)}, {qs(code)}, {esz}, {count})")
        return ("Definition eb_struct_fields : list (string * Z * Z * string * Z * Z) := [\n  " + ";\n  ".join(rows) + "].\n\n"
                f"Definition eb_struct_size : Z := {int(ctypes.sizeof(S))}.\n")
    o.add("eb_struct_fields", fields)

    def size_fn():
        v = S.size()
        if int(v) != ctypes.sizeof(S):
            raise Untranslatable("ExtraBytesStruct.size() differs from ctypes.sizeof")
        return f"Definition eb_struct_size_method : Z := {int(v)}.\n"
    o.add("eb_struct_size_method", size_fn)

    def bits():
        names = [("no_data", "NO_DATA_BIT_MASK"), ("min", "MIN_BIT_MASK"), ("max", "MAX_BIT_MASK"),
                 ("scale", "SCALE_BIT_MASK"), ("offset", "OFFSET_BIT_MASK")]
        rows = []
        for lab, attr in names:
            v = getattr(S, attr)
            if not isinstance(v, int) or isinstance(v, bool):
                raise Untranslatable(f"{attr} is not an int")
            rows.append(f"({qs(lab)}, {v})")
        return "Definition eb_option_bits : list (string * Z) := [" + "; ".join(rows) + "].\n"
    o.add("eb_option_bits", bits)

    def vlr_id():
        uid = known.ExtraBytesVlr.official_user_id()
        rids = tuple(known.ExtraBytesVlr.official_record_ids())
        if len(rids) != 1:
            raise Untranslatable(f"ExtraBytesVlr.official_record_ids() = {rids!r}")
        return f"Definition eb_vlr_id : string * Z := ({qs(uid)}, {int(rids[0])}).\n"
    o.add("eb_vlr_id", vlr_id)

    def num_elements():
        # ExtraBytesStruct.num_elements() / dtype() of the running class for every data_type 1..30 (options = 0)
        rows = []
        for dt in range(1, 31):
            s = S(data_type=dt)
            d = s.dtype()
            n = int(s.num_elements())
            cnt = int(d.shape[0]) if d.ndim == 1 else 1
            if d.ndim > 1:
                raise Untranslatable(f"data_type {dt}: dtype {d!r}")
            rows.append(f"({dt}, {qs(d.base.kind)}, {int(d.base.itemsize)}, {cnt}, {n})")
        return "Definition eb_struct_types : list (Z * string * Z * Z * Z) := [" + "; ".join(rows) + "].\n"
    o.add("eb_struct_types", num_elements)
    return o


TARGETS = {"GenC02.v": gen}
