"""Translator plugin for property C02: the 192-byte extra-bytes descriptor of laspy (ctypes structure
ExtraBytesStruct in laspy/vlrs/known.py), its option-bit constants and the identity of the VLR that carries it,
dumped from the running module -> coq/Gen/GenC02.v.  Fail-closed: anything unexpected is an Untranslatable."""
import ctypes
import importlib
import os
import sys

import py2v
from py2v import Out, Untranslatable


def qs(x):
    if '"' in x or "\\" in x or any(ord(c) < 32 or ord(c) > 126 for c in x):
        raise Untranslatable(f"string {x!r} not printable")
    return '"' + x + '"%string'


def gen(repo):
    o = Out("laspy/vlrs/known.py ExtraBytesStruct / ExtraBytesVlr (ctypes layout and constants of the running module)")
    sys.path.insert(0, repo)
    for m in [k for k in sys.modules if k == "laspy" or k.startswith("laspy.")]:
        del sys.modules[m]
    known = importlib.import_module("laspy.vlrs.known")
    if not os.path.realpath(known.__file__).startswith(os.path.realpath(repo)):
        raise Untranslatable(f"laspy imported from {known.__file__}, not from {repo}")
    S = known.ExtraBytesStruct

    def fields():
        if not issubclass(S, ctypes.LittleEndianStructure):
            raise Untranslatable("ExtraBytesStruct is not a LittleEndianStructure")
        rows = []
        for name, ct in S._fields_:
            d = getattr(S, name)
            count, t = 1, ct
            while hasattr(t, "_length_"):
                count *= int(t._length_)
                t = t._type_
            code = getattr(t, "_type_", None)
            if not isinstance(code, str) or len(code) != 1:
                raise Untranslatable(f"field {name}: element type {t!r} is not a simple ctypes scalar")
            esz = ctypes.sizeof(t)
            if esz * count != d.size:
                raise Untranslatable(f"field {name}: size {d.size} is not {count} elements of {esz} bytes")
            rows.append(f"({qs(name)}, {int(d.offset)}, {int(d.size)}, {qs(code)}, {esz}, {count})")
        return ("Definition eb_struct_fields : list (string * Z * Z * string * Z * Z) := [\n  " + ";\n  ".join(rows) + "].\n\n"
                f"Definition eb_struct_size : Z := {int(ctypes.sizeof(S))}.\n")
    o.add("eb_struct_fields", fields)

    def size_fn():
        v = S.size()
        if int(v) != ctypes.sizeof(S):
            raise Untranslatable("ExtraBytesStruct.size() differs from ctypes.sizeof")
        return f"Definition eb_struct_size_method : Z := {int(v)}.\n"
    o.add("eb_struct_size_method", size_fn)

    def bits():
        names = [("no_data", "NO_DATA_BIT_MASK"), ("min", "MIN_BIT_MASK"), ("max", "MAX_BIT_MASK"),
                 ("scale", "SCALE_BIT_MASK"), ("offset", "OFFSET_BIT_MASK")]
        rows = []
        for lab, attr in names:
            v = getattr(S, attr)
            if not isinstance(v, int) or isinstance(v, bool):
                raise Untranslatable(f"{attr} is not an int")
            rows.append(f"({qs(lab)}, {v})")
        return "Definition eb_option_bits : list (string * Z) := [" + "; ".join(rows) + "].\n"
    o.add("eb_option_bits", bits)

    def vlr_id():
        uid = known.ExtraBytesVlr.official_user_id()
        rids = tuple(known.ExtraBytesVlr.official_record_ids())
        if len(rids) != 1:
            raise Untranslatable(f"ExtraBytesVlr.official_record_ids() = {rids!r}")
        return f"Definition eb_vlr_id : string * Z := ({qs(uid)}, {int(rids[0])}).\n"
    o.add("eb_vlr_id", vlr_id)

    def num_elements():
        # ExtraBytesStruct.num_elements() / dtype() of the running class for every data_type 1..30 (options = 0)
        rows = []
        for dt in range(1, 31):
            s = S(data_type=dt)
            d = s.dtype()
            n = int(s.num_elements())
            cnt = int(d.shape[0]) if d.ndim == 1 else 1
            if d.ndim > 1:
                raise Untranslatable(f"data_type {dt}: dtype {d!r}")
            rows.append(f"({dt}, {qs(d.base.kind)}, {int(d.base.itemsize)}, {cnt}, {n})")
        return "Definition eb_struct_types : list (Z * string * Z * Z * Z) := [" + "; ".join(rows) + "].\n"
    o.add("eb_struct_types", num_elements)
    return o


TARGETS = {"GenC02.v": gen}


# ---------------------------------------------------------------------------------------------------
# LasHeader.read_from: how the record layout is resolved from 'Point Data Record Length', the point format and the
# Extra Bytes VLR (which descriptors are used, how many undocumented bytes trail every record, or the error).
# The block between `point_format = PointFormat(point_format_id)` and `if read_evlrs:` is executed symbolically, path by
# path, over (point_size, std = PointFormat(id).size, described = bytes the VLR's descriptors describe, has_vlr):
#   Definition resolve_record (point_size std described : Z) (has_vlr : bool) : result (bool * Z)
# = Ok (descriptors used, trailing undocumented bytes) | Err ELaspy.   Anything outside the small statement language
# below is Untranslatable (fail closed).
# ---------------------------------------------------------------------------------------------------
import ast  # noqa: E402


class _St:
    def __init__(self):
        self.terms = ["std"]      # point_format.size as a sum
        self.used = False         # descriptors of the VLR added to the point format
        self.trail = None         # Gallina text: number of undocumented bytes appended as one dimension
        self.env = {}             # local int variables -> Gallina text
        self.hv = None            # has_vlr known on this path
        self.assigned = False     # header._point_format = point_format seen
        self.vlr_var = None

    def copy(self):
        c = _St()
        c.terms, c.used, c.trail, c.env, c.hv, c.assigned, c.vlr_var = list(self.terms), self.used, self.trail, dict(self.env), self.hv, self.assigned, self.vlr_var
        return c

    def size(self):
        return self.terms[0] if len(self.terms) == 1 else "(" + " + ".join(self.terms) + ")"


class _Resolve:
    CMP = {ast.Eq: "({a} =? {b})", ast.NotEq: "negb ({a} =? {b})", ast.Lt: "({a} <? {b})", ast.LtE: "({a} <=? {b})",
           ast.Gt: "({b} <? {a})", ast.GtE: "({b} <=? {a})"}

    def __init__(self):
        self.trailing_dims = set()

    def zexpr(self, e, st):
        if isinstance(e, ast.Constant) and isinstance(e.value, int) and not isinstance(e.value, bool):
            return py2v.z(e.value)
        if isinstance(e, ast.Name):
            if e.id == "point_size":
                return "point_size"
            if e.id in st.env:
                return st.env[e.id]
            raise Untranslatable(f"unknown integer variable {e.id}")
        if isinstance(e, ast.Attribute) and ast.unparse(e) == "point_format.size":
            return st.size()
        if isinstance(e, ast.BinOp) and isinstance(e.op, (ast.Add, ast.Sub, ast.Mult)):
            op = {ast.Add: "+", ast.Sub: "-", ast.Mult: "*"}[type(e.op)]
            return f"({self.zexpr(e.left, st)} {op} {self.zexpr(e.right, st)})"
        raise Untranslatable(f"integer expression {ast.unparse(e)[:60]}")

    def test(self, e, st):
        if isinstance(e, ast.Compare) and len(e.ops) == 1 and type(e.ops[0]) in self.CMP:
            return self.CMP[type(e.ops[0])].format(a=self.zexpr(e.left, st), b=self.zexpr(e.comparators[0], st))
        if isinstance(e, ast.BoolOp):
            parts = [self.test(v, st) for v in e.values]
            return "(" + (" && " if isinstance(e.op, ast.And) else " || ").join(parts) + ")"
        if isinstance(e, ast.UnaryOp) and isinstance(e.op, ast.Not):
            return f"negb {self.test(e.operand, st)}"
        raise Untranslatable(f"condition {ast.unparse(e)[:60]}")

    @staticmethod
    def strip_cast(v):
        if isinstance(v, ast.Call) and ast.unparse(v.func) in ("typing.cast", "cast") and len(v.args) == 2:
            return v.args[1]
        return v

    def trailing_dim(self, call, st):
        """dims.DimensionInfo(name=..., kind=UnsignedInteger, num_bits=8 * E, num_elements=E, is_standard=False) -> text of E"""
        if call.args:
            raise Untranslatable("DimensionInfo with positional arguments")
        kw = {k.arg: k.value for k in call.keywords}
        need = {"name", "kind", "num_bits", "num_elements", "is_standard"}
        if not need <= set(kw) or not set(kw) <= need | {"description"}:
            raise Untranslatable(f"DimensionInfo keywords {sorted(kw)}")
        if not (isinstance(kw["name"], ast.Constant) and isinstance(kw["name"].value, str)):
            raise Untranslatable("DimensionInfo name is not a literal")
        kinds = {"dims.DimensionKind.UnsignedInteger": "u", "DimensionKind.UnsignedInteger": "u"}
        kind = kinds.get(ast.unparse(kw["kind"]))
        if kind is None:
            raise Untranslatable(f"DimensionInfo kind {ast.unparse(kw['kind'])}")
        if not (isinstance(kw["is_standard"], ast.Constant) and kw["is_standard"].value is False):
            raise Untranslatable("undocumented bytes declared as a standard dimension")
        ne = kw["num_elements"]
        nb = kw["num_bits"]
        ok = (isinstance(nb, ast.BinOp) and isinstance(nb.op, ast.Mult)
              and ((isinstance(nb.left, ast.Constant) and isinstance(nb.left.value, int) and nb.left.value % 8 == 0 and ast.dump(nb.right) == ast.dump(ne))
                   or (isinstance(nb.right, ast.Constant) and isinstance(nb.right.value, int) and nb.right.value % 8 == 0 and ast.dump(nb.left) == ast.dump(ne))))
        if not ok:
            raise Untranslatable(f"num_bits {ast.unparse(nb)} is not <8k> * num_elements")
        k = nb.left.value if isinstance(nb.left, ast.Constant) else nb.right.value
        if k <= 0:
            raise Untranslatable("element width")
        self.trailing_dims.add((kw["name"].value, kind, k // 8))
        return self.zexpr(ne, st), k // 8

    def run(self, stmts, st):
        """Gallina text of executing stmts (a flat list: the rest of the block is appended to each branch)"""
        if not stmts:
            if not st.assigned:
                raise Untranslatable("header._point_format is not assigned on some path")
            return f"Ok ({'true' if st.used else 'false'}, {st.trail if st.trail is not None else '0'})"
        s, rest = stmts[0], stmts[1:]
        if isinstance(s, ast.Pass):
            return self.run(rest, st)
        if isinstance(s, ast.Raise):
            if s.exc is not None and isinstance(s.exc, ast.Call) and ast.unparse(s.exc.func) in ("LaspyException", "errors.LaspyException"):
                return "Err ELaspy"
            raise Untranslatable(f"raise {ast.unparse(s)[:60]}")
        if isinstance(s, ast.If):
            t = self.test(s.test, st)
            a = self.run(list(s.body) + rest, st.copy())
            b = self.run(list(s.orelse) + rest, st.copy())
            return f"(if {t}\n   then {a}\n   else {b})"
        if isinstance(s, ast.Try):
            if s.finalbody or len(s.handlers) != 1 or len(s.body) != 1:
                raise Untranslatable("try shape")
            h = s.handlers[0]
            if h.type is None or ast.unparse(h.type) != "IndexError" or h.name is not None:
                raise Untranslatable("except clause is not `except IndexError`")
            b = s.body[0]
            if not (isinstance(b, ast.Assign) and len(b.targets) == 1 and isinstance(b.targets[0], ast.Name)):
                raise Untranslatable("try body is not one assignment")
            v = self.strip_cast(b.value)
            if ast.unparse(v) not in ("header._vlrs.get('ExtraBytesVlr')[0]", "header.vlrs.get('ExtraBytesVlr')[0]"):
                raise Untranslatable(f"try body {ast.unparse(v)[:80]}")
            if st.hv is not None:
                raise Untranslatable("the Extra Bytes VLR is looked up twice")
            yes, no = st.copy(), st.copy()
            yes.hv, yes.vlr_var = True, b.targets[0].id
            no.hv = False
            a = self.run(list(s.orelse) + rest, yes)
            c = self.run(list(h.body) + rest, no)
            return f"(if has_vlr\n   then {a}\n   else {c})"
        if isinstance(s, ast.For):
            if not (st.hv is True and not st.used and st.trail is None and not s.orelse and isinstance(s.target, ast.Name) and len(s.body) == 1
                    and ast.unparse(s.iter) == f"{st.vlr_var}.type_of_extra_dims()"
                    and ast.unparse(s.body[0]) == f"point_format.add_extra_dimension({s.target.id})"):
                raise Untranslatable(f"for loop {ast.unparse(s)[:80]}")
            st = st.copy()
            st.used = True
            st.terms.append("described")
            return self.run(rest, st)
        if isinstance(s, ast.Assign) and len(s.targets) == 1:
            tgt = ast.unparse(s.targets[0])
            if tgt == "header._point_format" and ast.unparse(s.value) == "point_format":
                st = st.copy()
                st.assigned = True
                return self.run(rest, st)
            if isinstance(s.targets[0], ast.Name) and tgt not in ("point_format", "point_size", "header"):
                st = st.copy()
                st.env[tgt] = self.zexpr(s.value, st)
                return self.run(rest, st)
            raise Untranslatable(f"assignment {ast.unparse(s)[:80]}")
        if isinstance(s, ast.Expr) and isinstance(s.value, ast.Call):
            f = ast.unparse(s.value.func)
            if f.startswith("logger."):
                return self.run(rest, st)
            if f in ("header._vlrs.extract", "header.vlrs.extract") and st.hv is True and not st.used \
                    and len(s.value.args) == 1 and isinstance(s.value.args[0], ast.Constant) and s.value.args[0].value == "ExtraBytesVlr":
                return self.run(rest, st)     # the ignored VLR is dropped from the list (VLR identity is C08's)
            if f == "point_format.dimensions.append" and len(s.value.args) == 1 and isinstance(s.value.args[0], ast.Call) \
                    and ast.unparse(s.value.args[0].func) in ("dims.DimensionInfo", "DimensionInfo"):
                if st.trail is not None:
                    raise Untranslatable("two dimensions of undocumented bytes on one path")
                st = st.copy()
                e, w = self.trailing_dim(s.value.args[0], st)
                st.trail = e
                st.terms.append(e if w == 1 else f"({w} * {e})")
                return self.run(rest, st)
        if isinstance(s, ast.Expr) and isinstance(s.value, ast.Constant) and isinstance(s.value.value, str):
            return self.run(rest, st)
        raise Untranslatable(f"statement {ast.unparse(s)[:80]}")


def _hoisted_and_inlined(repo, rel, cls_name, fn_name):
    """a second normal form of a method, for helper calls the shared normal form leaves alone because an ARGUMENT is itself a call
    (`cls._helper(header, f(x), n)`): at statement level every argument of such a call that is not a name or a constant is bound to a
    fresh local first, left to right (names and constants cannot be changed by evaluating the others, so the order of evaluation is
    kept), then the helpers that did not exist when this reader was written are inlined (py2v.inlined_new_helpers)."""
    import copy
    with open(os.path.join(repo, rel)) as f:
        mod = ast.parse(f.read())
    cls = py2v.find_class(mod, cls_name)
    fn = copy.deepcopy(py2v.find_func(cls, fn_name))
    used = {n.id for n in ast.walk(fn) if isinstance(n, ast.Name)} | {a.arg for a in fn.args.args}
    count = [0]

    def block(stmts):
        out = []
        for s in stmts:
            for fld in ("body", "orelse", "finalbody"):
                if isinstance(getattr(s, fld, None), list) and not isinstance(s, (ast.FunctionDef, ast.ClassDef)):
                    setattr(s, fld, block(getattr(s, fld)))
            call = s.value if isinstance(s, (ast.Expr, ast.Assign, ast.Return)) and isinstance(getattr(s, "value", None), ast.Call) else None
            if call is not None and isinstance(call.func, ast.Attribute) and isinstance(call.func.value, ast.Name) \
                    and call.func.value.id in ("cls", "self", cls_name) and not call.keywords \
                    and not any(isinstance(a, ast.Starred) for a in call.args):
                for i, a in enumerate(call.args):
                    if not isinstance(a, (ast.Name, ast.Constant)):
                        count[0] += 1
                        nm = f"hoisted_arg_{count[0]}"
                        while nm in used:
                            nm += "_"
                        used.add(nm)
                        out.append(ast.Assign(targets=[ast.Name(id=nm, ctx=ast.Store())], value=a))
                        call.args[i] = ast.Name(id=nm, ctx=ast.Load())
            out.append(s)
        return out
    fn.body = block(list(fn.body))
    ast.fix_missing_locations(fn)
    if not count[0]:
        raise Untranslatable("no helper call with a computed argument to normalise")
    return py2v.inlined_new_helpers(repo, rel, mod, cls, fn)


def gen_resolve(o, repo):
    def thunk():
        mod = py2v.parse(repo, "laspy/header.py")
        fn = py2v.find_func(py2v.find_class(mod, "LasHeader"), "read_from")
        try:
            return read(fn)
        except Untranslatable as first:
            # the block may have moved into a helper that is called with a computed argument
            try:
                fn2 = _hoisted_and_inlined(repo, "laspy/header.py", "LasHeader", "read_from")
            except Exception:
                raise first
            try:
                return read(fn2)
            except Untranslatable:
                raise first

    def read(fn):
        body = list(fn.body)
        start = [i for i, s in enumerate(body) if isinstance(s, ast.Assign) and ast.unparse(s.targets[0]) == "point_format"]
        end = [i for i, s in enumerate(body) if isinstance(s, ast.If) and ast.unparse(s.test) == "read_evlrs"]
        if len(start) != 1 or len(end) != 1 or not start[0] < end[0]:
            raise Untranslatable("read_from: cannot delimit the block that builds the point format")
        built = body[start[0]].value
        ok = ast.unparse(built) == "PointFormat(point_format_id)"
        if not ok and isinstance(built, ast.Call) and ast.unparse(built.func) == "PointFormat" and len(built.args) == 1 and not built.keywords \
                and isinstance(built.args[0], ast.Name):
            # PointFormat(v), v bound exactly once, to the uncompressed id of the file's point format id
            v = built.args[0].id
            binds = [n for n in ast.walk(fn) if isinstance(n, ast.Name) and n.id == v and isinstance(n.ctx, ast.Store)]
            defs = [s for s in body[:start[0]] if isinstance(s, ast.Assign) and len(s.targets) == 1 and ast.unparse(s.targets[0]) == v]
            ok = len(binds) == 1 and len(defs) == 1 and ast.unparse(defs[0].value) == "compressed_id_to_uncompressed(point_format_id)"
        if not ok:
            raise Untranslatable(f"point_format = {ast.unparse(body[start[0]].value)[:60]}")
        ps = [n for n in ast.walk(fn) if isinstance(n, ast.Assign) and any(ast.unparse(t) == "point_size" for t in n.targets)]
        if len(ps) != 1 or "stream.read" not in ast.unparse(ps[0].value):
            raise Untranslatable("point_size is not read exactly once from the stream")
        for s in body[:start[0]] + body[end[0]:]:
            for n in ast.walk(s):
                if isinstance(n, ast.Name) and n.id == "point_format":
                    raise Untranslatable("point_format is used outside the translated block")
        for s in body[end[0]:]:
            if "_point_format" in ast.unparse(s):
                raise Untranslatable("header._point_format is touched after the translated block")
        r = _Resolve()
        text = r.run(body[start[0] + 1:end[0]], _St())
        if len(r.trailing_dims) > 1:
            raise Untranslatable(f"several shapes of the undocumented-bytes dimension: {sorted(r.trailing_dims)}")
        name, kind, w = sorted(r.trailing_dims)[0] if r.trailing_dims else ("ExtraBytes", "u", 1)
        return ("(* laspy/header.py LasHeader.read_from, the block that builds the point format of the file *)\n"
                "Definition resolve_record (point_size std described : Z) (has_vlr : bool) : result (bool * Z) :=\n  " + text + ".\n\n"
                f"Definition trailing_dim : string * string * Z := ({qs(name)}, {qs(kind)}, {int(w)}).\n")
    o.add("resolve_record", thunk)


# ---------------------------------------------------------------------------------------------------
# LasAppender.__init__: where the first appended point record goes (uncompressed files). The branch
# `if not header.are_points_compressed:` is executed symbolically over the header fields and the file length:
#   Definition append_start (offset_to_point_data point_count point_size file_len minor number_of_evlrs start_of_first_evlr : Z) : Z
# = the position of self.dest when __init__ returns. Every other seek of __init__ after that branch must sit in a block that saves the
# position (pos = self.dest.tell()) first and ends with self.dest.seek(pos, io.SEEK_SET); append_points must hand the points to the
# points appender exactly once without moving the stream, and UncompressedPointAppender.append_points must be one
# self.dest.write(points.memoryview()). Anything else is Untranslatable.
# ---------------------------------------------------------------------------------------------------
class _Append:
    NAMES = {"point_count": "point_count", "point_format.size": "point_size", "offset_to_point_data": "offset_to_point_data",
             "version.minor": "minor", "number_of_evlrs": "number_of_evlrs", "start_of_first_evlr": "start_of_first_evlr"}
    CMP = _Resolve.CMP

    def zexpr(self, e):
        if isinstance(e, ast.Constant) and isinstance(e.value, int) and not isinstance(e.value, bool):
            return py2v.z(e.value)
        if isinstance(e, ast.Attribute):
            t = ast.unparse(e)
            for pre in ("self.header.", "header."):
                if t.startswith(pre) and t[len(pre):] in self.NAMES:
                    return self.NAMES[t[len(pre):]]
            raise Untranslatable(f"attribute {t[:60]}")
        if isinstance(e, ast.BinOp) and isinstance(e.op, (ast.Add, ast.Sub, ast.Mult)):
            op = {ast.Add: "+", ast.Sub: "-", ast.Mult: "*"}[type(e.op)]
            return f"({self.zexpr(e.left)} {op} {self.zexpr(e.right)})"
        raise Untranslatable(f"integer expression {ast.unparse(e)[:60]}")

    def test(self, e):
        if isinstance(e, ast.Compare) and len(e.ops) == 1 and type(e.ops[0]) in self.CMP:
            return self.CMP[type(e.ops[0])].format(a=self.zexpr(e.left), b=self.zexpr(e.comparators[0]))
        if isinstance(e, ast.BoolOp):
            return "(" + (" && " if isinstance(e.op, ast.And) else " || ").join(self.test(v) for v in e.values) + ")"
        if isinstance(e, ast.UnaryOp) and isinstance(e.op, ast.Not):
            return f"negb {self.test(e.operand)}"
        raise Untranslatable(f"condition {ast.unparse(e)[:60]}")

    @staticmethod
    def is_seek(s):
        return (isinstance(s, ast.Expr) and isinstance(s.value, ast.Call)
                and ast.unparse(s.value.func) in ("self.dest.seek", "dest.seek"))

    def seek_pos(self, call):
        if call.keywords or not 1 <= len(call.args) <= 2:
            raise Untranslatable(f"seek call {ast.unparse(call)[:60]}")
        whence = ast.unparse(call.args[1]) if len(call.args) == 2 else "io.SEEK_SET"
        if whence in ("io.SEEK_SET", "os.SEEK_SET", "0"):
            return self.zexpr(call.args[0])
        if whence in ("io.SEEK_END", "os.SEEK_END", "2"):
            return f"(file_len + {self.zexpr(call.args[0])})"
        raise Untranslatable(f"seek whence {whence}")

    def run(self, stmts, pos):
        """position of the stream after stmts (Gallina text); pos = position before (None: not set by this branch yet)"""
        if not stmts:
            if pos is None:
                raise Untranslatable("a path of the uncompressed branch does not position the stream")
            return pos
        s, rest = stmts[0], stmts[1:]
        if isinstance(s, ast.Pass) or (isinstance(s, ast.Expr) and isinstance(s.value, ast.Constant)):
            return self.run(rest, pos)
        if isinstance(s, ast.Assign) and len(s.targets) == 1 and ast.unparse(s.targets[0]) == "self.points_appender":
            if ast.unparse(s.value) not in ("UncompressedPointAppender(self.dest)", "UncompressedPointAppender(dest)"):
                raise Untranslatable(f"points appender {ast.unparse(s.value)[:60]}")
            return self.run(rest, pos)
        if self.is_seek(s):
            return self.run(rest, self.seek_pos(s.value))
        if isinstance(s, ast.If):
            t = self.test(s.test)
            return f"(if {t} then {self.run(list(s.body) + rest, pos)} else {self.run(list(s.orelse) + rest, pos)})"
        raise Untranslatable(f"statement {ast.unparse(s)[:80]}")

    def check_restores(self, stmts):
        """after the branch: a block that moves the stream saves the position first and restores it last"""
        def on_scratch(x):
            """a statement whose only stream is a fresh io.BytesIO() (a trial serialisation) does not use the destination"""
            t = ast.unparse(x)
            return "io.BytesIO()" in t and "dest" not in t

        for s in stmts:
            if isinstance(s, ast.If) and all(on_scratch(x) for x in list(s.body) + list(s.orelse)):
                continue
            if on_scratch(s):
                continue
            text = ast.unparse(s)
            if ".seek(" not in text and ".read(" not in text and "read_from" not in text and ".write" not in text and ".truncate" not in text:
                continue
            if not isinstance(s, ast.If):
                raise Untranslatable(f"the stream is used after it was positioned: {text[:80]}")
            for blk in ([x for x in s.body if not on_scratch(x)], [x for x in s.orelse if not on_scratch(x)]):
                btext = "\n".join(ast.unparse(x) for x in blk)
                if not any(k in btext for k in (".seek(", ".read(", "read_from", ".write", ".truncate")):
                    continue
                saves = [i for i, x in enumerate(blk) if isinstance(x, ast.Assign) and len(x.targets) == 1 and isinstance(x.targets[0], ast.Name)
                         and ast.unparse(x.value) in ("self.dest.tell()", "dest.tell()")]
                if len(saves) != 1:
                    raise Untranslatable("a block that moves the stream does not save the position exactly once")
                var = blk[saves[0]].targets[0].id
                for x in blk[:saves[0]]:
                    xt = ast.unparse(x)
                    if any(k in xt for k in (".seek(", ".read(", "read_from", ".write", ".truncate")):
                        raise Untranslatable("the stream is moved before its position is saved")
                for x in blk[saves[0] + 1:]:
                    if any(isinstance(n, ast.Name) and n.id == var and isinstance(n.ctx, ast.Store) for n in ast.walk(x)):
                        raise Untranslatable("the saved position is re-assigned")
                if ast.unparse(blk[-1]) not in (f"self.dest.seek({var}, io.SEEK_SET)", f"dest.seek({var}, io.SEEK_SET)", f"self.dest.seek({var})", f"dest.seek({var})"):
                    raise Untranslatable(f"the block does not end by restoring the saved position: {ast.unparse(blk[-1])[:60]}")


def gen_append(o, repo):
    def thunk():
        mod = py2v.parse(repo, "laspy/lasappender.py")
        cls = py2v.find_class(mod, "LasAppender")
        init = py2v.find_func(cls, "__init__")
        body = list(init.body)
        br = [i for i, s in enumerate(body) if isinstance(s, ast.If) and ast.unparse(s.test) in ("not header.are_points_compressed", "not self.header.are_points_compressed")]
        if len(br) != 1:
            raise Untranslatable("LasAppender.__init__: no single `if not header.are_points_compressed` branch")
        hdr = [s for s in body[:br[0]] if isinstance(s, ast.Assign) and ast.unparse(s.targets[0]) == "header"]
        if len(hdr) != 1 or ast.unparse(hdr[0].value) != "LasHeader.read_from(dest)":
            raise Untranslatable("header is not LasHeader.read_from(dest)")
        a = _Append()
        text = a.run(list(body[br[0]].body), None)
        a.check_restores(body[br[0] + 1:])
        # append_points: the points go to the points appender once, the stream is not moved
        ap = py2v.find_func(cls, "append_points")
        calls = [n for n in ast.walk(ap) if isinstance(n, ast.Call) and ast.unparse(n.func) == "self.points_appender.append_points"]
        if len(calls) != 1 or ast.unparse(calls[0]) != "self.points_appender.append_points(points)":
            raise Untranslatable("append_points does not hand `points` to the points appender exactly once")
        for n in ast.walk(ap):
            if isinstance(n, ast.Attribute) and n.attr in ("seek", "truncate", "write") and "dest" in ast.unparse(n.value):
                raise Untranslatable("append_points touches the stream itself")
            if isinstance(n, (ast.For, ast.While)):
                raise Untranslatable("append_points loops")
        up = py2v.find_func(py2v.find_class(mod, "UncompressedPointAppender"), "append_points")
        stm = [s for s in up.body if not (isinstance(s, ast.Expr) and isinstance(s.value, ast.Constant))]
        if len(stm) != 1 or ast.unparse(stm[0]) != "self.dest.write(points.memoryview())":
            raise Untranslatable("UncompressedPointAppender.append_points is not one self.dest.write(points.memoryview())")
        return ("(* laspy/lasappender.py LasAppender.__init__, uncompressed files: position of the stream when the appender is ready;\n"
                "   append_points / UncompressedPointAppender.append_points write each chunk's records at the stream's position *)\n"
                "Definition append_start (offset_to_point_data point_count point_size file_len minor number_of_evlrs start_of_first_evlr : Z) : Z :=\n  "
                + text + ".\n")
    o.add("append_start", thunk)


# ---------------------------------------------------------------------------------------------------
# The hand-over of a record to a header that was not made from it: LasWriter.write_points, LasAppender.append_points,
# LasData.__init__ and the LasData.points setter compare the two point formats (PointFormat.__eq__, which compares the extra
# dimensions with DimensionInfo.__eq__) and refuse the record when they differ; what passes is stored as the record's own bytes.
#   Definition dim_info : Type            the fields of the NamedTuple DimensionInfo, in its order
#   Definition dim_info_eq (a b : dim_info) : bool                                  DimensionInfo.__eq__
#   Definition point_format_eq (self_id other_id : Z) (self_extra other_extra : list dim_info) : bool      PointFormat.__eq__
#   Definition handover_guards : list string                                        the entry points found guarded by it
# Fail closed: any other shape of these functions is Untranslatable.
# ---------------------------------------------------------------------------------------------------
_FIELD_TYPES = {"str": ("string", "String.eqb {a} {b}"), "int": ("Z", "({a} =? {b})"), "bool": ("bool", "Bool.eqb {a} {b}"),
                "DimensionKind": ("Z", "({a} =? {b})"), "Optional[np.ndarray]": ("option (list Z)", None)}

_PF_PRELUDE = """(* numpy: np.all(a == b) for two Optional arrays of binary64 numbers (bit patterns): None == None is True; None against an
   array compares elementwise to False (np.all of nothing is True); two arrays of one length compare as numbers: NaN differs
   from everything, -0.0 equals 0.0 *)
Definition f64_is_nan (x : Z) : bool := 9218868437227405312 <? x mod 9223372036854775808.
Definition f64_num_eq (a b : Z) : bool :=
  negb (f64_is_nan a) && negb (f64_is_nan b) && ((a =? b) || ((a mod 9223372036854775808 =? 0) && (b mod 9223372036854775808 =? 0))).
Fixpoint f64_list_eq (a b : list Z) : bool :=
  match a, b with
  | [], [] => true
  | x :: a', y :: b' => f64_num_eq x y && f64_list_eq a' b'
  | _, _ => false
  end.
Definition np_all_eq (a b : option (list Z)) : bool :=
  match a, b with
  | None, None => true
  | Some x, Some y => f64_list_eq x y
  | None, Some y | Some y, None => match y with [] => true | _ => false end
  end.
"""


def gen_handover(o, repo):
    fields = []

    def dim_info_eq():
        mod = py2v.parse(repo, "laspy/point/dims.py")
        cls = py2v.find_class(mod, "DimensionInfo")
        if [ast.unparse(b) for b in cls.bases] != ["NamedTuple"]:
            raise Untranslatable("DimensionInfo is not a NamedTuple")
        for n in cls.body:
            if isinstance(n, ast.AnnAssign) and isinstance(n.target, ast.Name):
                t = ast.unparse(n.annotation)
                if t not in _FIELD_TYPES:
                    raise Untranslatable(f"DimensionInfo.{n.target.id}: type {t}")
                fields.append((n.target.id, t))
            elif isinstance(n, ast.Assign):
                raise Untranslatable("DimensionInfo has a class attribute that is not a field")
        if not fields:
            raise Untranslatable("DimensionInfo has no fields")
        eq = py2v.find_func(cls, "__eq__")
        if [a.arg for a in eq.args.args] != ["self", "other"]:
            raise Untranslatable("DimensionInfo.__eq__ signature")
        body = [s for s in eq.body if not (isinstance(s, ast.Expr) and isinstance(s.value, ast.Constant))]
        if len(body) != 1 or not isinstance(body[0], ast.Return) or body[0].value is None:
            raise Untranslatable("DimensionInfo.__eq__ is not one return statement")
        e = body[0].value
        conj = e.values if isinstance(e, ast.BoolOp) and isinstance(e.op, ast.And) else [e]
        names = dict(fields)
        parts = []
        for cj in conj:
            wrapped = False
            if isinstance(cj, ast.Call) and ast.unparse(cj.func) in ("np.all", "numpy.all") and len(cj.args) == 1 and not cj.keywords:
                cj, wrapped = cj.args[0], True
            if not (isinstance(cj, ast.Compare) and len(cj.ops) == 1 and isinstance(cj.ops[0], ast.Eq)):
                raise Untranslatable(f"DimensionInfo.__eq__: conjunct {ast.unparse(cj)[:60]}")
            l, r = cj.left, cj.comparators[0]
            ok = (isinstance(l, ast.Attribute) and isinstance(r, ast.Attribute) and l.attr == r.attr and l.attr in names
                  and {ast.unparse(l.value), ast.unparse(r.value)} == {"self", "other"})
            if not ok:
                raise Untranslatable(f"DimensionInfo.__eq__: conjunct {ast.unparse(cj)[:60]}")
            ty, cmp = _FIELD_TYPES[names[l.attr]]
            if (cmp is None) != wrapped:
                raise Untranslatable(f"DimensionInfo.__eq__: {l.attr} compared {'through np.all' if wrapped else 'without np.all'}")
            a, b = f"a_{l.attr}", f"b_{l.attr}"
            parts.append(f"np_all_eq {a} {b}" if wrapped else cmp.format(a=a, b=b))
        for n in cls.body:
            if isinstance(n, ast.FunctionDef) and n.name == "__ne__":
                nb = [s for s in n.body if not (isinstance(s, ast.Expr) and isinstance(s.value, ast.Constant))]
                if len(nb) != 1 or ast.unparse(nb[0]) != "return not self == other":
                    raise Untranslatable("DimensionInfo.__ne__ is not `not self == other`")
        ty = " * ".join(_FIELD_TYPES[t][0] for _, t in fields)
        pat = lambda p: "(" + ", ".join(f"{p}_{n}" for n, _ in fields) + ")"
        return (_PF_PRELUDE + "\n(* laspy/point/dims.py DimensionInfo: " + ", ".join(n for n, _ in fields) + " (kind: the value of the enum DimensionKind; offsets, scales: binary64 patterns) *)\n"
                f"Definition dim_info : Type := ({ty})%type.\n"
                "Definition dim_info_eq (a b : dim_info) : bool :=\n"
                f"  let '{pat('a')} := a in\n  let '{pat('b')} := b in\n  " + " && ".join(parts) + ".\n")
    o.add("dim_info_eq", dim_info_eq)

    def kinds():
        import importlib
        dims = importlib.import_module("laspy.point.dims")
        if not os.path.realpath(dims.__file__).startswith(os.path.realpath(repo)):
            raise Untranslatable(f"laspy imported from {dims.__file__}, not from {repo}")
        rows = []
        for k in dims.DimensionKind:
            if not isinstance(k.value, int) or isinstance(k.value, bool):
                raise Untranslatable(f"DimensionKind.{k.name} = {k.value!r}")
            if k.letter() is not None:
                rows.append(f"({int(k.value)}, {qs(k.letter())})")
        return "Definition dimension_kind_letters : list (Z * string) := [" + "; ".join(rows) + "].\n"
    o.add("dimension_kind_letters", kinds)

    def pf_eq():
        if not fields:
            raise Untranslatable("DimensionInfo could not be read")
        mod = py2v.parse(repo, "laspy/point/format.py")
        cls = py2v.find_class(mod, "PointFormat")
        ed = py2v.find_func(cls, "extra_dimensions", decorator="property")
        eb = [s for s in ed.body if not (isinstance(s, ast.Expr) and isinstance(s.value, ast.Constant))]
        if len(eb) != 1 or ast.unparse(eb[0]) not in ("return (dim for dim in self.dimensions if dim.is_standard is False)",
                                                     "return [dim for dim in self.dimensions if dim.is_standard is False]",
                                                     "return (dim for dim in self.dimensions if not dim.is_standard)"):
            raise Untranslatable("PointFormat.extra_dimensions is not the non-standard dimensions in their order")
        eq = py2v.find_func(cls, "__eq__")
        if [a.arg for a in eq.args.args] != ["self", "other"]:
            raise Untranslatable("PointFormat.__eq__ signature")
        if any(isinstance(n, ast.FunctionDef) and n.name == "__ne__" for n in cls.body):
            raise Untranslatable("PointFormat defines __ne__")
        body = [s for s in eq.body if not (isinstance(s, ast.Expr) and isinstance(s.value, ast.Constant))]
        if len(body) != 3:
            raise Untranslatable("PointFormat.__eq__: not `if ids differ / for over the extra dimensions / return True`")
        first, loop, last = body
        if not (isinstance(first, ast.If) and not first.orelse and ast.unparse(first.test) in ("self.id != other.id", "other.id != self.id")
                and len(first.body) == 1 and ast.unparse(first.body[0]) == "return False"):
            raise Untranslatable(f"PointFormat.__eq__: {ast.unparse(first)[:60]}")
        if ast.unparse(last) != "return True":
            raise Untranslatable(f"PointFormat.__eq__ ends with {ast.unparse(last)[:40]}")
        if not (isinstance(loop, ast.For) and not loop.orelse and isinstance(loop.target, ast.Tuple) and len(loop.target.elts) == 2
                and all(isinstance(x, ast.Name) for x in loop.target.elts)
                and ast.unparse(loop.iter) in ("zip_longest(self.extra_dimensions, other.extra_dimensions)",
                                               "itertools.zip_longest(self.extra_dimensions, other.extra_dimensions)")):
            raise Untranslatable(f"PointFormat.__eq__: loop {ast.unparse(loop)[:80]}")
        x, y = (e.id for e in loop.target.elts)
        none_checked, compared = False, False
        for s in loop.body:
            if not (isinstance(s, ast.If) and not s.orelse and len(s.body) == 1 and ast.unparse(s.body[0]) == "return False"):
                raise Untranslatable(f"PointFormat.__eq__: loop body {ast.unparse(s)[:60]}")
            t = ast.unparse(s.test)
            if t in (f"{x} is None or {y} is None", f"{y} is None or {x} is None"):
                if compared:
                    raise Untranslatable("PointFormat.__eq__: the padding of zip_longest is tested after the comparison")
                none_checked = True
            elif t in (f"{x} != {y}", f"{y} != {x}", f"not {x} == {y}", f"not {y} == {x}"):
                if not none_checked:
                    raise Untranslatable("PointFormat.__eq__: dimensions compared before the padding of zip_longest is excluded")
                compared = True
            else:
                raise Untranslatable(f"PointFormat.__eq__: condition {t[:60]}")
        if not (none_checked and compared):
            raise Untranslatable("PointFormat.__eq__: the loop does not compare the dimensions pairwise")
        return ("(* laspy/point/format.py PointFormat.__eq__: same id, and the extra dimensions pairwise equal, position by position\n"
                "   (zip_longest pads the shorter list with None: lists of different lengths are different) *)\n"
                "Fixpoint extra_dimensions_eq (mine others : list dim_info) : bool :=\n"
                "  match mine, others with\n  | [], [] => true\n"
                f"  | {x} :: mine', {y} :: others' => if negb (dim_info_eq {x} {y}) then false else extra_dimensions_eq mine' others'\n"
                "  | _, _ => false\n  end.\n"
                "Definition point_format_eq (self_id other_id : Z) (self_extra other_extra : list dim_info) : bool :=\n"
                "  if negb (self_id =? other_id) then false else extra_dimensions_eq self_extra other_extra.\n")
    o.add("point_format_eq", pf_eq)

    def guards():
        sites = [("laspy/laswriter.py", "LasWriter", "write_points", None, ("points.point_format != self.header.point_format",),
                  "self.point_writer.write_points("),
                 ("laspy/lasappender.py", "LasAppender", "append_points", None, ("points.point_format != self.header.point_format",),
                  "self.points_appender.append_points("),
                 ("laspy/lasdata.py", "LasData", "__init__", None, ("points.point_format != header.point_format",), "_points"),
                 ("laspy/lasdata.py", "LasData", "points", "points.setter", ("new_points.point_format != self.point_format",
                                                                             "new_points.point_format != self.header.point_format"), "self._points =")]
        def flat(cls, fn, depth=2):
            """the statements of fn in order, those of the helper methods of the same class it calls spliced in before the call"""
            methods = {n.name: n for n in cls.body if isinstance(n, ast.FunctionDef)}
            out = []
            for s in fn.body:
                if depth:
                    for n in ast.walk(s):
                        if isinstance(n, ast.Call) and isinstance(n.func, ast.Attribute) and isinstance(n.func.value, ast.Name) \
                                and n.func.value.id in ("self", cls.name) and methods.get(n.func.attr) not in (None, fn):
                            out += flat(cls, methods[n.func.attr], depth - 1)
                out.append(s)
            return out
        found = []
        for rel, cname, fname, dec, tests, use in sites:
            cls = py2v.find_class(py2v.parse(repo, rel), cname)
            fn = py2v.find_func(cls, fname, decorator=dec)
            guard_at = use_at = None
            for i, s in enumerate(flat(cls, fn)):
                # the refusal condition is the format test itself, or a disjunction that contains it (refusing MORE, e.g. also a
                # record whose item size is not the format's, keeps "refused unless PointFormat.__eq__ holds")
                disj = [ast.unparse(v) for v in s.test.values] if isinstance(s, ast.If) and isinstance(s.test, ast.BoolOp) \
                    and isinstance(s.test.op, ast.Or) else ([ast.unparse(s.test)] if isinstance(s, ast.If) else [])
                if guard_at is None and isinstance(s, ast.If) and any(d in tests for d in disj) and not s.orelse \
                        and len(s.body) == 1 and isinstance(s.body[0], ast.Raise):
                    guard_at = i
                if use_at is None and use in ast.unparse(s) and not (isinstance(s, ast.Expr) and isinstance(s.value, ast.Constant)):
                    use_at = i
            if guard_at is None or use_at is None or not guard_at < use_at:
                raise Untranslatable(f"{cname}.{fname}: the record is not refused on differing point formats before it is taken")
            found.append(f"{cname}.{fname}")
        return ("(* the entry points that pair a record with a header refuse it unless PointFormat.__eq__ holds, before anything is stored *)\n"
                "Definition handover_guards : list string := [" + "; ".join(qs(f) for f in found) + "].\n")
    o.add("handover_guards", guards)


# ---------------------------------------------------------------------------------------------------
# The payloads of the other records the specification lays out and laspy has a class for (laspy/vlrs/known.py): the ctypes
# structures behind WaveformPacketVlr and GeoKeyDirectoryVlr and the struct format of a ClassificationLookupVlr record, dumped from
# the running module.
#   Definition known_structs : list (string * list (string * Z * Z * string * Z * Z) * Z)     (class, fields as in eb_struct_fields, sizeof)
#   Definition lookup_struct_format : string      Definition lookup_struct_size : Z
#   Definition lookup_parse_format : string       the format literal parse_record_data unpacks with
# Fail closed: a structure that is not a packed little-endian one of scalar fields is Untranslatable.
# ---------------------------------------------------------------------------------------------------
def gen_known(o, repo):
    def module():
        known = sys.modules.get("laspy.vlrs.known") or importlib.import_module("laspy.vlrs.known")
        if not os.path.realpath(known.__file__).startswith(os.path.realpath(repo)):
            raise Untranslatable(f"laspy imported from {known.__file__}, not from {repo}")
        return known

    def structs():
        known = module()
        out = []
        for cname in ("WaveformPacketStruct", "GeoKeysHeaderStructs", "GeoKeyEntryStruct"):
            S = getattr(known, cname, None)
            if S is None or not isinstance(S, type) or not issubclass(S, ctypes.LittleEndianStructure):
                raise Untranslatable(f"{cname} is not a LittleEndianStructure of laspy.vlrs.known")
            rows = []
            for name, ct in S._fields_:
                d = getattr(S, name)
                code = getattr(ct, "_type_", None)
                if hasattr(ct, "_length_") or not isinstance(code, str) or len(code) != 1:
                    raise Untranslatable(f"{cname}.{name}: {ct!r} is not a simple ctypes scalar")
                if ctypes.sizeof(ct) != d.size:
                    raise Untranslatable(f"{cname}.{name}: size {d.size}")
                rows.append(f"({qs(name)}, {int(d.offset)}, {int(d.size)}, {qs(code)}, {int(ctypes.sizeof(ct))}, 1)")
            out.append(f"({qs(cname)},\n   [" + ";\n    ".join(rows) + f"],\n   {int(ctypes.sizeof(S))})")
        return "Definition known_structs : list (string * list (string * Z * Z * string * Z * Z) * Z) := [\n  " + ";\n  ".join(out) + "].\n"
    o.add("known_structs", structs)

    def lookup_format():
        import struct as _struct
        known = module()
        st = getattr(known.ClassificationLookupVlr, "_lookup_struct", None)
        if not isinstance(st, _struct.Struct):
            raise Untranslatable("ClassificationLookupVlr._lookup_struct is not a struct.Struct")
        fmt = st.format if isinstance(st.format, str) else st.format.decode()
        return f"Definition lookup_struct_format : string := {qs(fmt)}.\nDefinition lookup_struct_size : Z := {int(st.size)}.\n"
    o.add("lookup_struct_format", lookup_format)

    def lookup_parse():
        # ClassificationLookupVlr.parse_record_data: every record of the payload, unpacked with ONE struct format, enters the table
        # under its class number with the description cut at the first NUL -- nothing is skipped, nothing else is stored
        mod = py2v.parse(repo, "laspy/vlrs/known.py")
        fn = py2v.find_func(py2v.find_class(mod, "ClassificationLookupVlr"), "parse_record_data")
        body = [s for s in fn.body if not (isinstance(s, ast.Expr) and isinstance(s.value, ast.Constant))]
        if len(body) != 1 or not isinstance(body[0], ast.For) or body[0].orelse:
            raise Untranslatable("parse_record_data is not one for loop")
        loop = body[0]
        it = loop.iter
        if not (isinstance(it, ast.Call) and ast.unparse(it.func) in ("struct.iter_unpack", "self._lookup_struct.iter_unpack", "cls._lookup_struct.iter_unpack",
                                                                      "ClassificationLookupVlr._lookup_struct.iter_unpack")):
            raise Untranslatable(f"parse_record_data iterates over {ast.unparse(it)}")
        if ast.unparse(it.func) == "struct.iter_unpack":
            if len(it.args) != 2 or not isinstance(it.args[0], ast.Constant) or not isinstance(it.args[0].value, str) or ast.unparse(it.args[1]) != "record_data":
                raise Untranslatable(f"parse_record_data iterates over {ast.unparse(it)}")
            fmt = it.args[0].value
        else:
            if len(it.args) != 1 or ast.unparse(it.args[0]) != "record_data":
                raise Untranslatable(f"parse_record_data iterates over {ast.unparse(it)}")
            # the class's own struct.Struct: its format is the one of the running class
            st = getattr(module().ClassificationLookupVlr, "_lookup_struct", None)
            if st is None or not hasattr(st, "format"):
                raise Untranslatable("ClassificationLookupVlr._lookup_struct is not a struct.Struct")
            fmt = st.format if isinstance(st.format, str) else st.format.decode()
        if ast.unparse(loop.target) != "(class_id, desc)":
            raise Untranslatable(f"loop target {ast.unparse(loop.target)}")
        stm = [ast.unparse(s) for s in loop.body]
        shapes = (["description = desc.split(b'\\x00')[0].decode()", "self.lookups[class_id] = description"],
                  ["self.lookups[class_id] = desc.split(b'\\x00')[0].decode()"])
        if stm not in shapes:
            raise Untranslatable(f"loop body of parse_record_data: {stm}")
        return ("(* laspy/vlrs/known.py ClassificationLookupVlr.parse_record_data: for every record unpacked with this format,\n"
                "   lookups[class number] = description up to its first NUL *)\n"
                f"Definition lookup_parse_format : string := {qs(fmt)}.\n"
                "Definition lookup_parse_keeps_every_record : bool := true.\n")
    o.add("lookup_parse_format", lookup_parse)


# ---------------------------------------------------------------------------------------------------
# The header's own bookkeeping between two files: what a header that was read from one file (or built for another point format)
# still carries when it is handed to a writer.
#   Definition partial_reset_evlrs (start_of_first_evlr number_of_evlrs : Z) : Z * Z        LasHeader.partial_reset on the two EVLR fields
#   Definition writer_init_resets : bool                                                     LasWriter.__init__: its own copy of the header, partial_reset()
#   Definition write_evlrs_fields (minor n_evlrs pos start_of_first_evlr number_of_evlrs : Z) : option (Z * Z)
#                                                                                            LasWriter.write_evlrs (None = refused)
#   Definition point_format_writers : list (string * bool)
#       every method of LasHeader that binds self._point_format or adds / removes extra dimensions of the header's point format, with:
#       "self._sync_extra_bytes_vlr() is called on the method's top level after the last such statement" (the Extra Bytes VLR is
#       rebuilt from the dimensions the point format has then)
# Fail closed: another shape of these functions is Untranslatable.
# ---------------------------------------------------------------------------------------------------
_EVLR_FIELDS = ("start_of_first_evlr", "number_of_evlrs")


def _is_doc(s):
    return isinstance(s, ast.Pass) or (isinstance(s, ast.Expr) and isinstance(s.value, ast.Constant))


def _mentions_evlr_fields(s):
    return any(isinstance(n, ast.Attribute) and n.attr in _EVLR_FIELDS for n in ast.walk(s))


def gen_header_state(o, repo):
    def partial_reset():
        fn = py2v.find_func(py2v.find_class(py2v.parse(repo, "laspy/header.py"), "LasHeader"), "partial_reset")
        st = {"start_of_first_evlr": "start_of_first_evlr", "number_of_evlrs": "number_of_evlrs"}
        for s in fn.body:
            if _is_doc(s) or not _mentions_evlr_fields(s):
                if isinstance(s, (ast.Return, ast.Raise)):
                    raise Untranslatable("partial_reset leaves early")
                continue
            if (isinstance(s, ast.Assign) and len(s.targets) == 1 and isinstance(s.targets[0], ast.Attribute)
                    and ast.unparse(s.targets[0].value) == "self" and s.targets[0].attr in _EVLR_FIELDS
                    and isinstance(s.value, ast.Constant) and isinstance(s.value.value, int) and not isinstance(s.value.value, bool)):
                st[s.targets[0].attr] = py2v.z(s.value.value)
                continue
            raise Untranslatable(f"partial_reset: {ast.unparse(s)[:80]}")
        return ("(* laspy/header.py LasHeader.partial_reset: the EVLR fields of the header afterwards *)\n"
                "Definition partial_reset_evlrs (start_of_first_evlr number_of_evlrs : Z) : Z * Z :=\n"
                f"  ({st['start_of_first_evlr']}, {st['number_of_evlrs']}).\n")
    o.add("partial_reset_evlrs", partial_reset)

    def writer_init():
        fn = py2v.find_func(py2v.find_class(py2v.parse(repo, "laspy/laswriter.py"), "LasWriter"), "__init__")
        body = [s for s in fn.body if not _is_doc(s)]
        texts = [ast.unparse(s) for s in body]
        own = [i for i, t in enumerate(texts) if t in ("self.header = deepcopy(header)", "self.header = copy.deepcopy(header)")]
        rst = [i for i, t in enumerate(texts) if t == "self.header.partial_reset()"]
        if len(own) != 1 or len(rst) != 1 or rst[0] < own[0]:
            raise Untranslatable("LasWriter.__init__ does not take its own copy of the header and partial_reset() it once")
        for i, s in enumerate(body):
            if _mentions_evlr_fields(s) or (i > own[0] and any(isinstance(n, ast.Assign) and any(ast.unparse(t_) == "self.header" for t_ in n.targets)
                                                                for n in ast.walk(s))):
                raise Untranslatable(f"LasWriter.__init__: {texts[i][:80]}")
        return ("(* laspy/laswriter.py LasWriter.__init__: self.header = deepcopy(header), then self.header.partial_reset() *)\n"
                "Definition writer_init_resets : bool := true.\n")
    o.add("writer_init_resets", writer_init)

    def write_evlrs():
        fn = py2v.find_func(py2v.find_class(py2v.parse(repo, "laspy/laswriter.py"), "LasWriter"), "write_evlrs")
        if [a.arg for a in fn.args.args] != ["self", "evlrs"]:
            raise Untranslatable("write_evlrs parameters")
        CMP = _Resolve.CMP

        def zexpr(e, wrote):
            if isinstance(e, ast.Constant) and isinstance(e.value, int) and not isinstance(e.value, bool):
                return py2v.z(e.value)
            t = ast.unparse(e)
            if t == "self.header.version.minor":
                return "minor"
            if t == "len(evlrs)":
                return "n_evlrs"
            if t == "self.dest.tell()":
                if wrote:
                    raise Untranslatable("the stream position is taken after the EVLRs were written")
                return "pos"
            raise Untranslatable(f"integer expression {t[:60]}")

        def test(e, wrote):
            if isinstance(e, ast.Compare) and len(e.ops) == 1 and type(e.ops[0]) in CMP:
                return CMP[type(e.ops[0])].format(a=zexpr(e.left, wrote), b=zexpr(e.comparators[0], wrote))
            if ast.unparse(e) == "evlrs":
                return "(0 <? n_evlrs)"
            raise Untranslatable(f"condition {ast.unparse(e)[:60]}")

        def run(stmts, st, wrote):
            if not stmts:
                return f"Some ({st['start_of_first_evlr']}, {st['number_of_evlrs']})"
            s, rest = stmts[0], stmts[1:]
            if _is_doc(s):
                return run(rest, st, wrote)
            if isinstance(s, ast.Raise):
                return "None"
            if isinstance(s, ast.Return) and s.value is None:
                return run([], st, wrote)
            if isinstance(s, ast.If):
                t = test(s.test, wrote)
                return f"(if {t} then {run(list(s.body) + rest, dict(st), wrote)} else {run(list(s.orelse) + rest, dict(st), wrote)})"
            if (isinstance(s, ast.Assign) and len(s.targets) == 1 and isinstance(s.targets[0], ast.Attribute)
                    and ast.unparse(s.targets[0].value) == "self.header" and s.targets[0].attr in _EVLR_FIELDS):
                st = dict(st)
                st[s.targets[0].attr] = zexpr(s.value, wrote)
                return run(rest, st, wrote)
            if _mentions_evlr_fields(s) or isinstance(s, (ast.For, ast.While, ast.Try, ast.With, ast.Return)):
                raise Untranslatable(f"write_evlrs: {ast.unparse(s)[:80]}")
            text = ast.unparse(s)
            return run(rest, st, wrote or "write_to(" in text or ".write(" in text or ".seek(" in text)

        text = run(list(fn.body), {"start_of_first_evlr": "start_of_first_evlr", "number_of_evlrs": "number_of_evlrs"}, False)
        return ("(* laspy/laswriter.py LasWriter.write_evlrs: the EVLR fields of the writer's header afterwards (pos = position of the\n"
                "   stream when it is asked, before the records are written); None = the call is refused *)\n"
                "Definition write_evlrs_fields (minor n_evlrs pos start_of_first_evlr number_of_evlrs : Z) : option (Z * Z) :=\n  "
                + text + ".\n")
    o.add("write_evlrs_fields", write_evlrs)

    def pf_writers():
        cls = py2v.find_class(py2v.parse(repo, "laspy/header.py"), "LasHeader")

        def changes(n):
            if isinstance(n, (ast.Assign, ast.AnnAssign, ast.AugAssign)):
                tg = n.targets if isinstance(n, ast.Assign) else [n.target]
                if any(ast.unparse(t_) == "self._point_format" for t_ in tg):
                    return True
            if isinstance(n, ast.Call) and ast.unparse(n.func) in (
                    "self.point_format.add_extra_dimension", "self.point_format.remove_extra_dimension",
                    "self._point_format.add_extra_dimension", "self._point_format.remove_extra_dimension",
                    "self.point_format.dimensions.append", "self._point_format.dimensions.append"):
                return True
            if isinstance(n, ast.Call) and ast.unparse(n.func) in ("setattr", "object.__setattr__") and "_point_format" in ast.unparse(n):
                return True
            return False

        rows = []
        for fn in cls.body:
            if not isinstance(fn, ast.FunctionDef) or fn.name == "_sync_extra_bytes_vlr":
                continue
            last = None
            for i, s in enumerate(fn.body):
                if any(changes(n) for n in ast.walk(s)):
                    last = i
            if last is None:
                continue
            synced = any(isinstance(s, ast.Expr) and ast.unparse(s) == "self._sync_extra_bytes_vlr()" for s in fn.body[last + 1:])
            name = fn.name + (".setter" if any(ast.unparse(d).endswith(".setter") for d in fn.decorator_list) else "")
            rows.append((name, synced))
        if not rows:
            raise Untranslatable("no method of LasHeader binds its point format")
        return ("(* laspy/header.py LasHeader: the methods that bind self._point_format or add / remove extra dimensions of the header's\n"
                "   point format; true = self._sync_extra_bytes_vlr() follows on the method's top level *)\n"
                "Definition point_format_writers : list (string * bool) :=\n  ["
                + "; ".join(f"({qs(n)}, {'true' if b else 'false'})" for n, b in rows) + "].\n")
    o.add("point_format_writers", pf_writers)


_gen0 = gen


def gen(repo):  # noqa: F811
    o = _gen0(repo)
    gen_resolve(o, repo)
    gen_append(o, repo)
    gen_handover(o, repo)
    gen_known(o, repo)
    gen_header_state(o, repo)
    return o


TARGETS = {"GenC02.v": gen}
