"""Translator plugin for property C02: the 192-byte extra-bytes descriptor of laspy (ctypes structure
ExtraBytesStruct in laspy/vlrs/known.py), its option-bit constants and the identity of the VLR that carries it,
dumped from the running module -> coq/Gen/GenC02.v.  Fail-closed: anything unexpected is an Untranslatable."""
import ctypes
import importlib
import os
import sys

import py2v
from py2v import Out, Untranslatable


def qs(x):
    if '"' in x or "\\" in x or any(ord(c) < 32 or ord(c) > 126 for c in x):
        raise Untranslatable(f"string {x!r} not printable")
    return '"' + x + '"%string'


def gen(repo):
    o = Out("laspy/vlrs/known.py ExtraBytesStruct / ExtraBytesVlr (ctypes layout and constants of the running module)")
    sys.path.insert(0, repo)
    for m in [k for k in sys.modules if k == "laspy" or k.startswith("laspy.")]:
        del sys.modules[m]
    known = importlib.import_module("laspy.vlrs.known")
    if not os.path.realpath(known.__file__).startswith(os.path.realpath(repo)):
        raise Untranslatable(f"laspy imported from {known.__file__}, not from {repo}")
    S = known.ExtraBytesStruct

    def fields():
        if not issubclass(S, ctypes.LittleEndianStructure):
            raise Untranslatable("ExtraBytesStruct is not a LittleEndianStructure")
        rows = []
        for name, ct in S._fields_:
            d = getattr(S, name)
            count, t = 1, ct
            while hasattr(t, "_length_"):
                count *= int(t._length_)
                t = t._type_
            code = getattr(t, "_type_", None)
            if not isinstance(code, str) or len(code) != 1:
                raise Untranslatable(f"field {name}: element type {t!r} is not a simple ctypes scalar")
            esz = ctypes.sizeof(t)
            if esz * count != d.size:
                raise Untranslatable(f"field {name}: size {d.size} is not {count} elements of {esz} bytes")
            rows.append(f"({qs(name)}, {int(d.offset)}, {int(d.size)}, {qs(code)}, {esz}, {count})")
        return ("Definition eb_struct_fields : list (string * Z * Z * string * Z * Z) := [\n  " + ";\n  ".join(rows) + "].\n\n"
                f"Definition eb_struct_size : Z := {int(ctypes.sizeof(S))}.\n")
    o.add("eb_struct_fields", fields)

    def size_fn():
        v = S.size()
        if int(v) != ctypes.sizeof(S):
            raise Untranslatable("ExtraBytesStruct.size() differs from ctypes.sizeof")
        return f"Definition eb_struct_size_method : Z := {int(v)}.\n"
    o.add("eb_struct_size_method", size_fn)

    def bits():
        names = [("no_data", "NO_DATA_BIT_MASK"), ("min", "MIN_BIT_MASK"), ("max", "MAX_BIT_MASK"),
                 ("scale", "SCALE_BIT_MASK"), ("offset", "OFFSET_BIT_MASK")]
        rows = []
        for lab, attr in names:
            v = getattr(S, attr)
            if not isinstance(v, int) or isinstance(v, bool):
                raise Untranslatable(f"{attr} is not an int")
            rows.append(f"({qs(lab)}, {v})")
        return "Definition eb_option_bits : list (string * Z) := [" + "; ".join(rows) + "].\n"
    o.add("eb_option_bits", bits)

    def vlr_id():
        uid = known.ExtraBytesVlr.official_user_id()
        rids = tuple(known.ExtraBytesVlr.official_record_ids())
        if len(rids) != 1:
            raise Untranslatable(f"ExtraBytesVlr.official_record_ids() = {rids!r}")
        return f"Definition eb_vlr_id : string * Z := ({qs(uid)}, {int(rids[0])}).\n"
    o.add("eb_vlr_id", vlr_id)

    def num_elements():
        # ExtraBytesStruct.num_elements() / dtype() of the running class for every data_type 1..30 (options = 0)
        rows = []
        for dt in range(1, 31):
            s = S(data_type=dt)
            d = s.dtype()
            n = int(s.num_elements())
            cnt = int(d.shape[0]) if d.ndim == 1 else 1
            if d.ndim > 1:
                raise Untranslatable(f"data_type {dt}: dtype {d!r}")
            rows.append(f"({dt}, {qs(d.base.kind)}, {int(d.base.itemsize)}, {cnt}, {n})")
        return "Definition eb_struct_types : list (Z * string * Z * Z * Z) := [" + "; ".join(rows) + "].\n"
    o.add("eb_struct_types", num_elements)
    return o


TARGETS = {"GenC02.v": gen}


# ---------------------------------------------------------------------------------------------------
# LasHeader.read_from: how the record layout is resolved from 'Point Data Record Length', the point format and the
# Extra Bytes VLR (which descriptors are used, how many undocumented bytes trail every record, or the error).
# The block between `point_format = PointFormat(point_format_id)` and `if read_evlrs:` is executed symbolically, path by
# path, over (point_size, std = PointFormat(id).size, described = bytes the VLR's descriptors describe, has_vlr):
#   Definition resolve_record (point_size std described : Z) (has_vlr : bool) : result (bool * Z)
# = Ok (descriptors used, trailing undocumented bytes) | Err ELaspy.   Anything outside the small statement language
# below is Untranslatable (fail closed).
# ---------------------------------------------------------------------------------------------------
import ast  # noqa: E402


class _St:
    def __init__(self):
        self.terms = ["std"]      # point_format.size as a sum
        self.used = False         # descriptors of the VLR added to the point format
        self.trail = None         # Gallina text: number of undocumented bytes appended as one dimension
        self.env = {}             # local int variables -> Gallina text
        self.hv = None            # has_vlr known on this path
        self.assigned = False     # header._point_format = point_format seen
        self.vlr_var = None

    def copy(self):
        c = _St()
        c.terms, c.used, c.trail, c.env, c.hv, c.assigned, c.vlr_var = list(self.terms), self.used, self.trail, dict(self.env), self.hv, self.assigned, self.vlr_var
        return c

    def size(self):
        return self.terms[0] if len(self.terms) == 1 else "(" + " + ".join(self.terms) + ")"


class _Resolve:
    CMP = {ast.Eq: "({a} =? {b})", ast.NotEq: "negb ({a} =? {b})", ast.Lt: "({a} <? {b})", ast.LtE: "({a} <=? {b})",
           ast.Gt: "({b} <? {a})", ast.GtE: "({b} <=? {a})"}

    def __init__(self):
        self.trailing_dims = set()

    def zexpr(self, e, st):
        if isinstance(e, ast.Constant) and isinstance(e.value, int) and not isinstance(e.value, bool):
            return py2v.z(e.value)
        if isinstance(e, ast.Name):
            if e.id == "point_size":
                return "point_size"
            if e.id in st.env:
                return st.env[e.id]
            raise Untranslatable(f"unknown integer variable {e.id}")
        if isinstance(e, ast.Attribute) and ast.unparse(e) == "point_format.size":
            return st.size()
        if isinstance(e, ast.BinOp) and isinstance(e.op, (ast.Add, ast.Sub, ast.Mult)):
            op = {ast.Add: "+", ast.Sub: "-", ast.Mult: "*"}[type(e.op)]
            return f"({self.zexpr(e.left, st)} {op} {self.zexpr(e.right, st)})"
        raise Untranslatable(f"integer expression {ast.unparse(e)[:60]}")

    def test(self, e, st):
        if isinstance(e, ast.Compare) and len(e.ops) == 1 and type(e.ops[0]) in self.CMP:
            return self.CMP[type(e.ops[0])].format(a=self.zexpr(e.left, st), b=self.zexpr(e.comparators[0], st))
        if isinstance(e, ast.BoolOp):
            parts = [self.test(v, st) for v in e.values]
            return "(" + (" && " if isinstance(e.op, ast.And) else " || ").join(parts) + ")"
        if isinstance(e, ast.UnaryOp) and isinstance(e.op, ast.Not):
            return f"negb {self.test(e.operand, st)}"
        raise Untranslatable(f"condition {ast.unparse(e)[:60]}")

    @staticmethod
    def strip_cast(v):
        if isinstance(v, ast.Call) and ast.unparse(v.func) in ("typing.cast", "cast") and len(v.args) == 2:
            return v.args[1]
        return v

    def trailing_dim(self, call, st):
        """dims.DimensionInfo(name=..., kind=UnsignedInteger, num_bits=8 * E, num_elements=E, is_standard=False) -> text of E"""
        if call.args:
            raise Untranslatable("DimensionInfo with positional arguments")
        kw = {k.arg: k.value for k in call.keywords}
        need = {"name", "kind", "num_bits", "num_elements", "is_standard"}
        if not need <= set(kw) or not set(kw) <= need | {"description"}:
            raise Untranslatable(f"DimensionInfo keywords {sorted(kw)}")
        if not (isinstance(kw["name"], ast.Constant) and isinstance(kw["name"].value, str)):
            raise Untranslatable("DimensionInfo name is not a literal")
        kinds = {"dims.DimensionKind.UnsignedInteger": "u", "DimensionKind.UnsignedInteger": "u"}
        kind = kinds.get(ast.unparse(kw["kind"]))
        if kind is None:
            raise Untranslatable(f"DimensionInfo kind {ast.unparse(kw['kind'])}")
        if not (isinstance(kw["is_standard"], ast.Constant) and kw["is_standard"].value is False):
            raise Untranslatable("undocumented bytes declared as a standard dimension")
        ne = kw["num_elements"]
        nb = kw["num_bits"]
        ok = (isinstance(nb, ast.BinOp) and isinstance(nb.op, ast.Mult)
              and ((isinstance(nb.left, ast.Constant) and isinstance(nb.left.value, int) and nb.left.value % 8 == 0 and ast.dump(nb.right) == ast.dump(ne))
                   or (isinstance(nb.right, ast.Constant) and isinstance(nb.right.value, int) and nb.right.value % 8 == 0 and ast.dump(nb.left) == ast.dump(ne))))
        if not ok:
            raise Untranslatable(f"num_bits {ast.unparse(nb)} is not <8k> * num_elements")
        k = nb.left.value if isinstance(nb.left, ast.Constant) else nb.right.value
        if k <= 0:
            raise Untranslatable("element width")
        self.trailing_dims.add((kw["name"].value, kind, k // 8))
        return self.zexpr(ne, st), k // 8

    def run(self, stmts, st):
        """Gallina text of executing stmts (a flat list: the rest of the block is appended to each branch)"""
        if not stmts:
            if not st.assigned:
                raise Untranslatable("header._point_format is not assigned on some path")
            return f"Ok ({'true' if st.used else 'false'}, {st.trail if st.trail is not None else '0'})"
        s, rest = stmts[0], stmts[1:]
        if isinstance(s, ast.Pass):
            return self.run(rest, st)
        if isinstance(s, ast.Raise):
            if s.exc is not None and isinstance(s.exc, ast.Call) and ast.unparse(s.exc.func) in ("LaspyException", "errors.LaspyException"):
                return "Err ELaspy"
            raise Untranslatable(f"raise {ast.unparse(s)[:60]}")
        if isinstance(s, ast.If):
            t = self.test(s.test, st)
            a = self.run(list(s.body) + rest, st.copy())
            b = self.run(list(s.orelse) + rest, st.copy())
            return f"(if {t}\n   then {a}\n   else {b})"
        if isinstance(s, ast.Try):
            if s.finalbody or len(s.handlers) != 1 or len(s.body) != 1:
                raise Untranslatable("try shape")
            h = s.handlers[0]
            if h.type is None or ast.unparse(h.type) != "IndexError" or h.name is not None:
                raise Untranslatable("except clause is not `except IndexError`")
            b = s.body[0]
            if not (isinstance(b, ast.Assign) and len(b.targets) == 1 and isinstance(b.targets[0], ast.Name)):
                raise Untranslatable("try body is not one assignment")
            v = self.strip_cast(b.value)
            if ast.unparse(v) not in ("header._vlrs.get('ExtraBytesVlr')[0]", "header.vlrs.get('ExtraBytesVlr')[0]"):
                raise Untranslatable(f"try body {ast.unparse(v)[:80]}")
            if st.hv is not None:
                raise Untranslatable("the Extra Bytes VLR is looked up twice")
            yes, no = st.copy(), st.copy()
            yes.hv, yes.vlr_var = True, b.targets[0].id
            no.hv = False
            a = self.run(list(s.orelse) + rest, yes)
            c = self.run(list(h.body) + rest, no)
            return f"(if has_vlr\n   then {a}\n   else {c})"
        if isinstance(s, ast.For):
            if not (st.hv is True and not st.used and st.trail is None and not s.orelse and isinstance(s.target, ast.Name) and len(s.body) == 1
                    and ast.unparse(s.iter) == f"{st.vlr_var}.type_of_extra_dims()"
                    and ast.unparse(s.body[0]) == f"point_format.add_extra_dimension({s.target.id})"):
                raise Untranslatable(f"for loop {ast.unparse(s)[:80]}")
            st = st.copy()
            st.used = True
            st.terms.append("described")
            return self.run(rest, st)
        if isinstance(s, ast.Assign) and len(s.targets) == 1:
            tgt = ast.unparse(s.targets[0])
            if tgt == "header._point_format" and ast.unparse(s.value) == "point_format":
                st = st.copy()
                st.assigned = True
                return self.run(rest, st)
            if isinstance(s.targets[0], ast.Name) and tgt not in ("point_format", "point_size", "header"):
                st = st.copy()
                st.env[tgt] = self.zexpr(s.value, st)
                return self.run(rest, st)
            raise Untranslatable(f"assignment {ast.unparse(s)[:80]}")
        if isinstance(s, ast.Expr) and isinstance(s.value, ast.Call):
            f = ast.unparse(s.value.func)
            if f.startswith("logger."):
                return self.run(rest, st)
            if f in ("header._vlrs.extract", "header.vlrs.extract") and st.hv is True and not st.used \
                    and len(s.value.args) == 1 and isinstance(s.value.args[0], ast.Constant) and s.value.args[0].value == "ExtraBytesVlr":
                return self.run(rest, st)     # the ignored VLR is dropped from the list (VLR identity is C08's)
            if f == "point_format.dimensions.append" and len(s.value.args) == 1 and isinstance(s.value.args[0], ast.Call) \
                    and ast.unparse(s.value.args[0].func) in ("dims.DimensionInfo", "DimensionInfo"):
                if st.trail is not None:
                    raise Untranslatable("two dimensions of undocumented bytes on one path")
                st = st.copy()
                e, w = self.trailing_dim(s.value.args[0], st)
                st.trail = e
                st.terms.append(e if w == 1 else f"({w} * {e})")
                return self.run(rest, st)
        if isinstance(s, ast.Expr) and isinstance(s.value, ast.Constant) and isinstance(s.value.value, str):
            return self.run(rest, st)
        raise Untranslatable(f"statement {ast.unparse(s)[:80]}")


def gen_resolve(o, repo):
    def thunk():
        mod = py2v.parse(repo, "laspy/header.py")
        fn = py2v.find_func(py2v.find_class(mod, "LasHeader"), "read_from")
        body = list(fn.body)
        start = [i for i, s in enumerate(body) if isinstance(s, ast.Assign) and ast.unparse(s.targets[0]) == "point_format"]
        end = [i for i, s in enumerate(body) if isinstance(s, ast.If) and ast.unparse(s.test) == "read_evlrs"]
        if len(start) != 1 or len(end) != 1 or not start[0] < end[0]:
            raise Untranslatable("read_from: cannot delimit the block that builds the point format")
        if ast.unparse(body[start[0]].value) != "PointFormat(point_format_id)":
            raise Untranslatable(f"point_format = {ast.unparse(body[start[0]].value)[:60]}")
        ps = [n for n in ast.walk(fn) if isinstance(n, ast.Assign) and any(ast.unparse(t) == "point_size" for t in n.targets)]
        if len(ps) != 1 or "stream.read" not in ast.unparse(ps[0].value):
            raise Untranslatable("point_size is not read exactly once from the stream")
        for s in body[:start[0]] + body[end[0]:]:
            for n in ast.walk(s):
                if isinstance(n, ast.Name) and n.id == "point_format":
                    raise Untranslatable("point_format is used outside the translated block")
        for s in body[end[0]:]:
            if "_point_format" in ast.unparse(s):
                raise Untranslatable("header._point_format is touched after the translated block")
        r = _Resolve()
        text = r.run(body[start[0] + 1:end[0]], _St())
        if len(r.trailing_dims) > 1:
            raise Untranslatable(f"several shapes of the undocumented-bytes dimension: {sorted(r.trailing_dims)}")
        name, kind, w = sorted(r.trailing_dims)[0] if r.trailing_dims else ("ExtraBytes", "u", 1)
        return ("(* laspy/header.py LasHeader.read_from, the block that builds the point format of the file *)\n"
                "Definition resolve_record (point_size std described : Z) (has_vlr : bool) : result (bool * Z) :=\n  " + text + ".\n\n"
                f"Definition trailing_dim : string * string * Z := ({qs(name)}, {qs(kind)}, {int(w)}).\n")
    o.add("resolve_record", thunk)


# ---------------------------------------------------------------------------------------------------
# LasAppender.__init__: where the first appended point record goes (uncompressed files). The branch
# `if not header.are_points_compressed:` is executed symbolically over the header fields and the file length:
#   Definition append_start (offset_to_point_data point_count point_size file_len minor number_of_evlrs start_of_first_evlr : Z) : Z
# = the position of self.dest when __init__ returns. Every other seek of __init__ after that branch must sit in a block that saves the
# position (pos = self.dest.tell()) first and ends with self.dest.seek(pos, io.SEEK_SET); append_points must hand the points to the
# points appender exactly once without moving the stream, and UncompressedPointAppender.append_points must be one
# self.dest.write(points.memoryview()). Anything else is Untranslatable.
# ---------------------------------------------------------------------------------------------------
class _Append:
    NAMES = {"point_count": "point_count", "point_format.size": "point_size", "offset_to_point_data": "offset_to_point_data",
             "version.minor": "minor", "number_of_evlrs": "number_of_evlrs", "start_of_first_evlr": "start_of_first_evlr"}
    CMP = _Resolve.CMP

    def zexpr(self, e):
        if isinstance(e, ast.Constant) and isinstance(e.value, int) and not isinstance(e.value, bool):
            return py2v.z(e.value)
        if isinstance(e, ast.Attribute):
            t = ast.unparse(e)
            for pre in ("self.header.", "header."):
                if t.startswith(pre) and t[len(pre):] in self.NAMES:
                    return self.NAMES[t[len(pre):]]
            raise Untranslatable(f"attribute {t[:60]}")
        if isinstance(e, ast.BinOp) and isinstance(e.op, (ast.Add, ast.Sub, ast.Mult)):
            op = {ast.Add: "+", ast.Sub: "-", ast.Mult: "*"}[type(e.op)]
            return f"({self.zexpr(e.left)} {op} {self.zexpr(e.right)})"
        raise Untranslatable(f"integer expression {ast.unparse(e)[:60]}")

    def test(self, e):
        if isinstance(e, ast.Compare) and len(e.ops) == 1 and type(e.ops[0]) in self.CMP:
            return self.CMP[type(e.ops[0])].format(a=self.zexpr(e.left), b=self.zexpr(e.comparators[0]))
        if isinstance(e, ast.BoolOp):
            return "(" + (" && " if isinstance(e.op, ast.And) else " || ").join(self.test(v) for v in e.values) + ")"
        if isinstance(e, ast.UnaryOp) and isinstance(e.op, ast.Not):
            return f"negb {self.test(e.operand)}"
        raise Untranslatable(f"condition {ast.unparse(e)[:60]}")

    @staticmethod
    def is_seek(s):
        return (isinstance(s, ast.Expr) and isinstance(s.value, ast.Call)
                and ast.unparse(s.value.func) in ("self.dest.seek", "dest.seek"))

    def seek_pos(self, call):
        if call.keywords or not 1 <= len(call.args) <= 2:
            raise Untranslatable(f"seek call {ast.unparse(call)[:60]}")
        whence = ast.unparse(call.args[1]) if len(call.args) == 2 else "io.SEEK_SET"
        if whence in ("io.SEEK_SET", "os.SEEK_SET", "0"):
            return self.zexpr(call.args[0])
        if whence in ("io.SEEK_END", "os.SEEK_END", "2"):
            return f"(file_len + {self.zexpr(call.args[0])})"
        raise Untranslatable(f"seek whence {whence}")

    def run(self, stmts, pos):
        """position of the stream after stmts (Gallina text); pos = position before (None: not set by this branch yet)"""
        if not stmts:
            if pos is None:
                raise Untranslatable("a path of the uncompressed branch does not position the stream")
            return pos
        s, rest = stmts[0], stmts[1:]
        if isinstance(s, ast.Pass) or (isinstance(s, ast.Expr) and isinstance(s.value, ast.Constant)):
            return self.run(rest, pos)
        if isinstance(s, ast.Assign) and len(s.targets) == 1 and ast.unparse(s.targets[0]) == "self.points_appender":
            if ast.unparse(s.value) not in ("UncompressedPointAppender(self.dest)", "UncompressedPointAppender(dest)"):
                raise Untranslatable(f"points appender {ast.unparse(s.value)[:60]}")
            return self.run(rest, pos)
        if self.is_seek(s):
            return self.run(rest, self.seek_pos(s.value))
        if isinstance(s, ast.If):
            t = self.test(s.test)
            return f"(if {t} then {self.run(list(s.body) + rest, pos)} else {self.run(list(s.orelse) + rest, pos)})"
        raise Untranslatable(f"statement {ast.unparse(s)[:80]}")

    def check_restores(self, stmts):
        """after the branch: a block that moves the stream saves the position first and restores it last"""
        def on_scratch(x):
            """a statement whose only stream is a fresh io.BytesIO() (a trial serialisation) does not use the destination"""
            t = ast.unparse(x)
            return "io.BytesIO()" in t and "dest" not in t

        for s in stmts:
            if isinstance(s, ast.If) and all(on_scratch(x) for x in list(s.body) + list(s.orelse)):
                continue
            if on_scratch(s):
                continue
            text = ast.unparse(s)
            if ".seek(" not in text and ".read(" not in text and "read_from" not in text and ".write" not in text and ".truncate" not in text:
                continue
            if not isinstance(s, ast.If):
                raise Untranslatable(f"the stream is used after it was positioned: {text[:80]}")
            for blk in ([x for x in s.body if not on_scratch(x)], [x for x in s.orelse if not on_scratch(x)]):
                btext = "\n".join(ast.unparse(x) for x in blk)
                if not any(k in btext for k in (".seek(", ".read(", "read_from", ".write", ".truncate")):
                    continue
                saves = [i for i, x in enumerate(blk) if isinstance(x, ast.Assign) and len(x.targets) == 1 and isinstance(x.targets[0], ast.Name)
                         and ast.unparse(x.value) in ("self.dest.tell()", "dest.tell()")]
                if len(saves) != 1:
                    raise Untranslatable("a block that moves the stream does not save the position exactly once")
                var = blk[saves[0]].targets[0].id
                for x in blk[:saves[0]]:
                    xt = ast.unparse(x)
                    if any(k in xt for k in (".seek(", ".read(", "read_from", ".write", ".truncate")):
                        raise Untranslatable("the stream is moved before its position is saved")
                for x in blk[saves[0] + 1:]:
                    if any(isinstance(n, ast.Name) and n.id == var and isinstance(n.ctx, ast.Store) for n in ast.walk(x)):
                        raise Untranslatable("the saved position is re-assigned")
                if ast.unparse(blk[-1]) not in (f"self.dest.seek({var}, io.SEEK_SET)", f"dest.seek({var}, io.SEEK_SET)", f"self.dest.seek({var})", f"dest.seek({var})"):
                    raise Untranslatable(f"the block does not end by restoring the saved position: {ast.unparse(blk[-1])[:60]}")


def gen_append(o, repo):
    def thunk():
        mod = py2v.parse(repo, "laspy/lasappender.py")
        cls = py2v.find_class(mod, "LasAppender")
        init = py2v.find_func(cls, "__init__")
        body = list(init.body)
        br = [i for i, s in enumerate(body) if isinstance(s, ast.If) and ast.unparse(s.test) in ("not header.are_points_compressed", "not self.header.are_points_compressed")]
        if len(br) != 1:
            raise Untranslatable("LasAppender.__init__: no single `if not header.are_points_compressed` branch")
        hdr = [s for s in body[:br[0]] if isinstance(s, ast.Assign) and ast.unparse(s.targets[0]) == "header"]
        if len(hdr) != 1 or ast.unparse(hdr[0].value) != "LasHeader.read_from(dest)":
            raise Untranslatable("header is not LasHeader.read_from(dest)")
        a = _Append()
        text = a.run(list(body[br[0]].body), None)
        a.check_restores(body[br[0] + 1:])
        # append_points: the points go to the points appender once, the stream is not moved
        ap = py2v.find_func(cls, "append_points")
        calls = [n for n in ast.walk(ap) if isinstance(n, ast.Call) and ast.unparse(n.func) == "self.points_appender.append_points"]
        if len(calls) != 1 or ast.unparse(calls[0]) != "self.points_appender.append_points(points)":
            raise Untranslatable("append_points does not hand `points` to the points appender exactly once")
        for n in ast.walk(ap):
            if isinstance(n, ast.Attribute) and n.attr in ("seek", "truncate", "write") and "dest" in ast.unparse(n.value):
                raise Untranslatable("append_points touches the stream itself")
            if isinstance(n, (ast.For, ast.While)):
                raise Untranslatable("append_points loops")
        up = py2v.find_func(py2v.find_class(mod, "UncompressedPointAppender"), "append_points")
        stm = [s for s in up.body if not (isinstance(s, ast.Expr) and isinstance(s.value, ast.Constant))]
        if len(stm) != 1 or ast.unparse(stm[0]) != "self.dest.write(points.memoryview())":
            raise Untranslatable("UncompressedPointAppender.append_points is not one self.dest.write(points.memoryview())")
        return ("(* laspy/lasappender.py LasAppender.__init__, uncompressed files: position of the stream when the appender is ready;\n"
                "   append_points / UncompressedPointAppender.append_points write each chunk's records at the stream's position *)\n"
                "Definition append_start (offset_to_point_data point_count point_size file_len minor number_of_evlrs start_of_first_evlr : Z) : Z :=\n  "
                + text + ".\n")
    o.add("append_start", thunk)


_gen0 = gen


def gen(repo):  # noqa: F811
    o = _gen0(repo)
    gen_resolve(o, repo)
    gen_append(o, repo)
    return o


TARGETS = {"GenC02.v": gen}
