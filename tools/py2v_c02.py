"""Translator plugin for property C02: the 192-byte extra-bytes descriptor of laspy (ctypes structure
ExtraBytesStruct in laspy/vlrs/known.py), its option-bit constants and the identity of the VLR that carries it,
dumped from the running module -> coq/Gen/GenC02.v.  Fail-closed: anything unexpected is an Untranslatable."""
import ctypes
import importlib
import os
import sys

import py2v
from py2v import Out, Untranslatable


def qs(x):
    if '"' in x or "\\" in x or any(ord(c) < 32 or ord(c) > 126 for c in x):
        raise Untranslatable(f"string {x!r} not printable")
    return '"' + x + '"%string'


def gen(repo):
    o = Out("laspy/vlrs/known.py ExtraBytesStruct / ExtraBytesVlr (ctypes layout and constants of the running module)")
    sys.path.insert(0, repo)
    for m in [k for k in sys.modules if k == "laspy" or k.startswith("laspy.")]:
        del sys.modules[m]
    known = importlib.import_module("laspy.vlrs.known")
    if not os.path.realpath(known.__file__).startswith(os.path.realpath(repo)):
        raise Untranslatable(f"laspy imported from {known.__file__}, not from {repo}")
    S = known.ExtraBytesStruct

    def fields():
        if not issubclass(S, ctypes.LittleEndianStructure):
            raise Untranslatable("ExtraBytesStruct is not a LittleEndianStructure")
        rows = []
        for name, ct in S._fields_:
            d = getattr(S, name)
            count, t = 1, ct
            while hasattr(t, "_length_"):
                count *= int(t._length_)
                t = t._type_
            code = getattr(t, "_type_", None)
            if not isinstance(code, str) or len(code) != 1:
                raise Untranslatable(f"field {name}: element type {t!r} is not a simple ctypes scalar")
            esz = ctypes.sizeof(t)
            if esz * count != d.size:
                raise Untranslatable(f"field {name}: size {d.size} is not {count} elements of {esz} bytes")
            rows.append(f"({qs(name)}, {int(d.offset)}, {int(d.size)}, {qs(code)}, {esz}, {count})")
        return ("Definition eb_struct_fields : list (string * Z * Z * string * Z * Z) := [\n  " + ";\n  ".join(rows) + "].\n\n"
                f"Definition eb_struct_size : Z := {int(ctypes.sizeof(S))}.\n")
    o.add("eb_struct_fields", fields)

    def size_fn():
        v = S.size()
        if int(v) != ctypes.sizeof(S):
            raise Untranslatable("ExtraBytesStruct.size() differs from ctypes.sizeof")
        return f"Definition eb_struct_size_method : Z := {int(v)}.\n"
    o.add("eb_struct_size_method", size_fn)

    def bits():
        names = [("no_data", "NO_DATA_BIT_MASK"), ("min", "MIN_BIT_MASK"), ("max", "MAX_BIT_MASK"),
                 ("scale", "SCALE_BIT_MASK"), ("offset", "OFFSET_BIT_MASK")]
        rows = []
        for lab, attr in names:
            v = getattr(S, attr)
            if not isinstance(v, int) or isinstance(v, bool):
                raise Untranslatable(f"{attr} is not an int")
            rows.append(f"({qs(lab)}, {v})")
        return "Definition eb_option_bits : list (string * Z) := [" + "; ".join(rows) + "].\n"
    o.add("eb_option_bits", bits)

    def vlr_id():
        uid = known.ExtraBytesVlr.official_user_id()
        rids = tuple(known.ExtraBytesVlr.official_record_ids())
        if len(rids) != 1:
            raise Untranslatable(f"ExtraBytesVlr.official_record_ids() = {rids!r}")
        return f"Definition eb_vlr_id : string * Z := ({qs(uid)}, {int(rids[0])}).\n"
    o.add("eb_vlr_id", vlr_id)

    def num_elements():
        # ExtraBytesStruct.num_elements() / dtype() of the running class for every data_type 1..30 (options = 0)
        rows = []
        for dt in range(1, 31):
            s = S(data_type=dt)
            d = s.dtype()
            n = int(s.num_elements())
            cnt = int(d.shape[0]) if d.ndim == 1 else 1
            if d.ndim > 1:
                raise Untranslatable(f"data_type {dt}: dtype {d!r}")
            rows.append(f"({dt}, {qs(d.base.kind)}, {int(d.base.itemsize)}, {cnt}, {n})")
        return "Definition eb_struct_types : list (Z * string * Z * Z * Z) := [" + "; ".join(rows) + "].\n"
    o.add("eb_struct_types", num_elements)
    return o


TARGETS = {"GenC02.v": gen}


# ---------------------------------------------------------------------------------------------------
# LasHeader.read_from: how the record layout is resolved from 'Point Data Record Length', the point format and the
# Extra Bytes VLR (which descriptors are used, how many undocumented bytes trail every record, or the error).
# The block between `point_format = PointFormat(point_format_id)` and `if read_evlrs:` is executed symbolically, path by
# path, over (point_size, std = PointFormat(id).size, described = bytes the VLR's descriptors describe, has_vlr):
#   Definition resolve_record (point_size std described : Z) (has_vlr : bool) : result (bool * Z)
# = Ok (descriptors used, trailing undocumented bytes) | Err ELaspy.   Anything outside the small statement language
# below is Untranslatable (fail closed).
# ---------------------------------------------------------------------------------------------------
import ast  # noqa: E402


class _St:
    def __init__(self):
        self.terms = ["std"]      # point_format.size as a sum
        self.used = False         # descriptors of the VLR added to the point format
        self.trail = None         # Gallina text: number of undocumented bytes appended as one dimension
        self.env = {}             # local int variables -> Gallina text
        self.hv = None            # has_vlr known on this path
        self.assigned = False     # header._point_format = point_format seen
        self.vlr_var = None

    def copy(self):
        c = _St()
        c.terms, c.used, c.trail, c.env, c.hv, c.assigned, c.vlr_var = list(self.terms), self.used, self.trail, dict(self.env), self.hv, self.assigned, self.vlr_var
        return c

    def size(self):
        return self.terms[0] if len(self.terms) == 1 else "(" + " + ".join(self.terms) + ")"


class _Resolve:
    CMP = {ast.Eq: "({a} =? {b})", ast.NotEq: "negb ({a} =? {b})", ast.Lt: "({a} <? {b})", ast.LtE: "({a} <=? {b})",
           ast.Gt: "({b} <? {a})", ast.GtE: "({b} <=? {a})"}

    def __init__(self):
        self.trailing_dims = set()

    def zexpr(self, e, st):
        if isinstance(e, ast.Constant) and isinstance(e.value, int) and not isinstance(e.value, bool):
            return py2v.z(e.value)
        if isinstance(e, ast.Name):
            if e.id == "point_size":
                return "point_size"
            if e.id in st.env:
                return st.env[e.id]
            raise Untranslatable(f"unknown integer variable {e.id}")
        if isinstance(e, ast.Attribute) and ast.unparse(e) == "point_format.size":
            return st.size()
        if isinstance(e, ast.BinOp) and isinstance(e.op, (ast.Add, ast.Sub, ast.Mult)):
            op = {ast.Add: "+", ast.Sub: "-", ast.Mult: "*"}[type(e.op)]
            return f"({self.zexpr(e.left, st)} {op} {self.zexpr(e.right, st)})"
        raise Untranslatable(f"integer expression {ast.unparse(e)[:60]}")

    def test(self, e, st):
        if isinstance(e, ast.Compare) and len(e.ops) == 1 and type(e.ops[0]) in self.CMP:
            return self.CMP[type(e.ops[0])].format(a=self.zexpr(e.left, st), b=self.zexpr(e.comparators[0], st))
        if isinstance(e, ast.BoolOp):
            parts = [self.test(v, st) for v in e.values]
            return "(" + (" && " if isinstance(e.op, ast.And) else " || ").join(parts) + ")"
        if isinstance(e, ast.UnaryOp) and isinstance(e.op, ast.Not):
            return f"negb {self.test(e.operand, st)}"
        raise Untranslatable(f"condition {ast.unparse(e)[:60]}")

    @staticmethod
    def strip_cast(v):
        if isinstance(v, ast.Call) and ast.unparse(v.func) in ("typing.cast", "cast") and len(v.args) == 2:
            return v.args[1]
        return v

    def trailing_dim(self, call, st):
        """dims.DimensionInfo(name=..., kind=UnsignedInteger, num_bits=8 * E, num_elements=E, is_standard=False) -> text of E"""
        if call.args:
            raise Untranslatable("DimensionInfo with positional arguments")
        kw = {k.arg: k.value for k in call.keywords}
        need = {"name", "kind", "num_bits", "num_elements", "is_standard"}
        if not need <= set(kw) or not set(kw) <= need | {"description"}:
            raise Untranslatable(f"DimensionInfo keywords {sorted(kw)}")
        if not (isinstance(kw["name"], ast.Constant) and isinstance(kw["name"].value, str)):
            raise Untranslatable("DimensionInfo name is not a literal")
        kinds = {"dims.DimensionKind.UnsignedInteger": "u", "DimensionKind.UnsignedInteger": "u"}
        kind = kinds.get(ast.unparse(kw["kind"]))
        if kind is None:
            raise Untranslatable(f"DimensionInfo kind {ast.unparse(kw['kind'])}")
        if not (isinstance(kw["is_standard"], ast.Constant) and kw["is_standard"].value is False):
            raise Untranslatable("undocumented bytes declared as a standard dimension")
        ne = kw["num_elements"]
        nb = kw["num_bits"]
        ok = (isinstance(nb, ast.BinOp) and isinstance(nb.op, ast.Mult)
              and ((isinstance(nb.left, ast.Constant) and isinstance(nb.left.value, int) and nb.left.value % 8 == 0 and ast.dump(nb.right) == ast.dump(ne))
                   or (isinstance(nb.right, ast.Constant) and isinstance(nb.right.value, int) and nb.right.value % 8 == 0 and ast.dump(nb.left) == ast.dump(ne))))
        if not ok:
            raise Untranslatable(f"num_bits {ast.unparse(nb)} is not <8k> * num_elements")
        k = nb.left.value if isinstance(nb.left, ast.Constant) else nb.right.value
        if k <= 0:
            raise Untranslatable("element width")
        self.trailing_dims.add((kw["name"].value, kind, k // 8))
        return self.zexpr(ne, st), k // 8

    def run(self, stmts, st):
        """Gallina text of executing stmts (a flat list: the rest of the block is appended to each branch)"""
        if not stmts:
            if not st.assigned:
                raise Untranslatable("header._point_format is not assigned on some path")
            return f"Ok ({'true' if st.used else 'false'}, {st.trail if st.trail is not None else '0'})"
        s, rest = stmts[0], stmts[1:]
        if isinstance(s, ast.Pass):
            return self.run(rest, st)
        if isinstance(s, ast.Raise):
            if s.exc is not None and isinstance(s.exc, ast.Call) and ast.unparse(s.exc.func) in ("LaspyException", "errors.LaspyException"):
                return "Err ELaspy"
            raise Untranslatable(f"raise {ast.unparse(s)[:60]}")
        if isinstance(s, ast.If):
            t = self.test(s.test, st)
            a = self.run(list(s.body) + rest, st.copy())
            b = self.run(list(s.orelse) + rest, st.copy())
            return f"(if {t}\n   then {a}\n   else {b})"
        if isinstance(s, ast.Try):
            if s.finalbody or len(s.handlers) != 1 or len(s.body) != 1:
                raise Untranslatable("try shape")
            h = s.handlers[0]
            if h.type is None or ast.unparse(h.type) != "IndexError" or h.name is not None:
                raise Untranslatable("except clause is not `except IndexError`")
            b = s.body[0]
            if not (isinstance(b, ast.Assign) and len(b.targets) == 1 and isinstance(b.targets[0], ast.Name)):
                raise Untranslatable("try body is not one assignment")
            v = self.strip_cast(b.value)
            if ast.unparse(v) not in ("header._vlrs.get('ExtraBytesVlr')[0]", "header.vlrs.get('ExtraBytesVlr')[0]"):
                raise Untranslatable(f"try body {ast.unparse(v)[:80]}")
            if st.hv is not None:
                raise Untranslatable("the Extra Bytes VLR is looked up twice")
            yes, no = st.copy(), st.copy()
            yes.hv, yes.vlr_var = True, b.targets[0].id
            no.hv = False
            a = self.run(list(s.orelse) + rest, yes)
            c = self.run(list(h.body) + rest, no)
            return f"(if has_vlr\n   then {a}\n   else {c})"
        if isinstance(s, ast.For):
            if not (st.hv is True and not st.used and st.trail is None and not s.orelse and isinstance(s.target, ast.Name) and len(s.body) == 1
                    and ast.unparse(s.iter) == f"{st.vlr_var}.type_of_extra_dims()"
                    and ast.unparse(s.body[0]) == f"point_format.add_extra_dimension({s.target.id})"):
                raise Untranslatable(f"for loop {ast.unparse(s)[:80]}")
            st = st.copy()
            st.used = True
            st.terms.append("described")
            return self.run(rest, st)
        if isinstance(s, ast.Assign) and len(s.targets) == 1:
            tgt = ast.unparse(s.targets[0])
            if tgt == "header._point_format" and ast.unparse(s.value) == "point_format":
                st = st.copy()
                st.assigned = True
                return self.run(rest, st)
            if isinstance(s.targets[0], ast.Name) and tgt not in ("point_format", "point_size", "header"):
                st = st.copy()
                st.env[tgt] = self.zexpr(s.value, st)
                return self.run(rest, st)
            raise Untranslatable(f"assignment {ast.unparse(s)[:80]}")
        if isinstance(s, ast.Expr) and isinstance(s.value, ast.Call):
            f = ast.unparse(s.value.func)
            if f.startswith("logger."):
                return self.run(rest, st)
            if f in ("header._vlrs.extract", "header.vlrs.extract") and st.hv is True and not st.used \
                    and len(s.value.args) == 1 and isinstance(s.value.args[0], ast.Constant) and s.value.args[0].value == "ExtraBytesVlr":
                return self.run(rest, st)     # the ignored VLR is dropped from the list (VLR identity is C08's)
            if f == "point_format.dimensions.append" and len(s.value.args) == 1 and isinstance(s.value.args[0], ast.Call) \
                    and ast.unparse(s.value.args[0].func) in ("dims.DimensionInfo", "DimensionInfo"):
                if st.trail is not None:
                    raise Untranslatable("two dimensions of undocumented bytes on one path")
                st = st.copy()
                e, w = self.trailing_dim(s.value.args[0], st)
                st.trail = e
                st.terms.append(e if w == 1 else f"({w} * {e})")
                return self.run(rest, st)
        if isinstance(s, ast.Expr) and isinstance(s.value, ast.Constant) and isinstance(s.value.value, str):
            return self.run(rest, st)
        raise Untranslatable(f"statement {ast.unparse(s)[:80]}")


def gen_resolve(o, repo):
    def thunk():
        mod = py2v.parse(repo, "laspy/header.py")
        fn = py2v.find_func(py2v.find_class(mod, "LasHeader"), "read_from")
        body = list(fn.body)
        start = [i for i, s in enumerate(body) if isinstance(s, ast.Assign) and ast.unparse(s.targets[0]) == "point_format"]
        end = [i for i, s in enumerate(body) if isinstance(s, ast.If) and ast.unparse(s.test) == "read_evlrs"]
        if len(start) != 1 or len(end) != 1 or not start[0] < end[0]:
            raise Untranslatable("read_from: cannot delimit the block that builds the point format")
        if ast.unparse(body[start[0]].value) != "PointFormat(point_format_id)":
            raise Untranslatable(f"point_format = {ast.unparse(body[start[0]].value)[:60]}")
        ps = [n for n in ast.walk(fn) if isinstance(n, ast.Assign) and any(ast.unparse(t) == "point_size" for t in n.targets)]
        if len(ps) != 1 or "stream.read" not in ast.unparse(ps[0].value):
            raise Untranslatable("point_size is not read exactly once from the stream")
        for s in body[:start[0]] + body[end[0]:]:
            for n in ast.walk(s):
                if isinstance(n, ast.Name) and n.id == "point_format":
                    raise Untranslatable("point_format is used outside the translated block")
        for s in body[end[0]:]:
            if "_point_format" in ast.unparse(s):
                raise Untranslatable("header._point_format is touched after the translated block")
        r = _Resolve()
        text = r.run(body[start[0] + 1:end[0]], _St())
        if len(r.trailing_dims) > 1:
            raise Untranslatable(f"several shapes of the undocumented-bytes dimension: {sorted(r.trailing_dims)}")
        name, kind, w = sorted(r.trailing_dims)[0] if r.trailing_dims else ("ExtraBytes", "u", 1)
        return ("(* laspy/header.py LasHeader.read_from, the block that builds the point format of the file *)\n"
                "Definition resolve_record (point_size std described : Z) (has_vlr : bool) : result (bool * Z) :=\n  " + text + ".\n\n"
                f"Definition trailing_dim : string * string * Z := ({qs(name)}, {qs(kind)}, {int(w)}).\n")
    o.add("resolve_record", thunk)


_gen0 = gen


def gen(repo):  # noqa: F811
    o = _gen0(repo)
    gen_resolve(o, repo)
    return o


TARGETS = {"GenC02.v": gen}
