#!/venv/bin/python
"""Writes MANIFEST.json from the table below (kept in one place so it is always valid)."""
import json, os
HERE = os.path.dirname(os.path.dirname(os.path.abspath(__file__)))
ALL = [f"C{i:02d}" for i in range(1, 21)]
BASE_NOTE = ("Trusted: Coq 8.16.1 kernel (vm_compute for finite sweeps, no native_compute), no axioms declared "
             "(Print Assumptions per theorem is checked on every run), tools/py2v.py translator, ExtrOcamlBasic extraction + "
             "ocaml/driver.ml, the Python correspondence harness; CPython/numpy behaviour is modelled, not verified.")
CLAIMED = {
 "C14": dict(
   text="Theorems universally quantified over backends satisfying a contract (`conforming B`: decode(encode rs) = rs from any position, chunked feeding = one-shot, "
        "seek-then-read = skipn, the appender continues a stream, what follows the stream is recoverable, serial variant always constructs) - no axiom, and the contract is "
        "proved satisfiable by a witness backend: whole-file, chunked-write, cursor (seek/read histories), non-seekable-with-fallback and append reads of the compressed file "
        "equal those of the uncompressed file of the same data; the decision code translated from LasWriter.__init__ / open_las / LasData.write equals the documented rule "
        "(explicit do_compress wins, else .laz case-insensitively for a path, else backend given); compressed-bit functions swept over all ids; LasZip-record discipline as an "
        "invariant over write/open/touch/append histories (exactly one in a compressed file, hidden after read, never leaked or duplicated). Harness: fake_lazrs LAZ vs LAS.",
   design="5/C14", technique="Coq proof: transparency under an abstract backend contract (Section hypotheses closed into forall), translated decision functions, VLR-discipline invariant; fake backend differential",
   note=BASE_NOTE + " partial: the real lazrs/laszip codecs are absent and not modelled - the property is conditional on the contract; one open known finding (empty LAZ + EVLRs + non-seekable source)."),
 "C08": dict(
   text="Theorems: any well-formed (E)VLR list is read back equal and in order (induction over the list; user id and description are fixed-width NUL-padded "
        "fields - the record-header layouts extracted from VLRList.write_to/read_from equal the 54/60-byte specification layouts), an oversize VLR payload is refused; "
        "the known-type dispatch table dumped from the running module selects, for every user id and every 16-bit record id, the class the specification names; for "
        "each known type (classification lookup, extra bytes, waveform descriptor, GeoKey directory, GeoDouble, GeoAscii, WKT x2) parse-after-serialise is stable, byte "
        "identity holds on the normal forms, a failing parser keeps the raw record; read-write-read of parsed lists is stable. Correspondence through real files.",
   design="5/C08", technique="Coq proof: list codec round trip by induction, per-type parse/serialise algebra, complete sweep of the dispatch table; real files vs extracted model",
   note=BASE_NOTE + " 'decodable' is modelled as all bytes < 128; header-owned LASF_Spec/4 and writer-popped LasZip records are exercised as EVLRs / through VLRList directly."),
 "C10": dict(
   text="Theorems: the sub-field fast-path comparisons (<, <=, >, >= on the masked un-shifted byte against the shifted constant) equal numpy's comparison of "
        "the field values for EVERY integer constant (any sign, magnitude, numpy integer width) - byte sweep over the generated masks plus monotonicity of "
        "the shift; every operator a view class does not answer itself is a pure delegation to np.array(view) (operator routing, _do_comparison, max/min routes "
        "and the __getitem__ branch list are read from the AST each run); for scaled views over integer grids with per-element scales, index-then-materialise = "
        "materialise-then-numpy-index for all listed index forms and any chain of them, first-level results are values or well-formed views, min/max agree with "
        "numpy under a monotone scaling. Correspondence/oracle: ~200k expressions E(view) vs E(np.array(view)) per run.",
   design="5/C10", technique="Coq proof: byte sweep + shift monotonicity; structural delegation table from the AST; index/materialise commutation by induction; expression differential vs numpy",
   note=BASE_NOTE + " numpy itself is the oracle for delegated operators; positive finite scales; index forms limited to those the property lists."),
 "C11": dict(
   text="Theorems over exact rationals: present (store v) is within s/2 of v, the stored integer is the nearest one, checked store/rescale return Ok X iff X is the "
        "rounded quotient and fits in 32 bits, else EOverflow; over a round-to-nearest-even binary64 model written in Gallina over Z/Q: the same no-wrap characterisation "
        "and a half-ulp bound per operation; over histories with an aliasing heap of scale/offset arrays (header replace / in-place edit, x/y/z and xyz assignment, "
        "change_scaling, write, streaming into a writer of another scaling): the file carries the header's scaling, its integers are the record's or the rescaled ones and "
        "always fit, failure is OverflowError only, and the caller's record is unchanged in every case. Guards and shapes are regenerated from the source each run.",
   design="5/C11", technique="Coq proof: rational rounding lemmas, Gallina binary64 rounding model, invariant over aliasing histories; extracted model bit-exact vs numpy",
   note=BASE_NOTE + " partial: the composed binary64 half-step bound (1/2 + |q| 2^-51 steps) is measured by the oracle, not proved; scales in [1e-9, 1e3], |offset| <= 1e9."),
 "C15": dict(
   text="Theorems over a model of the COPC traversal and query (key/child/bounds/overlap arithmetic, clip bounds and keep test translated from copc.py each run): on "
        "well-formed octrees with enough fuel the traversal returns a permutation of exactly the nodes of the selected levels whose cube overlaps the box (touching "
        "faces included), the query the multiset of their points passing rint(q0) <= X <= rint(q1) (at most half a step outside, everything inside kept, 2-D boxes take z "
        "from the header), an enclosing box of any size returns everything, resolution selects levels 0..L with L least such that spacing/2^L <= resolution, a page that does "
        "not describe the referenced node is ELaspy, empty interior nodes do not prune, and #references + 8 #nodes + 1 steps always suffice (termination, well-formed or not); "
        "chunk grouping decodes in offset order. Harness builds COPC files in memory (fake_lazrs) and compares with the model and a brute-force filter.",
   design="5/C15", technique="Coq proof: traversal invariant + decreasing measure, multiset (Permutation) reasoning, exact-arithmetic box filter; built COPC files vs CopcReader",
   note=BASE_NOTE + " partial: float rounding of cube bounds and math.log2 are not modelled (generated octrees are dyadic); real lazrs decoding replaced by a conforming stand-in."),
 "C16": dict(
   text="Theorems over a transition system whose worker and main programs are EXTRACTED from HttpFetcherThread.run / http_queue_strategy / the executor strategy on "
        "every run: for all schedules, any number of ranges and workers - with no failing request main returns the offset-sorted concatenation (= the local read), a "
        "failing request makes main raise, every worker has exited, no reachable non-final state is stuck, a measure strictly decreases (termination, explicit step bound); "
        "the executor's outcome is a function of the request alone and the pool is joined; regression witnesses: the old test-then-blocking-take loop, a shared stream and "
        "completion-order assembly each have a schedule that deadlocks / returns wrong bytes. Harness: schedule replay of the real threads under a controller.",
   design="5/C16", technique="Coq proof: invariant + progress + measure over all interleavings of a transition system generated from the source; schedule replay on real threads",
   note=BASE_NOTE + " partial: the OS scheduler, sockets, requests, stdlib queue/futures internals are modelled by their documented blocking semantics; at least one worker."),
 "C17": dict(
   text="Theorems over a model of the access paths (source = bytes + capabilities, with a call log): for files whose EVLRs are adjacent to the last point (every file "
        "laspy writes - proved from file_of) the result of reading is independent of seekability, readinto, read_evlrs and whole/chunked reading, equals read_file, zero-point "
        "files included; a non-seekable source's log never contains Seek/Tell for ANY byte string; the memory map shows the same result and an assignment through it changes "
        "only the bytes of the assigned field of the addressed point, visible to a later read. Prefetch constants and statement shapes are regenerated from the source.",
   design="5/C17", technique="Coq proof: equivalence of reader paths over capability-indexed sources with call logs; locality of positioned writes; seven source kinds vs laspy",
   note=BASE_NOTE + " partial: OS mmap write-back not modelled; compressed sources belong to C14 (one open known finding: empty LAZ + EVLRs + non-seekable)."),
 "C02": dict(
   text="Theorems: for all 11 point formats the layout dumped from the running module (names, byte offsets, widths, kinds, bit ranges of every "
        "sub-field) equals the layout typed in from the ASPRS tables (Spec/AsprsPoints.v), record lengths 20/28/26/34/57/63/30/36/38/59/67 plus "
        "extra bytes for ANY descriptor list, extra-dimension type table 1..30, 192-byte descriptor, public header block and 54/60-byte (E)VLR "
        "headers (field sequences extracted from write_to/read_from) equal the specification's; a generic field/bit-field record codec with both "
        "round trips by induction over the layout, instantiated both ways (specification decoder reads what the laspy-layout encoder wrote and vice "
        "versa). The extracted SPEC codec is the independent reference run against laspy in both directions on whole files.",
   design="5/C02", technique="Coq proof: generated layouts = specification layouts by computation; generic layout codec round trips by induction; extracted spec codec vs laspy",
   note=BASE_NOTE + " The transcription of the ASPRS PDF tables into Spec/*.v is a review item (trusted)."),
 "C12": dict(
   text="Theorems over a model of laspy.convert built on the generated tables, for all 11 x 11 format pairs, any number of points with any contents, "
        "explicit or implicit target version: count, X/Y/Z, every common dimension (plain or bit-packed on either side), extra dimensions (descriptors and "
        "raw bytes), VLRs and the EVLR rule are preserved; the version is the requested one or max(current, preferred), never lowered, always compatible; "
        "an incompatible request is ELaspy; a value exceeding the narrower target field is EOverflow (never truncation) and conversely fitting values "
        "always succeed; the lost list is exactly the source dimensions absent from the target. Correspondence over all 121 pairs x versions.",
   design="5/C12", technique="Coq proof: induction over target dimension lists on generated tables; extracted model vs laspy.convert on all pairs",
   note=BASE_NOTE + " Source immutability / aliasing are harness-side snapshots; extra-dimension names may clash with standard, sub-field, alias and coordinate names (modelled since round 5; the field names of one record are pairwise distinct, which numpy guarantees)."),
 "C13": dict(
   text="Invariant theorem over arbitrary histories of Add / Remove / Assign / RoundTrip: every dimension not named by an operation keeps its raw bytes, "
        "record length = standard + extra sizes, the extra-bytes VLR occurs exactly once (iff there are extra dimensions) with descriptors that decode to "
        "exactly the current dimensions in order, other VLRs untouched, failed operations (standard / unknown / repeated name anywhere in the list) change "
        "nothing; 192-byte descriptor codec round trip for the 30 types, scaled or not, and opaque arrays of 4..255 bytes; write/read round trip of the state. "
        "The descriptor layout, masks and getters are extracted from the source each run. Correspondence after every step of random histories.",
   design="5/C13", technique="Coq proof: state-machine invariant by induction over operation histories + descriptor codec round trip; extracted model vs laspy per step",
   note=BASE_NOTE + " numpy dtype layout and ctypes are compared, not modelled."),
 "C18": dict(
   text="Theorems over an ownership state machine whose skeleton (except classes and close actions of open_las per mode, closefd stored by each "
        "constructor, the five close methods, __exit__, the lazily created point source incl. the null reader, LasData.write's closefd constant) is "
        "regenerated from the source on every run: for every event history, whenever laspy lets go of a stream it was given, closed <-> closefd (normal exit, "
        "explicit close, body raising, failed open with Laspy and non-Laspy exceptions); LasData.write never closes; after a successful open for reading the "
        "position is offset_to_point_data with or without EVLR preloading. Correspondence: full scenario matrix enumerated each run + random histories.",
   design="5/C18", technique="Coq proof: invariant over event histories of a generated ownership state machine; exhaustive scenario matrix vs laspy",
   note=BASE_NOTE + " Uncompressed only; mode 'w' on a non-seekable destination is refused by an assert before the stream is taken (stated separately)."),
 "C19": dict(
   text="Theorems over the lenient reader model (short reads return fewer bytes, exactly like Python streams): truncation_safe — every truncation of "
        "a valid file at ANY byte is refused or read as a prefix of the stored points; crash_safe (Proofs/CrashProofs.v) — every crash image of the "
        "writer's low-level write trace (after any number of writes, the next one torn at any byte, including inside the in-place header rewrite, "
        "where a torn little-endian count never exceeds the new count) is refused or read as a prefix; crash_safe_append (Proofs/CrashAppendProofs.v) — "
        "the same for every crash image of an append session on an existing file (chunk writes over the old EVLRs, EVLRs, in-place header rewrite; a "
        "torn count lies between 0 and the new count); termination by structural recursion on the bytes. "
        "The write discipline the theorems assume is checked on traces recorded from LasData.write, chunked LasWriter and LasAppender sessions; "
        "correspondence: the extracted reader vs laspy.read on every image.",
   design="5/C19", technique="Coq proof: lenient codec lemmas + torn little-endian counter lemma over a write-trace model; extracted reader vs laspy on crash images",
   note=BASE_NOTE + " OS write atomicity beyond byte-granular tearing is not modelled; compressed appends are covered through the C14 backend contract only."),
 "C01": dict(
   text="Theorem read_write_roundtrip over the Gallina file model: for every version 1.1-1.4, any record length, ANY record bytes, any count "
        "(0 and 1 included), any well-formed VLR/EVLR lists, reading the written file returns the records byte for byte, the VLRs, the EVLRs, the "
        "count and every header field; rewrite_idempotent (writing what was read gives the same file). Layouts of the model are regenerated "
        "from write_to/read_from each run. Correspondence: bytes of LasData.write vs file_of, laspy.read vs read_file, over destinations "
        "BytesIO/stream/path; oracle: round trip, idempotence, deep non-mutation snapshot (incl. rescale-on-write).",
   design="5/C01", technique="Coq proof: composition of header/VLR codec round trips with list surgery on the point block; extracted model vs laspy bytes",
   note=BASE_NOTE + " numpy's packed dtype image = concatenation of fields is checked, not proved; the caller-object immutability is an implementation-side oracle."),
 "C07": dict(
   text="Theorems: header codec round trip for every field in its domain (dec_enc_header), exact header size 227/227/235/375 + extra bytes, "
        "offset = size + VLR bytes + padding, written length = offset, in-place rewrite keeps the offset or is refused, fixed-width strings of every "
        "length 0..32, day-of-year calendar round trip for every date 0001-01-01..9999-12-31 (finite sweep over leap flag x month x day lifted), and an "
        "invariant over arbitrary histories of constructor/setter/create/convert/open-writer calls: the (version, format) pair is always compatible. "
        "Field sequences are extracted from write_to/read_from and tables dumped from the running module on every run.",
   design="5/C07", technique="Coq proof: generic layout codec lemma + per-version computation; invariant by induction over API histories; finite calendar sweep",
   note=BASE_NOTE + " struct.pack('<d') and datetime are modelled (bit patterns / proleptic Gregorian day-of-year), compared with CPython on every run."),
 "C09": dict(
   text="Theorems over masks dumped from the running COMPOSED_FIELDS and the translated least_significant_bit_set: complete vm_compute sweep of every "
        "(format, sub-field) x 256 prior bytes x every in-range value (read-back, byte range, bits outside the mask, every sibling field) lifted to forall; "
        "unbounded refusal of too-large and negative values; array-level theorems by induction over arbitrary selections with repetitions "
        "(untouched, isolated, last value reads back). Correspondence: exhaustive per element through real PackedPointRecords plus random index expressions.",
   design="5/C09", technique="Coq proof: exhaustive vm_compute sweep lifted by forallb lemmas + list induction; exhaustive correspondence",
   note=BASE_NOTE + " numpy's resolution of an index expression to positions is modelled (the model receives positions)."),
 "C03": dict(
   text="Theorems over the Gallina file model (Model/Las.v): the statistics the writer accumulates are exactly count, per-return histogram "
        "and scaled integer extrema of the whole point sequence (induction over records/chunks, grow_app), zero extrema for an empty cloud, "
        "offset = header size + VLR bytes + padding, file length = offset + count x record length + EVLR bytes, EVLR pointer exact, and "
        "a reader recovers those fields (header codec round trip). Correspondence: extracted model vs laspy on files of random writer and "
        "append sessions and on in-memory LasData after assignment/slicing/update_header; oracle recomputes everything from the bytes.",
   design="5/C03", technique="Coq proof: induction over chunks (statistics monoid), header codec round trip; extracted model vs laspy bytes",
   note=BASE_NOTE + " Float extrema: x -> x*scale+offset is a parameter `ap` assumed monotone/finite (ap_ok), implemented with OCaml binary64 in the driver."),
 "C04": dict(
   text="Refinement theorem writer_refines: for every accepted session of any number of chunks of any sizes (empty ones included), optional EVLRs "
        "and close, the destination bytes of the state machine wopen/wstep equal the pure one-shot file_of the concatenation; refusals "
        "(after finish, foreign format) leave the state unchanged; the final in-place header rewrite keeps the offset. Model layouts come from "
        "write_to/read_from on every run; correspondence compares destination bytes of random sessions.",
   design="5/C04", technique="Coq proof: refinement of a writer state machine to a pure file function by induction over the op list",
   note=BASE_NOTE + " Uncompressed only (compressed half: C14). A second write_evlrs / write_evlrs after close is outside the property's histories."),
 "C06": dict(
   text="Theorems over the appender model (aopen/apoints/aclose): append sessions on the one-shot file of A with chunks Bs produce byte for byte the "
        "one-shot file of A ++ concat Bs, sessions compose, foreign formats and empty chunks leave the state unchanged (Proofs/AppendProofs.v). "
        "Correspondence: extracted appender vs LasAppender bytes over 1..3 sessions; oracle: appended file == LasWriter(original points + chunks), "
        "caller's record untouched, differently scaled scale-aware records keep their coordinates.",
   design="5/C06", technique="Coq proof: appender state machine refines file_of via header codec round trip and statistics monoid; extracted model vs laspy bytes",
   note=BASE_NOTE + " Rescaling of differently scaled records is checked on the implementation against the writer (C11 proves the rule); LAZ append is C14."),
 "C05": dict(
   text="Refinement theorem by induction over operation histories of any length: the Gallina translation of LasReader.read_points/seek "
        "(regenerated from the source on every run) produces the outputs of the abstract cursor of the property, every returned slice lies in "
        "[0, count], and the point source always stands where the cursor says. Correspondence: real files x random histories, records "
        "compared byte-wise with the model's slices; chunk iterators kept alive across seeks.",
   design="5/C05", technique="Coq proof: simulation between translated cursor arithmetic and an abstract cursor spec, by induction over histories",
   note=BASE_NOTE + " The byte-level point source (read_n_points/seek of UncompressedPointReader) is covered by the correspondence only; compressed sources are C14."),
 "C20": dict(
   text="Theorems over the Gallina translation of header.GlobalEncoding regenerated from the source on every run: complete "
        "vm_compute sweep of all 65,536 values x 5 flags x both targets lifted to forall v < 65536 (read-back, no other bit "
        "changes, independence), and induction over assignment histories of any length. Correspondence: the generated "
        "functions vs the real class exhaustively, plus the field through LasHeader.write_to/read_from.",
   design="5/C20", technique="Coq proof: exhaustive vm_compute sweep lifted by forallb lemma + induction over histories; model regenerated by py2v",
   note=BASE_NOTE + " Setters assumed to be called with bool/0/1."),
}
# what later rounds added to a property's check (models, theorems, harness classes); appended to the claim text
ADDED = {}
try:
    exec(open(os.path.join(HERE, "tools", "mkmanifest_added.py")).read())
except FileNotFoundError:
    pass


def theorem_names(pid):
    import re
    try:
        src = open(os.path.join(HERE, "coq", "Props", pid + ".v")).read()
    except OSError:
        return []
    return [n for k, n in re.findall(r"^(Theorem|Lemma|Corollary)\s+([A-Za-z0-9_']+)", src, flags=re.M)]


checks = []
for pid in ALL:
    if pid in CLAIMED:
        c = dict(CLAIMED[pid])
        names = theorem_names(pid)
        c["text"] = c["text"] + (" " + ADDED[pid] if pid in ADDED else "") + f" [{len(names)} theorems in coq/Props/{pid}.v: " + ", ".join(names) + "]"
        checks.append({
            "property_id": pid,
            "quick_cmd": f"./check {pid} --tier quick",
            "thorough_cmd": f"./check {pid} --tier thorough",
            "evidence_file": f"/verif/evidence/{pid}.json",
            "replay_cmd_template": f"./check {pid} --replay {{path}}",
            "engine": "coq-proof+correspondence",
            "level_claimed": {"category": "proof", "text": c["text"], "design_ref": c["design"]},
            "level_note": c["note"],
            "technique": c["technique"],
        })
m = {
 "version": 1,
 "setup_cmd": "./setup.sh",
 "hooks": {"guard": "LASPY_VERIF", "enable": "no source hooks exist; checks export LASPY_VERIF=1 (read by no source line) and import laspy from /repo's working tree",
           "baseline_off_cmd": "cd /repo && /venv/bin/python -m pytest -ra -q -p no:cacheprovider --timeout=900 --continue-on-collection-errors",
           "source_commits": [], "add_only": True},
 "engines": [{"name": "coq-proof+correspondence", "path": "/verif/check", "serves_properties": sorted(CLAIMED),
              "kind_free_text": "Coq 8.16 theorems over a Gallina model (partly regenerated from the source by tools/py2v.py), extracted OCaml model run against laspy on the same inputs, property oracle search for a failing input"}],
 "checks": checks,
 "not_applicable": [{"property_id": p, "reason": "not claimed: no check built"} for p in ALL if p not in CLAIMED],
 "notes": "fix: commits in /repo are recorded in known_findings.json. See DESIGN.md.",
}
with open(os.path.join(HERE, "MANIFEST.json"), "w") as f:
    json.dump(m, f, indent=1)
print("claimed:", sorted(CLAIMED))
