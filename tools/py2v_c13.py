"""py2v plugin for property C13: the extra-bytes descriptor of laspy/vlrs/known.py -> Gen/GenExtraBytes.v.

 (a) table dump from the running module: the ctypes `_fields_` of ExtraBytesStruct as a Lib.Layout `layout`
     (packed, contiguous; c_char arrays are strings cut at the first NUL, c_double arrays are split into one
     8-byte field per element), sizeof, the scale/offset option bits, identity and description of ExtraBytesVlr;
 (b) function translation (fail closed): ExtraBytesStruct.num_elements, and the guards of the `scale` / `offset`
     getters (the test of the single `if` whose body returns the stored array and whose fall-through returns None).
     Normalisations (ROBUST2): a getter that is nothing but a tail call `return self._helper(..)` of a method that did not exist when
     this reader was written is read as that helper's body with the arguments substituted (early returns of the helper are the
     getter's: py2v's own normal form does not inline helpers with inner returns); getattr(obj, "literal") is obj.literal.
"""
import ast
import ctypes
import sys

import py2v
from py2v import Fn, Out, Untranslatable, find_class, find_func, int_consts, parse


def qs(x):
    return '"' + x + '"%string'


def gen_extra_bytes(repo):
    o = Out("laspy/vlrs/known.py classes ExtraBytesStruct, ExtraBytesVlr (ctypes layout of the running module; num_elements, scale/offset guards from the AST)")
    o.text = o.text.replace("From LasV Require Import Lib.Base.", "From LasV Require Import Lib.Base Lib.Layout.")
    sys.path.insert(0, repo)
    for m in [k for k in sys.modules if k == "laspy" or k.startswith("laspy.")]:
        del sys.modules[m]
    import importlib
    known = importlib.import_module("laspy.vlrs.known")
    S = known.ExtraBytesStruct

    def layout():
        rows = []
        pos = 0
        for name, ct in S._fields_:
            desc = getattr(S, name)
            if desc.offset != pos:
                raise Untranslatable(f"field {name} at offset {desc.offset}, expected {pos} (padding?)")
            size = ctypes.sizeof(ct)
            if desc.size != size:
                raise Untranslatable(f"field {name}: bit-field or odd size")
            if ct is ctypes.c_uint8:
                rows.append(("KUInt", 1, name))
            elif issubclass(ct, ctypes.Array) and ct._type_ is ctypes.c_char:
                rows.append(("KStr", size, name))
            elif issubclass(ct, ctypes.Array) and ct._type_ is ctypes.c_double:
                for i in range(ct._length_):
                    rows.append(("KF64", 8, f"{name}[{i}]"))
            elif issubclass(ct, ctypes.Array) and ct._type_ in (ctypes.c_uint8, ctypes.c_byte):
                rows.append(("KBytes", size, name))
            elif (issubclass(ct, ctypes.Array) and issubclass(ct._type_, ctypes.Array)
                  and ct._type_._type_ in (ctypes.c_uint8, ctypes.c_byte)):
                rows.append(("KBytes", size, name))
            else:
                raise Untranslatable(f"field {name}: ctype {ct!r}")
            pos += size
        if pos != ctypes.sizeof(S):
            raise Untranslatable(f"sizeof {ctypes.sizeof(S)} != sum of fields {pos}")
        if getattr(S, "_swappedbytes_", None) is not None and sys.byteorder == "little":
            raise Untranslatable("big-endian structure")
        body = "; ".join(f"({k}, {w}%nat, {qs(n)})" for k, w, n in rows)
        return f"Definition eb_layout : layout := [{body}].\n"
    o.add("eb_layout", layout)

    def consts():
        out = [f"Definition eb_struct_size : Z := {ctypes.sizeof(S)}."]
        out.append(f"Definition eb_scale_mask : Z := {int(S.SCALE_BIT_MASK)}.")
        out.append(f"Definition eb_offset_mask : Z := {int(S.OFFSET_BIT_MASK)}.")
        V = known.ExtraBytesVlr
        uid = V.official_user_id().encode("ascii")
        rids = list(V.official_record_ids())
        if len(rids) != 1:
            raise Untranslatable(f"ExtraBytesVlr record ids {rids}")
        v = V()
        desc = v.description
        desc = desc.encode("ascii") if isinstance(desc, str) else bytes(desc)
        out.append("Definition eb_vlr_user_id : list Z := [" + "; ".join(str(b) for b in uid) + "].")
        out.append(f"Definition eb_vlr_record_id : Z := {int(rids[0])}.")
        out.append("Definition eb_vlr_description : list Z := [" + "; ".join(str(b) for b in desc) + "].")
        return "\n".join(out) + "\n"
    o.add("eb_consts", consts)

    mod = parse(repo, "laspy/vlrs/known.py")

    def cls():
        return find_class(mod, "ExtraBytesStruct")

    def num_elements():
        c = cls()
        fn = Fn({}, int_consts(c), state=["data_type", "options"])
        return fn.function(find_func(c, "num_elements"), "eb_num_elements", [], result="Z")[0]
    o.add("eb_num_elements", num_elements)

    class _GetattrConst(ast.NodeTransformer):
        """getattr(obj, "name") with a literal name is obj.name"""
        def visit_Call(self, node):
            node = self.generic_visit(node)
            if (isinstance(node.func, ast.Name) and node.func.id == "getattr" and len(node.args) == 2 and not node.keywords
                    and isinstance(node.args[1], ast.Constant) and isinstance(node.args[1].value, str) and node.args[1].value.isidentifier()):
                return ast.copy_location(ast.Attribute(value=node.args[0], attr=node.args[1].value, ctx=ast.Load()), node)
            return node

    def getter_body(c, f):
        """the statements of a getter without docstring.  A getter that is nothing but a TAIL CALL of a method of the class that did
        not exist when this reader was written (`return self._helper(<literal / self.CONST>, ..)`) is read as the body of that helper
        with the parameters replaced by the arguments: the value of the call is returned as it is, so early returns inside the
        helper are the getter's returns (py2v's own normal form leaves helpers with inner returns alone).  Resolution, argument
        binding and the side-effect-freeness of the arguments are py2v.Inliner.resolve's; one level only; anything else is left as
        written and then fails closed below."""
        body = [s for s in f.body if not (isinstance(s, ast.Expr) and isinstance(s.value, ast.Constant))]
        if (len(body) == 1 and isinstance(body[0], ast.Return) and isinstance(body[0].value, ast.Call)
                and isinstance(body[0].value.func, ast.Attribute) and isinstance(body[0].value.func.value, ast.Name)
                and body[0].value.func.value.id == "self" and body[0].value.func.attr not in py2v.KNOWN_FUNCTIONS):
            import copy
            r = py2v.Inliner(repo, "laspy/vlrs/known.py", mod, c, py2v.KNOWN_FUNCTIONS).resolve(body[0].value)
            if r is not None:
                target, hbody, bound, _ = r
                if not target.decorator_list and not any(isinstance(n, (ast.Yield, ast.YieldFrom, ast.Global, ast.Nonlocal, ast.FunctionDef, ast.Lambda))
                                                         for s_ in hbody for n in ast.walk(s_)):
                    body = [py2v._Subst(bound).visit(copy.deepcopy(s_)) for s_ in hbody]
        return [ast.fix_missing_locations(_GetattrConst().visit(s_)) for s_ in body]

    def guard(prop, gname, stored):
        def t():
            c = cls()
            f = find_func(c, prop, "property")
            body = getter_body(c, f)
            ok = (len(body) == 2 and isinstance(body[0], ast.If) and not body[0].orelse
                  and len(body[0].body) == 1 and isinstance(body[0].body[0], ast.Return)
                  and ast.unparse(body[0].body[0].value) == f"self.{stored}"
                  and isinstance(body[1], ast.Return) and isinstance(body[1].value, ast.Constant)
                  and body[1].value.value is None)
            if not ok:
                raise Untranslatable(f"getter {prop}: not `if <guard>: return self.{stored}` / `return None`")
            fn = Fn({"self_data_type": "Z", "self_options": "Z"}, int_consts(c), state=["data_type", "options"])
            txt, ty = fn.expr(body[0].test)
            txt = fn.as_bool(txt, ty)
            return f"Definition {gname} (self_data_type : Z) (self_options : Z) : bool :=\n  {txt}.\n"
        return t
    o.add("eb_has_scale", guard("scale", "eb_has_scale", "_scale"))
    o.add("eb_has_offset", guard("offset", "eb_has_offset", "_offset"))
    return o


TARGETS = {"GenExtraBytes.v": gen_extra_bytes}
