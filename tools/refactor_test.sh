#!/bin/bash
# refactor_test.sh [outdir] [parallel]: apply each behaviour-preserving refactoring <outdir>/<k>/patch.diff (default /tmp/mut_refactor_out) to its
# own scratch worktree /tmp/mut_refactor_w<k> and run every quick check against it; any VIOLATION is a false alarm (or reveals that the
# refactoring is not behaviour preserving). Worktrees and private build copies are removed afterwards. Results: /var/tmp/refactor_results/<name>.txt
OUT=${1:-/tmp/mut_refactor_out}
PAR=${2:-3}
NAME=$(basename $OUT)
mkdir -p /var/tmp/refactor_results
RES=/var/tmp/refactor_results/$NAME.txt
: > $RES
one() {
  k=$1; OUT=$2; RES=$3
  WT=/tmp/mut_refactor_w$k
  git -C /repo worktree remove --force $WT 2>/dev/null; rm -rf $WT
  git -C /repo worktree add -q --detach $WT main || { echo "refactor $k: no worktree" >> $RES; return; }
  if ! git -C $WT apply $OUT/$k/patch.diff; then echo "refactor $k: patch does not apply" >> $RES
  else
    for i in 01 02 03 04 05 06 07 08 09 10 11 12 13 14 15 16 17 18 19 20; do
      out=$(cd /verif && VERIF_REPO=$WT timeout 1800 ./check C$i 2>&1 | grep -v "^KNOWN" | grep -v "^WARNING" | tail -2)
      case "$out" in *"exit=0"*) ;; *) echo "refactor $k C$i: $(echo "$out" | tr '\n' ' ' | cut -c1-300)" >> $RES;; esac
    done
    echo "refactor $k done" >> $RES
  fi
  H=$(python3 -c "import hashlib,os;print(hashlib.sha1(os.path.realpath('$WT').encode()).hexdigest()[:10])")
  rm -rf /var/tmp/verif_alt_$H
  git -C /repo worktree remove --force $WT
}
export -f one
ls $OUT | grep -E '^[0-9]+$' | sort -n | xargs -P $PAR -I{} bash -c "one {} $OUT $RES"
sort -V $RES
