#!/bin/bash
# refactor_test.sh: apply each behaviour-preserving refactoring of /tmp/mut_refactor_out/<k>/patch.diff to the scratch worktree and run every
# quick check against it; any VIOLATION is a false alarm (or reveals that the refactoring is not behaviour preserving).
WT=/tmp/mut_refactor
for k in $(ls /tmp/mut_refactor_out | sort -n); do
  git -C $WT checkout -q -- . ; git -C $WT clean -fdq; git -C $WT checkout -q --detach main
  git -C $WT apply /tmp/mut_refactor_out/$k/patch.diff || { echo "refactor $k: patch does not apply"; continue; }
  for i in 01 02 03 04 05 06 07 08 09 10 11 12 13 14 15 16 17 18 19 20; do
    out=$(cd /verif && VERIF_REPO=$WT timeout 1800 ./check C$i 2>&1 | grep -v "^KNOWN" | tail -2)
    case "$out" in *"exit=0"*) ;; *) echo "refactor $k C$i: $(echo "$out" | tr '\n' ' ' | cut -c1-300)";; esac
  done
  echo "refactor $k done"
done
git -C $WT checkout -q -- .
