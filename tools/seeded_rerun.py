#!/venv/bin/python
"""seeded_rerun.py [-j N] [PID ...] — re-run the checks against every kept mutant as it stands in /verif/seeded/<dir>/patch.diff (ported
patches included; `superseded` ones skipped) on the CURRENT main of /repo, N in parallel, each worker in its own scratch worktree
/tmp/mut_rerun_<i> (removed at the end). Only the `check` block of meta.json is rewritten (+ `rechecked_at`). The demo / suite confirmation
is not repeated here (tools/seeded.py and the porting pass did that)."""
import glob, hashlib, json, os, subprocess, sys
from concurrent.futures import ThreadPoolExecutor
V = os.path.dirname(os.path.dirname(os.path.abspath(__file__)))
args = sys.argv[1:]
J = 5
if args[:1] == ["-j"]:
    J = int(args[1]); args = args[2:]
only = set(a.upper() for a in args)


def sh(cmd, **kw):
    p = subprocess.run(cmd, shell=True, stdout=subprocess.PIPE, stderr=subprocess.STDOUT, text=True, **kw)
    return p.returncode, p.stdout


main = sh("git -C /repo rev-parse --short main")[1].strip()
dirs = []
for d in sorted(glob.glob(os.path.join(V, "seeded", "C*-*"))):
    m = json.load(open(os.path.join(d, "meta.json")))
    if m.get("superseded") or m.get("not_a_violation"):
        continue
    pid = (m.get("check") or {}).get("property_checked") or m.get("property") or os.path.basename(d)[:3]
    if only and pid not in only and os.path.basename(d)[:3] not in only:
        continue
    if os.environ.get("ONLY_ROUND") and f"-r{os.environ['ONLY_ROUND']}-" not in os.path.basename(d):
        continue
    dirs.append((d, pid))
import queue
wts = queue.Queue()
for i in range(J):
    wt = f"/tmp/mut_rerun_{os.getpid()}_{i}"      # private to this invocation: several may run at once
    sh(f"git -C /repo worktree remove --force {wt}; rm -rf {wt}; git -C /repo worktree add -q --detach {wt} main")
    wts.put(wt)


def one(item):
    d, pid = item
    wt = wts.get()
    try:
        sh(f"git -C {wt} reset -q --hard main && git -C {wt} clean -fdq")
        rc, out = sh(f"git -C {wt} apply {d}/patch.diff")
        if rc != 0:
            return os.path.basename(d), "patch does not apply"
        rcc, oc = sh(f"cd {V} && timeout 2400 ./check {pid} --tier quick", env=dict(os.environ, VERIF_REPO=wt))
        viol = [l for l in oc.splitlines() if l.startswith("VIOLATION")]
        txt = ""
        work = "/var/tmp/verif_alt_" + hashlib.sha1(os.path.realpath(wt).encode()).hexdigest()[:10]
        if viol:
            rp = viol[0].split("replay=")[1].split()[0]
            try:
                dd = json.load(open(os.path.join(work, rp)))
                txt = json.dumps(dd.get("failing_input", dd.get("no_longer_checks")), default=str)[:600]
            except Exception as ex:
                txt = repr(ex)
        m = json.load(open(os.path.join(d, "meta.json")))
        m["check"] = {"property_checked": pid, "exit": rcc, "violation_lines": viol[:5], "detected": rcc == 1 and bool(viol),
                      "with_failing_input": bool(viol) and "no-failing-input-found" not in viol[0], "replay_excerpt": txt}
        m["rechecked_at"] = main
        json.dump(m, open(os.path.join(d, "meta.json"), "w"), indent=1)
        return os.path.basename(d), ("DETECTED" + ("" if m["check"]["with_failing_input"] else " (no-failing-input-found)")) if m["check"]["detected"] else f"MISSED rc={rcc}"
    finally:
        sh(f"git -C {wt} reset -q --hard main")
        wts.put(wt)


with ThreadPoolExecutor(J) as ex:
    for name, res in ex.map(one, dirs):
        print(name, res, flush=True)
while not wts.empty():
    wt = wts.get()
    sh("rm -rf /var/tmp/verif_alt_" + hashlib.sha1(os.path.realpath(wt).encode()).hexdigest()[:10])
    sh(f"git -C /repo worktree remove --force {wt}")
