#!/venv/bin/python
"""Writes the table of kept mutants (seeded/*/meta.json + seeded/revert_results.json) into DESIGN.md between the markers
<!-- SEEDED-TABLE-BEGIN --> and <!-- SEEDED-TABLE-END -->."""
import glob, json, os, re
V = os.path.dirname(os.path.dirname(os.path.abspath(__file__)))
rows = []
for d in sorted(glob.glob(os.path.join(V, "seeded", "C*-*"))):
    m = os.path.join(d, "meta.json")
    if not os.path.exists(m):
        continue
    j = json.load(open(m))
    c = j.get("check", {})
    summ = (j.get("summary") or "").replace("\n", " ").replace("|", "/")
    needs = (j.get("needs") or "").replace("\n", " ").replace("|", "/")
    how = "judged not a violation of the property as stated (check silent by design)" if j.get("not_a_violation") else "superseded by a later laspy repair (no longer breaks the property)" if j.get("superseded") else "VIOLATION with failing input" if c.get("with_failing_input") else ("VIOLATION no-failing-input-found" if c.get("detected") else "MISSED")
    viol = c.get("violation_lines") or []
    kind = ""
    if c.get("replay_excerpt"):
        mm = re.search(r'"kind": "([^"]+)"', c["replay_excerpt"])
        kind = mm.group(1) if mm else ""
    rows.append(f"| {os.path.basename(d)} | {c.get('property_checked', j.get('property'))} | {summ[:150]} | {needs[:110]} | {how}{' — ' + kind[:70] if kind else ''} |")
text = "| mutant | check | change | needs | outcome of `./check` (quick) |\n|---|---|---|---|---|\n" + "\n".join(rows) + "\n"
rp = os.path.join(V, "seeded", "revert_results.json")
if os.path.exists(rp):
    r = json.load(open(rp))
    text += "\nReverting each `fix:` commit in a scratch worktree (tools/revert_test.py):\n\n| fix | check | outcome |\n|---|---|---|\n"
    for k, v in sorted(r.items()):
        out = v.get("status") or ("detected" + (" with failing input" if v.get("with_failing_input") else " (no-failing-input-found)") if v.get("detected") else "MISSED")
        text += f"| {v['commit']} | {v['property']} | {out} |\n"
p = os.path.join(V, "DESIGN.md")
s = open(p).read()
b, e = "<!-- SEEDED-TABLE-BEGIN -->", "<!-- SEEDED-TABLE-END -->"
if b in s:
    s = s[:s.index(b) + len(b)] + "\n" + text + s[s.index(e):]
# findings table from known_findings.json
import re
ft = "| property | status | commit | what failed |\n|---|---|---|---|\n"
for f in json.load(open(os.path.join(V, "known_findings.json")))["findings"]:
    t = re.sub(r"^fixed: property=\S+ ", "", f["text"])
    t = re.sub(r"^[0-9a-f]{7} ", "", t)
    if len(t) > 230:
        t = t[:227] + "..."
    ft += f"| {f['property']} | {f['status']} | {f.get('commit', '-')} | {t} |\n"
b2, e2 = "<!-- FINDINGS-TABLE-BEGIN -->", "<!-- FINDINGS-TABLE-END -->"
if b2 in s:
    s = s[:s.index(b2) + len(b2)] + "\n" + ft + s[s.index(e2):]
open(p, "w").write(s)
print(len(rows), "mutants")
