#!/venv/bin/python
"""seeded.py <PID> [k ...] — confirm sub-agent mutants (demo fails with / passes without / suite passes), run the check
against them in the scratch worktree (VERIF_REPO), and keep them under /verif/seeded/<PID>-<k>/ with the outcome."""
import json, os, shutil, subprocess, sys
pid = sys.argv[1]
ks = sys.argv[2:] or ["1", "2", "3"]
WT = f"/tmp/mut_{pid}"
ROUND = os.environ.get("ROUND", "")          # ROUND=2: second batch of blind mutants (/tmp/mut_<pid>_out2 -> seeded/<pid>-r2-<k>)
OUT = f"/tmp/mut_{pid}_out{ROUND}"
check_pid = os.environ.get("CHECK_PID", pid)
def sh(cmd, **kw):
    p = subprocess.run(cmd, shell=True, stdout=subprocess.PIPE, stderr=subprocess.STDOUT, text=True, **kw)
    return p.returncode, p.stdout
for k in ks:
    src = f"{OUT}/{k}"
    if not os.path.exists(f"{src}/patch.diff"):
        print(pid, k, "no patch"); continue
    sh(f"git -C {WT} checkout -q -- . && git -C {WT} clean -fdq && git -C {WT} checkout -q --detach main")
    rc0, o0 = sh(f"cd {WT} && PYTHONPATH={WT} timeout 600 /venv/bin/python {src}/demo.py")
    rca, oa = sh(f"git -C {WT} apply {src}/patch.diff")
    if rca != 0:
        print(pid, k, "patch does not apply:", oa[-300:]); continue
    rc1, o1 = sh(f"cd {WT} && PYTHONPATH={WT} timeout 600 /venv/bin/python {src}/demo.py")
    rct, ot = sh(f"cd {WT} && timeout 900 /venv/bin/python -m pytest -q -p no:cacheprovider --timeout=900 2>&1 | tail -1")
    rcc, oc = sh(f"cd /verif && VERIF_REPO={WT} timeout 1800 ./check {check_pid} --tier quick", env=dict(os.environ, VERIF_REPO=WT))
    work = "/var/tmp/verif_alt_" + __import__('hashlib').sha1(__import__('os').path.realpath(WT).encode()).hexdigest()[:10]
    sh(f"git -C {WT} checkout -q -- . && git -C {WT} clean -fdq")
    ok = rc0 == 0 and rc1 != 0 and "559 passed" in ot
    viol = [l for l in oc.splitlines() if l.startswith("VIOLATION")]
    replay_txt = ""
    if viol:
        rp = viol[0].split("replay=")[1].split()[0]
        try:
            d = json.load(open(os.path.join(work, rp)))
            replay_txt = json.dumps(d.get("failing_input", d.get("no_longer_checks")), default=str)[:600]
        except Exception as ex:
            replay_txt = repr(ex)
    sh(f"rm -rf {work}")
    print(f"{pid}-{k}: demo_clean_rc={rc0} demo_mut_rc={rc1} suite='{ot.strip()[-40:]}' confirmed={ok} check_rc={rcc} violations={len(viol)} nfif={'no-failing-input-found' in oc}")
    if not ok:
        continue
    dst = f"/verif/seeded/{pid}-{'r' + ROUND + '-' if ROUND else ''}{k}"
    os.makedirs(dst, exist_ok=True)
    for f in ("patch.diff", "demo.py"):
        shutil.copy(f"{src}/{f}", f"{dst}/{f}")
    try:
        meta = json.load(open(f"{src}/meta.json"))
    except Exception:
        meta = {}
    meta.update({"property": pid, "confirmed": {"demo_unmodified_rc": rc0, "demo_modified_rc": rc1, "suite_with_change": ot.strip(),
                 "ran": f"git apply patch.diff in a scratch worktree; demo.py; pytest; VERIF_REPO=<worktree> ./check {check_pid} --tier quick"},
                 "check": {"property_checked": check_pid, "exit": rcc, "violation_lines": viol[:5], "detected": rcc == 1 and bool(viol),
                           "with_failing_input": bool(viol) and "no-failing-input-found" not in viol[0], "replay_excerpt": replay_txt}})
    json.dump(meta, open(f"{dst}/meta.json", "w"), indent=1)
