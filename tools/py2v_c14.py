"""Translator plugin for property C14 (compression glue) -> coq/Gen/GenC14.v.

 (a) the compress DECISION, translated from the AST of `LasWriter.__init__` (laspy/laswriter.py), the 'w' branch of
     `open_las` (laspy/lib.py) and `LasData.write` / `_write_to` (laspy/lasdata.py) by a tiny symbolic executor over
     one variable `do_compress : option bool` and the boolean inputs `backend_given` (laz_backend is not None),
     `is_path` (isinstance(x, (str, Path))), `is_bytes`, and the extension test `<suffix>.lower() == ".laz"` over the
     suffix as a list of character codes;
 (b) the identity of the LasZip record (user id / record id of the running `LasZipVlr` class);
 (c) shape checks of the statements that move the LasZip record around (writer strips it from its private copy of
     the header, the LAZ point writer appends the fresh one before the header is written, the reader pops it once a
     backend was constructed / when the file is empty, the backend loop takes the first backend that constructs),
     each emitted as `Definition gen_... : bool := true.` only when the source has exactly the expected shape.
Fail closed: anything unexpected is an Untranslatable; the definition is then missing from GenC14.v and everything
that mentions it stops compiling."""
import ast
import copy
import importlib
import os
import sys

import py2v
from py2v import Out, Untranslatable, find_class, find_func, parse


def _norm(node):
    return " ".join(ast.unparse(node).split())


def _require(cond, what):
    if not cond:
        raise Untranslatable(what)


PRELUDE = """(* helpers of the generated decision functions *)
Definition c14_lower (c : Z) : Z := if (65 <=? c) && (c <=? 90) then c + 32 else c.
Definition c14_upper (c : Z) : Z := if (97 <=? c) && (c <=? 122) then c - 32 else c.
Fixpoint c14_list_eqb (a b : list Z) : bool :=
  match a, b with
  | [], [] => true
  | x :: a', y :: b' => (x =? y) && c14_list_eqb a' b'
  | _, _ => false
  end.
Definition c14_is_none (o : option bool) : bool := match o with None => true | Some _ => false end.
Definition c14_truthy (o : option bool) : bool := match o with Some true => true | _ => false end.
(* the forms of the argument laz_backend: absent (None), ONE backend (true = the parallel variant; an enum member or any
   other backend object), an ITERABLE of backends (list, tuple, set, iterator, generator) *)
Inductive c14_form := C14Absent | C14One (p : bool) | C14Many (l : list bool).
(* `if x is None: x = <default selection>` *)
Definition c14_or_default (f : c14_form) (dflt : list bool) : c14_form :=
  match f with C14Absent => C14Many dflt | _ => f end.
(* `try: x = iter(x)  except TypeError: x = (x,)`: what the loop over x then visits (None is not a backend) *)
Definition c14_norm_eafp (f : c14_form) : list bool :=
  match f with C14Absent => [] | C14One p => [p] | C14Many l => l end.
"""

PATH_TESTS = {
    "isinstance(source, (str, Path))", "isinstance(destination, (str, pathlib.Path))",
    "isinstance(source, (str, pathlib.Path))", "isinstance(destination, (str, Path))",
    "isinstance(source, (str, os.PathLike))", "isinstance(destination, (str, os.PathLike))",
}
SUFFIX_EXPRS = {"os.path.splitext(source)[1]", "pathlib.Path(destination).suffix", "Path(destination).suffix",
                "os.path.splitext(destination)[1]", "Path(source).suffix", "pathlib.Path(source).suffix"}


class Sym:
    """Symbolic execution of a statement list with respect to `do_compress`.
    Produces a Gallina term of type `option bool`: the value handed to the sink call
    (LasWriter(..., do_compress=..., laz_backend=laz_backend) / self._write_to(...)), or, with sink=None, the value
    of do_compress when control reaches the end of the statements."""

    RESERVED = {"do_compress", "laz_backend", "backend_given", "is_path", "is_bytes", "suffix"}

    def __init__(self, sinks, fn=None):
        self.sinks = sinks
        self.ext_seen = []
        # boolean temporaries: a local of `fn` that is bound exactly once, by a plain assignment of a genuinely boolean
        # expression over the inputs (`backend_was_given = laz_backend is not None`).  name -> Gallina term
        self.temps = {}
        self.single = set()
        if fn is not None:
            stores = {}
            for n in ast.walk(fn):
                if isinstance(n, ast.Name) and isinstance(n.ctx, (ast.Store, ast.Del)):
                    stores[n.id] = stores.get(n.id, 0) + 1
                elif isinstance(n, ast.arg):
                    stores[n.arg] = stores.get(n.arg, 0) + 2
                elif isinstance(n, (ast.Global, ast.Nonlocal)):
                    for x in n.names:
                        stores[x] = stores.get(x, 0) + 2
                elif isinstance(n, (ast.FunctionDef, ast.AsyncFunctionDef, ast.ClassDef)) and n is not fn:
                    stores[n.name] = stores.get(n.name, 0) + 2
                elif isinstance(n, ast.ExceptHandler) and n.name:
                    stores[n.name] = stores.get(n.name, 0) + 2
                elif isinstance(n, ast.alias):
                    nm = (n.asname or n.name).split(".")[0]
                    stores[nm] = stores.get(nm, 0) + 2
            self.single = {k for k, v in stores.items() if v == 1 and k not in self.RESERVED and not k.startswith("c14_")}

    def is_boolean(self, e):
        """is the VALUE of the expression a bool (not merely something with a truth value)?"""
        if isinstance(e, ast.Constant):
            return isinstance(e.value, bool)
        if isinstance(e, ast.Name):
            return e.id in self.temps
        if isinstance(e, ast.Compare):
            return True
        if isinstance(e, ast.UnaryOp) and isinstance(e.op, ast.Not):
            return True
        if isinstance(e, ast.BoolOp):
            return all(self.is_boolean(v) for v in e.values)
        if isinstance(e, ast.Call) and isinstance(e.func, ast.Name) and e.func.id == "isinstance":
            return True
        return False

    def scoped(self, stmts, at_end):
        """a branch: temporaries bound inside it are not visible after it"""
        saved = dict(self.temps)
        try:
            return self.block(stmts, at_end)
        finally:
            self.temps = saved

    # -- values of type option bool
    def value(self, e):
        if isinstance(e, ast.Constant) and e.value is None:
            return "None"
        if isinstance(e, ast.Constant) and isinstance(e.value, bool):
            return "(Some true)" if e.value else "(Some false)"
        if isinstance(e, ast.Name) and e.id == "do_compress":
            return "do_compress"
        if isinstance(e, ast.Name) and e.id in self.temps:
            return f"(Some {self.temps[e.id]})"
        if isinstance(e, ast.Compare):
            return f"(Some {self.ext_test(e)})"
        raise Untranslatable(f"value assigned to do_compress: {_norm(e)}")

    def ext_test(self, e):
        _require(len(e.ops) == 1 and isinstance(e.ops[0], ast.Eq), f"extension test {_norm(e)}")
        left, right = e.left, e.comparators[0]
        _require(isinstance(right, ast.Constant) and isinstance(right.value, str) and right.value.isascii(),
                 f"extension test {_norm(e)}: right side is not an ASCII string literal")
        fold = None
        if (isinstance(left, ast.Call) and isinstance(left.func, ast.Attribute) and not left.args and not left.keywords
                and left.func.attr in ("lower", "upper", "casefold")):
            fold = {"lower": "c14_lower", "upper": "c14_upper", "casefold": "c14_lower"}[left.func.attr]
            left = left.func.value
        _require(_norm(left) in SUFFIX_EXPRS, f"extension test: unknown suffix expression {_norm(left)}")
        lit = "[" + "; ".join(str(ord(c)) for c in right.value) + "]"
        self.ext_seen.append((fold, right.value))
        arg = f"(map {fold} suffix)" if fold else "suffix"
        return f"(c14_list_eqb {arg} {lit})"

    # -- conditions
    def cond(self, e):
        t = _norm(e)
        if isinstance(e, ast.Name) and e.id in self.temps:
            return self.temps[e.id]
        if isinstance(e, ast.Constant) and isinstance(e.value, bool):
            return "true" if e.value else "false"
        if t in PATH_TESTS:
            return "is_path"
        if t == "isinstance(source, bytes)":
            return "is_bytes"
        if t == "laz_backend is not None":
            return "backend_given"
        if t == "laz_backend is None":
            return "(negb backend_given)"
        if t == "do_compress is None":
            return "(c14_is_none do_compress)"
        if t == "do_compress is not None":
            return "(negb (c14_is_none do_compress))"
        if t == "do_compress":
            return "(c14_truthy do_compress)"
        if isinstance(e, ast.UnaryOp) and isinstance(e.op, ast.Not):
            return f"(negb {self.cond(e.operand)})"
        if isinstance(e, ast.BoolOp):
            j = " && " if isinstance(e.op, ast.And) else " || "
            return "(" + j.join(self.cond(v) for v in e.values) + ")"
        raise Untranslatable(f"condition {t}")

    @staticmethod
    def touches(node):
        """does the statement store to do_compress / laz_backend?"""
        for n in ast.walk(node):
            if isinstance(n, ast.Name) and n.id in ("do_compress", "laz_backend") and isinstance(n.ctx, (ast.Store, ast.Del)):
                return True
            if isinstance(n, (ast.Global, ast.Nonlocal)):
                return True
        return False

    def sink_of(self, node):
        """the sink call inside an expression, if any"""
        for n in ast.walk(node):
            if isinstance(n, ast.Call) and _norm(n.func) in self.sinks:
                return n
        return None

    def has_sink(self, stmts):
        return any(self.sink_of(s) is not None for s in stmts)

    def sink_value(self, call):
        kw = {k.arg: k.value for k in call.keywords}
        pos = list(call.args)
        names = self.sinks[_norm(call.func)]
        for i, a in enumerate(pos):
            if i < len(names):
                kw[names[i]] = a
        _require("do_compress" in kw, f"{_norm(call.func)}(...) is not given do_compress")
        _require("laz_backend" in kw and _norm(kw["laz_backend"]) == "laz_backend",
                 f"{_norm(call.func)}(...) is not given laz_backend=laz_backend")
        return self.value(kw["do_compress"])

    def block(self, stmts, at_end):
        if not stmts:
            _require(at_end is not None, "control reaches the end without handing do_compress over")
            return at_end
        s, rest = stmts[0], stmts[1:]
        if isinstance(s, ast.Expr) and isinstance(s.value, ast.Constant):
            return self.block(rest, at_end)
        if isinstance(s, ast.Assign) and len(s.targets) == 1 and _norm(s.targets[0]) == "do_compress":
            return f"let do_compress := {self.value(s.value)} in\n{self.block(rest, at_end)}"
        if (isinstance(s, ast.Assign) and len(s.targets) == 1 and isinstance(s.targets[0], ast.Name)
                and s.targets[0].id in self.single and s.targets[0].id not in self.temps and self.is_boolean(s.value)):
            try:
                c = self.cond(s.value)
            except Untranslatable:
                c = None        # not a temporary this translator understands: any later use of it fails closed
            if c is not None:
                name = s.targets[0].id
                if "do_compress" not in c:
                    # depends on the (never re-bound) inputs only: the same value wherever it is used -> inlined
                    self.temps[name] = c
                    return self.block(rest, at_end)
                self.temps[name] = f"c14_t_{name}"
                return f"let c14_t_{name} := {c} in\n{self.block(rest, at_end)}"
        if isinstance(s, ast.If):
            c = self.cond(s.test) if (self.touches(s) or self.has_sink([s])) else None
            if c is None:
                return self.block(rest, at_end)
            if self.has_sink(s.body) or self.has_sink(s.orelse):
                a = self.scoped(list(s.body) + ([] if self.has_sink(s.body) else rest), at_end)
                b = self.scoped(list(s.orelse) + ([] if self.has_sink(s.orelse) else rest), at_end)
                return f"if {c} then ({a})\nelse ({b})"
            a = self.scoped(list(s.body), "do_compress")
            b = self.scoped(list(s.orelse), "do_compress")
            return f"let do_compress := (if {c} then ({a}) else ({b})) in\n{self.block(rest, at_end)}"
        if isinstance(s, ast.With):
            for it in s.items:
                call = self.sink_of(it.context_expr)
                if call is not None:
                    return self.sink_value(call)
        if isinstance(s, (ast.With, ast.Try)):
            if self.has_sink([s]) or self.touches(s):
                if isinstance(s, ast.Try):
                    for h in s.handlers:
                        _require(not self.touches(h) and self.sink_of(h) is None, "except handler touches do_compress")
                    _require(not s.orelse and not s.finalbody, "try ... else/finally around the sink")
                return self.block(list(s.body) + rest, at_end)
            return self.block(rest, at_end)
        call = self.sink_of(s)
        if call is not None:
            _require(isinstance(s, (ast.Return, ast.Expr, ast.Assign, ast.With)), f"sink inside {type(s).__name__}")
            return self.sink_value(call)
        _require(not self.touches(s), f"statement changes do_compress / laz_backend: {_norm(s)[:80]}")
        _require(not isinstance(s, (ast.Return, ast.For, ast.While)), f"unexpected {type(s).__name__} before the sink")
        return self.block(rest, at_end)


def _body(f):
    return [s for s in f.body if not (isinstance(s, ast.Expr) and isinstance(s.value, ast.Constant))]


def _pop_laszip_try(s, owners):
    """try: <owner>.vlrs.pop(<owner'>.vlrs.index("LasZipVlr")) except ValueError: pass"""
    if not isinstance(s, ast.Try) or len(s.body) != 1 or len(s.handlers) != 1 or s.orelse or s.finalbody:
        return False
    h = s.handlers[0]
    if h.type is None or _norm(h.type) != "ValueError" or len(h.body) != 1 or not isinstance(h.body[0], ast.Pass):
        return False
    return _pop_laszip_stmt(s.body[0], owners)


def _pop_laszip_stmt(s, owners):
    if not isinstance(s, ast.Expr):
        return False
    t = _norm(s.value)
    for a in owners:
        for b in owners:
            if t in (f"{a}.vlrs.pop({b}.vlrs.index('LasZipVlr'))", f'{a}.vlrs.pop({b}.vlrs.index("LasZipVlr"))'):
                return True
    return False


def _ends(stmts):
    """does control never fall off the end of the statements?"""
    if not stmts:
        return False
    s = stmts[-1]
    if isinstance(s, (ast.Return, ast.Raise)):
        return True
    if isinstance(s, ast.If):
        return _ends(s.body) and _ends(s.orelse)
    if isinstance(s, ast.Try):
        return not s.finalbody and _ends(s.body + s.orelse) and all(_ends(h.body) for h in s.handlers)
    if isinstance(s, ast.With):
        return _ends(s.body)
    return False


def _tail_inline(mod, fn, depth=3):
    """`return helper(args)` in a function is the helper's body when the helper is a module-level function that did not exist when
    this reader was written (tools/known_functions.json), takes plain parameters and gets side-effect free arguments: every `return`
    of the helper returns from the caller, nothing of the caller runs afterwards.  Parameters are replaced by the arguments (a
    parameter the helper re-binds must be given a plain name that no other argument mentions; the helper's own locals must not
    capture a name of an argument).  Anything else is left as written."""
    helpers = {n.name: n for n in mod.body if isinstance(n, ast.FunctionDef) and not n.decorator_list
               and n.name not in py2v.KNOWN_FUNCTIONS and n.name != fn.name}

    def expand(call):
        h = helpers.get(call.func.id) if isinstance(call.func, ast.Name) else None
        if h is None:
            return None
        a = h.args
        if a.vararg or a.kwarg or a.posonlyargs or any(isinstance(x, ast.Starred) for x in call.args):
            return None
        params = [p.arg for p in a.args] + [p.arg for p in a.kwonlyargs]
        dflt = dict(zip([p.arg for p in a.args][len(a.args) - len(a.defaults):], a.defaults))
        dflt.update({p.arg: d for p, d in zip(a.kwonlyargs, a.kw_defaults) if d is not None})
        if len(call.args) > len(a.args):
            return None
        bound = dict(zip([p.arg for p in a.args], call.args))
        for k in call.keywords:
            if k.arg is None or k.arg not in params or k.arg in bound:
                return None
            bound[k.arg] = k.value
        for p in params:
            if p not in bound:
                if p not in dflt:
                    return None
                bound[p] = dflt[p]
        if not all(py2v._simple_arg(e) for e in bound.values()):
            return None
        body = [s for s in h.body if not (isinstance(s, ast.Expr) and isinstance(s.value, ast.Constant))]
        if any(isinstance(n, (ast.Yield, ast.YieldFrom, ast.Await, ast.Global, ast.Nonlocal, ast.FunctionDef, ast.Lambda, ast.ClassDef))
               for s in body for n in ast.walk(s)):
            return None
        stored = {n.id for s in body for n in ast.walk(s) if isinstance(n, ast.Name) and isinstance(n.ctx, (ast.Store, ast.Del))}
        stored |= {hd.name for s in body for hd in ast.walk(s) if isinstance(hd, ast.ExceptHandler) and hd.name}
        names_of = {p: {n.id for n in ast.walk(e) if isinstance(n, ast.Name)} for p, e in bound.items()}
        for p in params:
            if p in stored:
                if not isinstance(bound[p], ast.Name):
                    return None
                if any(bound[p].id in names_of[q] for q in params if q != p):
                    return None
        locs = stored - set(params)
        if any(locs & ns for ns in names_of.values()):
            return None
        out = [py2v._Subst(bound).visit(copy.deepcopy(s)) for s in body]
        if not _ends(out):
            out.append(ast.Return(value=ast.Constant(value=None)))
        return out

    def block(stmts, d):
        res = []
        for s in stmts:
            if isinstance(s, ast.Return) and isinstance(s.value, ast.Call) and d > 0:
                r = expand(s.value)
                if r is not None:
                    res.extend(block(r, d - 1))
                    continue
            s = copy.copy(s)
            for fld in ("body", "orelse", "finalbody"):
                if isinstance(getattr(s, fld, None), list) and not isinstance(s, (ast.FunctionDef, ast.ClassDef)):
                    setattr(s, fld, block(getattr(s, fld), d))
            if isinstance(s, ast.Try):
                s.handlers = [copy.copy(hd) for hd in s.handlers]
                for hd in s.handlers:
                    hd.body = block(hd.body, d)
            res.append(s)
        return res
    if not helpers:
        return fn
    new = copy.copy(fn)
    new.body = block(fn.body, depth)
    return ast.fix_missing_locations(new)


def _eafp_iter(s):
    """try: X = iter(E)  except TypeError: X = (E,)   ->  (X, E), else None   (list(E) / tuple(E) and [E] read the same)"""
    if not isinstance(s, ast.Try) or len(s.body) != 1 or len(s.handlers) != 1 or s.orelse or s.finalbody:
        return None
    a, h = s.body[0], s.handlers[0]
    if h.type is None or _norm(h.type) != "TypeError" or len(h.body) != 1:
        return None
    b = h.body[0]
    if not (isinstance(a, ast.Assign) and isinstance(b, ast.Assign) and len(a.targets) == 1 and len(b.targets) == 1):
        return None
    if not isinstance(a.targets[0], ast.Name) or _norm(a.targets[0]) != _norm(b.targets[0]):
        return None
    if not (isinstance(a.value, ast.Call) and _norm(a.value.func) in ("iter", "list", "tuple") and len(a.value.args) == 1
            and not a.value.keywords):
        return None
    e = _norm(a.value.args[0])
    if not (isinstance(b.value, (ast.Tuple, ast.List)) and len(b.value.elts) == 1 and _norm(b.value.elts[0]) == e):
        return None
    return a.targets[0].id, e


def _stores(fn, name):
    """number of places of `fn` that bind the (dotted) name: assignments, augmented assignments, for targets, with ... as, del"""
    k = 0
    for n in ast.walk(fn):
        if isinstance(n, (ast.Name, ast.Attribute)) and isinstance(getattr(n, "ctx", None), (ast.Store, ast.Del)) and _norm(n) == name:
            k += 1
    return k


def _normalised_loop(fn, source_expr, create, what):
    """the body of a _create_laz_backend: the selection `source_expr` is normalised by the EAFP idiom and the ONE loop of the
    function visits exactly the normalised value, constructing with backend.<create>(...)"""
    b = _body(fn)
    hits = [(i, _eafp_iter(st)) for i, st in enumerate(b)]
    hits = [(i, r) for i, r in hits if r is not None]
    _require(len(hits) == 1, f"{what}: exactly one `try: x = iter(sel) except TypeError: x = (sel,)`")
    i, (x, e) = hits[0]
    _require(e == source_expr, f"{what}: the normalised value is {e}, not {source_expr}")
    _require(_stores(fn, x) == 2, f"{what}: {x} is bound elsewhere too")
    if source_expr != x:
        _require(_stores(fn, source_expr) == 0, f"{what}: {source_expr} is re-bound")
    loops = [n for n in ast.walk(fn) if isinstance(n, (ast.For, ast.While, ast.ListComp, ast.GeneratorExp, ast.SetComp, ast.DictComp))]
    _require(len(loops) == 1 and isinstance(loops[0], ast.For) and loops[0] in b and b.index(loops[0]) > i
             and _norm(loops[0].iter) == x and isinstance(loops[0].target, ast.Name) and not loops[0].orelse,
             f"{what}: one `for backend in {x}:` after the normalisation")
    var = loops[0].target.id
    for st in b[:b.index(loops[0])]:
        if st is b[i]:
            continue
        for n in ast.walk(st):
            _require(not (isinstance(n, ast.Call) and _norm(n.func) in ("isinstance", "issubclass", "type", "len", "iter", "next", "list", "tuple")),
                     f"{what}: the selection is inspected before the loop: {_norm(st)[:70]}")
    calls = [n for n in ast.walk(loops[0]) if isinstance(n, ast.Call) and _norm(n.func) == f"{var}.{create}"]
    _require(len(calls) == 1, f"{what}: {var}.{create}(...) once in the loop")
    for n in ast.walk(loops[0]):
        _require(not isinstance(n, (ast.Break, ast.Continue)), f"{what}: break / continue in the loop")
        _require(not (isinstance(n, ast.Call) and _norm(n.func) in ("isinstance", "issubclass", "type")),
                 f"{what}: the loop looks at the type of a backend")
    return loops[0]


def gen(repo):
    o = Out("laspy/laswriter.py LasWriter.__init__, laspy/lib.py open_las ('w'), laspy/lasdata.py LasData.write/_write_to, "
            "laspy/lasreader.py LasReader.__init__/_create_laz_backend/_create_point_source, "
            "laspy/_compression/lazrsbackend.py, laspy/vlrs/known.py LasZipVlr")
    o.text += PRELUDE + "\n"
    wmod = parse(repo, "laspy/laswriter.py")
    wcls = find_class(wmod, "LasWriter")
    winit = find_func(wcls, "__init__")

    # ------------------------------------------------------------------ decisions
    def writer_decision():
        body = _body(winit)
        params = [a.arg for a in winit.args.args + winit.args.kwonlyargs]
        _require("do_compress" in params and "laz_backend" in params, "LasWriter.__init__ parameters")
        # the decision is whatever happens to do_compress from the entry of __init__ up to the statement that records it
        # in the header (statements that neither read it into a condition nor store it are skipped by the executor)
        fl = [i for i, s in enumerate(body) if isinstance(s, ast.Assign) and len(s.targets) == 1
              and _norm(s.targets[0]) == "self.header.are_points_compressed"]
        _require(len(fl) == 1 and _norm(body[fl[0]].value) == "do_compress",
                 "LasWriter.__init__: self.header.are_points_compressed = do_compress")
        i = fl[0]
        _require(any(Sym.touches(s) for s in body[:i]), "LasWriter.__init__: no defaulting of do_compress before it is recorded")
        sym = Sym({}, winit)
        term = sym.block(body[:i], "do_compress")
        after = body[i + 1:]
        for s in after:
            _require(not Sym.touches(s), "LasWriter.__init__ changes do_compress after the decision")
        sel = [s for s in after if isinstance(s, ast.If) and _norm(s.test) == "do_compress"]
        _require(len(sel) == 1, "LasWriter.__init__: `if do_compress:` choosing the point writer")
        _require("self._create_laz_backend(" in _norm(sel[0].body[0]) and "UncompressedPointWriter(" in _norm(sel[0].orelse[0]),
                 "LasWriter.__init__: compressed -> LAZ backend writer, otherwise UncompressedPointWriter")
        return ("(* LasWriter.__init__: the value of do_compress after the backend test, as a truth value *)\n"
                "Definition gen_writer_decision (backend_given : bool) (do_compress : option bool) : bool :=\n"
                f"  c14_truthy ({term}).\n")
    o.add("gen_writer_decision", writer_decision)

    def open_decision():
        lmod = parse(repo, "laspy/lib.py")
        f = _tail_inline(lmod, find_func(lmod, "open_las"))      # open_las as a dispatcher onto per-mode helpers reads the same
        params = [a.arg for a in f.args.args]
        _require("do_compress" in params and "laz_backend" in params and "source" in params, "open_las parameters")
        dflt = dict(zip(params[len(params) - len(f.args.defaults):], f.args.defaults))
        _require(_norm(dflt["do_compress"]) == "None" and _norm(dflt["laz_backend"]) == "None", "open_las defaults are not None")
        # locate the mode == "w" branch of the if / elif chain
        node = [s for s in _body(f) if isinstance(s, ast.If) and "mode ==" in _norm(s.test)]
        _require(len(node) == 1, "open_las: the mode dispatch")
        node, branch, before = node[0], None, _body(f)[:_body(f).index(node[0])]
        for s in before:
            _require(not Sym.touches(s), "open_las changes do_compress before the mode dispatch")
        while isinstance(node, ast.If):
            if _norm(node.test) in ("mode == 'w'", 'mode == "w"'):
                branch = node.body
                break
            _require(not Sym.touches(ast.Module(body=node.body, type_ignores=[])) or True, "")
            node = node.orelse[0] if len(node.orelse) == 1 else None
        _require(branch is not None, "open_las: no `mode == 'w'` branch")
        # the leading `if header is None: raise` is not about compression
        stmts = [s for s in branch if not (isinstance(s, ast.If) and _norm(s.test) == "header is None")]
        sym = Sym({"LasWriter": ["dest", "header", "do_compress", "laz_backend", "closefd", "encoding_errors"]}, f)
        term = sym.block(stmts, None)
        _require(len(sym.ext_seen) == 1, "open_las: exactly one extension test expected")
        return ("(* open_las, mode 'w': the do_compress handed to LasWriter *)\n"
                "Definition gen_open_decision (is_path is_bytes : bool) (suffix : list Z) (do_compress : option bool) : option bool :=\n"
                f"  {term}.\n")
    o.add("gen_open_decision", open_decision)

    def lasdata_decision():
        dmod = parse(repo, "laspy/lasdata.py")
        cls = find_class(dmod, "LasData")
        fs = [n for n in cls.body if isinstance(n, ast.FunctionDef) and n.name == "write"
              and not any("overload" in _norm(d) for d in n.decorator_list)]
        _require(len(fs) == 1, "LasData.write (non-overload) not unique")
        f = fs[0]
        _require([a.arg for a in f.args.args] == ["self", "destination", "do_compress", "laz_backend"], "LasData.write parameters")
        _require([_norm(d) for d in f.args.defaults] == ["None", "None"], "LasData.write defaults are not None")
        sym = Sym({"self._write_to": ["out_stream", "do_compress", "laz_backend"]}, f)
        term = sym.block(_body(f), None)
        _require(len(sym.ext_seen) == 1, "LasData.write: exactly one extension test expected")
        wt = find_func(cls, "_write_to")
        _require([a.arg for a in wt.args.args] == ["self", "out_stream", "do_compress", "laz_backend"], "_write_to parameters")
        sym2 = Sym({"LasWriter": ["dest", "header", "do_compress", "laz_backend", "closefd", "encoding_errors"]}, wt)
        t2 = sym2.block(_body(wt), None)
        _require(t2 == "do_compress", f"LasData._write_to does not hand do_compress through unchanged ({t2})")
        return ("(* LasData.write -> _write_to: the do_compress handed to LasWriter *)\n"
                "Definition gen_lasdata_decision (is_path : bool) (suffix : list Z) (do_compress : option bool) : option bool :=\n"
                f"  {term}.\n")
    o.add("gen_lasdata_decision", lasdata_decision)

    # ------------------------------------------------------------------ the LasZip record
    def laszip_id():
        sys.path.insert(0, repo)
        known = importlib.import_module("laspy.vlrs.known")
        if not os.path.realpath(known.__file__).startswith(os.path.realpath(repo)):
            raise Untranslatable(f"laspy imported from {known.__file__}, not from {repo}")
        uid = known.LasZipVlr.official_user_id()
        rids = tuple(known.LasZipVlr.official_record_ids())
        _require(len(rids) == 1 and isinstance(uid, str) and uid.isascii(), f"LasZipVlr ids {uid!r} {rids!r}")
        desc = known.LasZipVlr(b"").description
        return ("Definition laszip_user_id : list Z := [" + "; ".join(str(ord(c)) for c in uid) + "].\n"
                f"Definition laszip_record_id : Z := {int(rids[0])}.\n"
                "Definition laszip_description : list Z := [" + "; ".join(str(ord(c)) for c in desc) + "].\n")
    o.add("laszip_id", laszip_id)

    def writer_strips():
        body = _body(winit)
        cp = [i for i, s in enumerate(body) if _norm(s) == "self.header = deepcopy(header)"]
        _require(len(cp) == 1, "LasWriter.__init__: self.header = deepcopy(header)")
        tr = [i for i, s in enumerate(body) if _pop_laszip_try(s, ["self.header", "header"])]
        _require(len(tr) == 1 and tr[0] > cp[0], "LasWriter.__init__: try: self.header.vlrs.pop(header.vlrs.index('LasZipVlr')) except ValueError: pass")
        wr = [i for i, s in enumerate(body) if "self.point_writer.write_initial_header_and_vlrs(" in _norm(s)]
        _require(len(wr) == 1 and wr[0] > tr[0], "LasWriter.__init__: the header is written after the LasZip record was removed")
        for s in body:
            t = _norm(s)
            _require(("vlrs" not in t) or s is body[tr[0]] or s is body[cp[0]] or "write_initial_header_and_vlrs" in t,
                     f"LasWriter.__init__: another statement touches the vlrs: {t[:60]}")
        return "Definition gen_writer_strips_laszip : bool := true.\n"
    o.add("gen_writer_strips_laszip", writer_strips)

    bmod = parse(repo, "laspy/_compression/lazrsbackend.py")

    def writer_appends():
        cls = find_class(bmod, "LazrsPointWriter")
        f = find_func(cls, "write_initial_header_and_vlrs")
        b = _body(f)
        _require(len(b) >= 3 and _norm(b[0]) == "laszip_vlr = LasZipVlr(self.vlr.record_data())"
                 and _norm(b[1]) == "header.vlrs.append(laszip_vlr)"
                 and _norm(b[2]) == "super().write_initial_header_and_vlrs(header, encoding_errors)",
                 "LazrsPointWriter.write_initial_header_and_vlrs: create LasZipVlr, append, then write the header")
        for s in b[3:]:
            _require("vlrs" not in _norm(s), "LazrsPointWriter.write_initial_header_and_vlrs touches the vlrs after writing")
        ini = find_func(cls, "__init__")
        _require("self.vlr = lazrs.LazVlr.new_for_compression(point_format.id, point_format.num_extra_bytes)" in _norm(ini),
                 "LazrsPointWriter.__init__: the LasZip record is created for (format id, number of extra bytes)")
        ucls = find_class(wmod, "UncompressedPointWriter")
        _require(not any(isinstance(n, ast.FunctionDef) and n.name in ("write_initial_header_and_vlrs", "write_updated_header")
                         for n in ucls.body), "UncompressedPointWriter overrides the header writing")
        pw = parse(repo, "laspy/_pointwriter.py")
        base = find_func(find_class(pw, "IPointWriter"), "write_initial_header_and_vlrs")
        _require(_norm(_body(base)[0]) == "header.write_to(self.destination, encoding_errors=encoding_errors)" and len(_body(base)) == 1,
                 "IPointWriter.write_initial_header_and_vlrs writes the header as it is")
        return "Definition gen_writer_appends_laszip : bool := true.\n"
    o.add("gen_writer_appends_laszip", writer_appends)

    rmod = parse(repo, "laspy/lasreader.py")
    rcls = find_class(rmod, "LasReader")

    def reader_pops_created():
        f = find_func(rcls, "_create_laz_backend")
        b = _body(f)
        loops = [s for s in b if isinstance(s, ast.For)]
        _require(len(loops) == 1 and _norm(loops[0].iter) == "backends", "_create_laz_backend: one loop over the backends")
        lb = loops[0].body
        _require(len(lb) == 1 and isinstance(lb[0], ast.Try), "_create_laz_backend: loop body is a try")
        t = lb[0]
        _require(len(t.handlers) == 1 and _norm(t.handlers[0].type) == "Exception" and not t.finalbody,
                 "_create_laz_backend: except Exception")
        _require(any(_norm(s).startswith("last_error =") for s in t.handlers[0].body)
                 and not any(isinstance(n, (ast.Return, ast.Raise, ast.Break)) for s in t.handlers[0].body for n in ast.walk(s)),
                 "_create_laz_backend: a failing backend is remembered and the next one is tried")
        _require(len(t.orelse) == 2 and _pop_laszip_stmt(t.orelse[0], ["self.header"]) and _norm(t.orelse[1]) == "return reader",
                 "_create_laz_backend: else: pop the LasZip record, return the reader")
        _require("backend.create_reader(" in _norm(t.body[-1]) and _norm(t.body[-1]).startswith("reader"),
                 "_create_laz_backend: reader = backend.create_reader(...)")
        _require(_norm(b[-1]) == "raise last_error", "_create_laz_backend: raise last_error at the end")
        return "Definition gen_reader_first_backend_wins : bool := true.\nDefinition gen_reader_pops_laszip : bool := true.\n"
    o.add("gen_reader_pops_laszip", reader_pops_created)

    def reader_pops_empty():
        f = find_func(rcls, "__init__")
        hits = [s for s in _body(f) if isinstance(s, ast.If)
                and _norm(s.test) == "self.header.are_points_compressed and self.header.point_count == 0"]
        _require(len(hits) == 1 and any(_pop_laszip_try(x, ["self.header"]) for x in hits[0].body) and not hits[0].orelse,
                 "LasReader.__init__: the LasZip record of an empty compressed file is removed")
        cps = find_func(rcls, "_create_point_source")
        b = _body(cps)
        _require(len(b) == 1 and isinstance(b[0], ast.If) and _norm(b[0].test) == "self.header.point_count > 0"
                 and isinstance(b[0].body[0], ast.If) and _norm(b[0].body[0].test) == "self.header.are_points_compressed"
                 and "self._create_laz_backend(source)" in _norm(b[0].body[0].body[0])
                 and "UncompressedPointReader(source, self.header)" in _norm(b[0].body[0].orelse[0])
                 and "EmptyPointReader(" in _norm(b[0].orelse[0]),
                 "LasReader._create_point_source: count > 0 -> (compressed -> LAZ backend | uncompressed), else empty reader")
        return "Definition gen_reader_pops_laszip_when_empty : bool := true.\n"
    o.add("gen_reader_pops_laszip_when_empty", reader_pops_empty)

    def backend_lookup():
        cls = find_class(bmod, "LazrsBackend")
        cr = find_func(cls, "create_reader")
        _require('header.vlrs[header.vlrs.index("LasZipVlr")]' in ast.unparse(cr).replace("'", '"'),
                 "LazrsBackend.create_reader: the FIRST LasZip record of the header is used")
        ap = find_func(find_class(bmod, "LazrsAppender"), "__init__")
        _require('header.vlrs.get("LasZipVlr")[0]' in ast.unparse(ap).replace("'", '"'),
                 "LazrsAppender.__init__: the FIRST LasZip record of the header is used")
        return "Definition gen_backend_uses_first_laszip : bool := true.\n"
    o.add("gen_backend_uses_first_laszip", backend_lookup)

    # ------------------------------------------------------------------ the forms of the argument laz_backend
    def backend_forms():
        """None -> the default selection; anything else is handed on UNCHANGED by every entry point down to the three
        _create_laz_backend, which normalise it the same way (one backend -> a 1-tuple, an iterable -> itself) and loop over it"""
        # (1) the default selection: the lazrs variants, in the order of _DEFAULT_BACKENDS / of the enum
        sys.path.insert(0, repo)
        importlib.import_module("laspy")
        bk = importlib.import_module("laspy._compression.backend")
        if not os.path.realpath(bk.__file__).startswith(os.path.realpath(repo)):
            raise Untranslatable(f"laspy imported from {bk.__file__}, not from {repo}")
        members = list(bk.LazBackend)
        _require([m.value for m in members] == list(range(len(members))) and len(members) == len(bk._DEFAULT_BACKENDS),
                 "LazBackend members are not the indices of _DEFAULT_BACKENDS")
        dflt, app = [], []
        for m, impl in zip(members, bk._DEFAULT_BACKENDS):
            _require(m._get() is impl, f"LazBackend.{m.name} does not stand for _DEFAULT_BACKENDS[{m.value}]")
            if type(impl).__name__ == "LazrsBackend":
                _require(isinstance(impl._parallel, bool), "LazrsBackend._parallel")
                dflt.append(impl._parallel)
                if impl.supports_append is True:
                    app.append(impl._parallel)
        _require(len(dflt) == 2 and set(dflt) == {True, False}, f"the lazrs variants among the default backends: {dflt}")
        bcls = find_class(parse(repo, "laspy/_compression/backend.py"), "LazBackend")
        da = find_func(bcls, "detect_available")
        _require(_norm(_body(da)[-1]) == "return tuple((laz_backend for backend, laz_backend in zip(_DEFAULT_BACKENDS, cls) if backend.is_available()))"
                 and len(_body(da)) == 1, "LazBackend.detect_available: the available members, in the order of the enum")
        # (2) the reader keeps the argument (None -> the default) and normalises it when the point source is created
        ini = find_func(rcls, "__init__")
        lines = [_norm(x) for x in _body(ini)]
        _require(any(isinstance(x, ast.If) and _norm(x.test) == "laz_backend is None" and not x.orelse
                     and [_norm(y) for y in x.body] == ["laz_backend = LazBackend.detect_available()"] for x in _body(ini)),
                 "LasReader.__init__: if laz_backend is None: laz_backend = LazBackend.detect_available()")
        _require("self.laz_backend = laz_backend" in lines and _stores(rcls, "self.laz_backend") == 1 and _stores(ini, "laz_backend") == 1,
                 "LasReader.__init__: self.laz_backend = laz_backend, bound nowhere else")
        _normalised_loop(find_func(rcls, "_create_laz_backend"), "self.laz_backend", "create_reader", "LasReader._create_laz_backend")
        # (3) the writer
        wl = [_norm(x) for x in ast.walk(winit) if isinstance(x, ast.Assign) and _norm(x.targets[0]) == "self.laz_backend"]
        _require(sorted(wl) == ["self.laz_backend = LazBackend.detect_available()", "self.laz_backend = laz_backend"]
                 and _stores(wcls, "self.laz_backend") == 2 and _stores(winit, "laz_backend") == 0,
                 "LasWriter.__init__: self.laz_backend = laz_backend | LazBackend.detect_available(), bound nowhere else")
        wc = [x for x in ast.walk(winit) if isinstance(x, ast.Call) and _norm(x.func) == "self._create_laz_backend"]
        _require(len(wc) == 1 and [_norm(x) for x in wc[0].args] == ["self.laz_backend"] and not wc[0].keywords,
                 "LasWriter.__init__: self._create_laz_backend(self.laz_backend)")
        wf = find_func(wcls, "_create_laz_backend")
        _require(len(wf.args.args) == 2, "LasWriter._create_laz_backend(self, selection)")
        _normalised_loop(wf, wf.args.args[1].arg, "create_writer", "LasWriter._create_laz_backend")
        # (4) the appender
        amod = parse(repo, "laspy/lasappender.py")
        acls = find_class(amod, "LasAppender")
        ai = find_func(acls, "__init__")
        _require(any(isinstance(x, ast.If) and _norm(x.test) == "laz_backend is None" and not x.orelse
                     and [_norm(y) for y in x.body] == ["laz_backend = [bck for bck in LazBackend.detect_available() if bck.supports_append]"]
                     for x in _body(ai)) and _stores(ai, "laz_backend") == 1,
                 "LasAppender.__init__: if laz_backend is None: the available backends that support appending")
        ac = [x for x in ast.walk(ai) if isinstance(x, ast.Call) and _norm(x.func) == "self._create_laz_backend"]
        _require(len(ac) == 1 and [_norm(x) for x in ac[0].args] == ["laz_backend"] and not ac[0].keywords,
                 "LasAppender.__init__: self._create_laz_backend(laz_backend)")
        af = find_func(acls, "_create_laz_backend")
        _require(len(af.args.args) == 2, "LasAppender._create_laz_backend(self, selection)")
        _normalised_loop(af, af.args.args[1].arg, "create_appender", "LasAppender._create_laz_backend")
        # (5) the entry points hand the argument on as it is
        lmod = parse(repo, "laspy/lib.py")
        ol = _tail_inline(lmod, find_func(lmod, "open_las"))
        _require(_stores(ol, "laz_backend") == 0, "open_las re-binds laz_backend")
        seen = set()
        for n in ast.walk(ol):
            if isinstance(n, ast.Call) and _norm(n.func) in ("LasReader", "LasWriter", "LasAppender"):
                _require(any(k.arg == "laz_backend" and _norm(k.value) == "laz_backend" for k in n.keywords),
                         f"open_las: {_norm(n.func)}(..., laz_backend=laz_backend)")
                seen.add(_norm(n.func))
        _require(seen == {"LasReader", "LasWriter", "LasAppender"}, f"open_las constructs {sorted(seen)}")
        rl = find_func(lmod, "read_las")
        _require(_stores(rl, "laz_backend") == 0 and any(
            isinstance(n, ast.Call) and _norm(n.func) == "open_las" and any(k.arg == "laz_backend" and _norm(k.value) == "laz_backend" for k in n.keywords)
            for n in ast.walk(rl)), "read_las: open_las(..., laz_backend=laz_backend)")
        dcls = find_class(parse(repo, "laspy/lasdata.py"), "LasData")
        for fn in [n for n in dcls.body if isinstance(n, ast.FunctionDef) and n.name in ("write", "_write_to")
                   and not any("overload" in _norm(d) for d in n.decorator_list)]:
            _require(_stores(fn, "laz_backend") == 0, f"LasData.{fn.name} re-binds laz_backend")
            calls = [n for n in ast.walk(fn) if isinstance(n, ast.Call) and _norm(n.func) in ("self._write_to", "LasWriter")]
            _require(calls and all(any(k.arg == "laz_backend" and _norm(k.value) == "laz_backend" for k in c.keywords) for c in calls),
                     f"LasData.{fn.name}: laz_backend=laz_backend handed on")

        def lst(l):
            return "[" + "; ".join("true" if x else "false" for x in l) + "]"
        return ("(* the default selection (lazrs installed): the variants of _DEFAULT_BACKENDS in the order of the enum (true = parallel) *)\n"
                f"Definition gen_default_backends : list bool := {lst(dflt)}.\n"
                f"Definition gen_default_append_backends : list bool := {lst(app)}.\n"
                "(* what the loop of the three _create_laz_backend visits for an argument of the given form *)\n"
                "Definition gen_reader_backends (f : c14_form) : list bool := c14_norm_eafp (c14_or_default f gen_default_backends).\n"
                "Definition gen_writer_backends (f : c14_form) : list bool := c14_norm_eafp (c14_or_default f gen_default_backends).\n"
                "Definition gen_appender_backends (f : c14_form) : list bool := c14_norm_eafp (c14_or_default f gen_default_append_backends).\n")
    o.add("gen_backend_forms", backend_forms)

    # ------------------------------------------------------------------ the decompression selection
    def _selection_class():
        sys.path.insert(0, repo)
        importlib.import_module("laspy")            # laspy first: its own `import lazrs` must not see the stand-in below
        sel = importlib.import_module("laspy._compression.selection")
        if not os.path.realpath(sel.__file__).startswith(os.path.realpath(repo)):
            raise Untranslatable(f"laspy imported from {sel.__file__}, not from {repo}")
        return sel.DecompressionSelection

    def _codes(s):
        _require(isinstance(s, str) and s.isascii(), f"name {s!r}")
        return "[" + "; ".join(str(ord(c)) for c in s) + "]"

    def selection_table():
        """values of the running Flag class: every member (aliases included), all(), base(), the values frozen as defaults of
        the public entry points, and to_lazrs() of every member / of all() evaluated against the documented constants of lazrs"""
        import inspect
        import types
        ds = _selection_class()
        members = [(n, int(m)) for n, m in ds.__members__.items()]
        _require(members and all(v > 0 for _, v in members), "DecompressionSelection members")
        lib = importlib.import_module("laspy.lib")
        rd = importlib.import_module("laspy.lasreader")
        dfl = []
        for nm, fn in (("open_las", lib.open_las), ("read_las", lib.read_las), ("LasReader", rd.LasReader.__init__)):
            p = inspect.signature(fn).parameters.get("decompression_selection")
            _require(p is not None and p.default is not inspect.Parameter.empty and isinstance(p.default, int),
                     f"{nm}: decompression_selection has no integer default")
            dfl.append((nm, int(p.default)))
        # the constants of the lazrs extension (lazrs/src/lib.rs: SELECTIVE_DECOMPRESS_*), XY_RETURNS_CHANNEL = 0 is always on
        names = ["Z", "CLASSIFICATION", "FLAGS", "INTENSITY", "SCAN_ANGLE", "USER_DATA", "POINT_SOURCE_ID", "GPS_TIME", "RGB",
                 "NIR", "WAVEPACKET", "ALL_EXTRA_BYTES"]
        stub = types.ModuleType("lazrs")
        stub.SELECTIVE_DECOMPRESS_XY_RETURNS_CHANNEL = 0
        for i, n in enumerate(names):
            setattr(stub, "SELECTIVE_DECOMPRESS_" + n, 1 << i)
        stub.SELECTIVE_DECOMPRESS_ALL = 0xFFFFFFFF

        class _Sel:
            def __init__(self, value):
                self.value = int(value)
        stub.DecompressionSelection = _Sel
        saved = sys.modules.get("lazrs")
        sys.modules["lazrs"] = stub
        try:
            canon = [m for m in ds]                 # canonical members (what to_lazrs iterates)
            tl = [(int(m), int(ds(int(m)).to_lazrs().value)) for _, m in ds.__members__.items()]
            all_l = int(ds.all().to_lazrs().value)
            base_l = int(ds.base().to_lazrs().value)
            zero_l = int(ds(0).to_lazrs().value)
        finally:
            if saved is None:
                del sys.modules["lazrs"]
            else:
                sys.modules["lazrs"] = saved
        _require(len(canon) >= 1, "iterating DecompressionSelection yields nothing")
        return ("(* laspy/_compression/selection.py: values of the running DecompressionSelection class *)\n"
                "Definition selection_members : list (list Z * Z) := [" + "; ".join(f"({_codes(n)}, {v})" for n, v in members) + "].\n"
                f"Definition selection_all : Z := {int(ds.all())}.\n"
                f"Definition selection_base : Z := {int(ds.base())}.\n"
                f"Definition selection_xy_returns_channel : Z := {int(ds.xy_returns_channel())}.\n"
                "Definition selection_defaults : list (list Z * Z) := [" + "; ".join(f"({_codes(n)}, {v})" for n, v in dfl) + "].\n"
                "(* (member value, value of to_lazrs() of that member alone) with SELECTIVE_DECOMPRESS_Z = 1 ... ALL_EXTRA_BYTES = 2048 *)\n"
                "Definition selection_to_lazrs_table : list (Z * Z) := [" + "; ".join(f"({m}, {l})" for m, l in tl) + "].\n"
                f"Definition selection_all_to_lazrs : Z := {all_l}.\n"
                f"Definition selection_base_to_lazrs : Z := {base_l}.\n"
                f"Definition selection_none_to_lazrs : Z := {zero_l}.\n")
    o.add("selection_table", selection_table)

    def selection_methods():
        """skip_<x> / decompress_<x> / is_set_<x> of every member, evaluated on all() and on base()"""
        ds = _selection_class()
        rows = []
        for n, m in ds.__members__.items():
            low = n.lower()
            for meth in ("skip_", "decompress_", "is_set_"):
                _require(callable(getattr(ds, meth + low, None)), f"DecompressionSelection.{meth}{low} is missing")
            a, b = ds.all(), ds.base()
            rows.append((int(m), int(getattr(a, "skip_" + low)()), int(getattr(b, "decompress_" + low)()),
                         1 if getattr(a, "is_set_" + low)() else 0,
                         1 if getattr(getattr(a, "skip_" + low)(), "is_set_" + low)() else 0))
        return ("(* (member, all().skip_<m>(), base().decompress_<m>(), all().is_set_<m>(), all().skip_<m>().is_set_<m>()) *)\n"
                "Definition selection_method_table : list (Z * Z * Z * Z * Z) := ["
                + "; ".join(f"({m}, {s}, {d}, {i1}, {i2})" for m, s, d, i1, i2 in rows) + "].\n")
    o.add("selection_method_table", selection_methods)

    def selection_plumbing():
        """the selection the user passes is the one the decompressor gets: LasReader keeps it and hands it to create_reader,
        LazrsBackend.create_reader replaces None by all() only, LazrsPointReader converts it with to_lazrs() for both variants"""
        ini = find_func(rcls, "__init__")
        _require("self.decompression_selection = decompression_selection" in [_norm(s) for s in _body(ini)],
                 "LasReader.__init__: self.decompression_selection = decompression_selection")
        for s in ast.walk(rcls):
            if isinstance(s, (ast.Assign, ast.AugAssign)) and "self.decompression_selection" in [_norm(t) for t in getattr(s, "targets", [getattr(s, "target", None)]) if t is not None]:
                _require(_norm(s) == "self.decompression_selection = decompression_selection",
                         f"LasReader changes its decompression selection: {_norm(s)[:80]}")
        clb = find_func(rcls, "_create_laz_backend")
        calls = [n for n in ast.walk(clb) if isinstance(n, ast.Call) and _norm(n.func) == "backend.create_reader"]
        _require(len(calls) == 1 and any(k.arg == "decompression_selection" and _norm(k.value) == "self.decompression_selection"
                                         for k in calls[0].keywords),
                 "LasReader._create_laz_backend: create_reader(..., decompression_selection=self.decompression_selection)")
        cr = find_func(find_class(bmod, "LazrsBackend"), "create_reader")
        b = _body(cr)
        _require(len(b) >= 1 and isinstance(b[0], ast.If) and _norm(b[0].test) == "decompression_selection is None"
                 and [_norm(s) for s in b[0].body] == ["decompression_selection = DecompressionSelection.all()"] and not b[0].orelse,
                 "LazrsBackend.create_reader: None -> DecompressionSelection.all()")
        for s in b[1:]:
            _require(not any(isinstance(n, ast.Name) and n.id == "decompression_selection" and isinstance(n.ctx, ast.Store)
                             for n in ast.walk(s)), "LazrsBackend.create_reader re-binds the selection")
        ret = [n for n in ast.walk(cr) if isinstance(n, ast.Call) and _norm(n.func) == "LazrsPointReader"]
        _require(len(ret) == 1 and any(k.arg == "decompression_selection" and _norm(k.value) == "decompression_selection"
                                       for k in ret[0].keywords), "LazrsBackend.create_reader hands the selection to LazrsPointReader")
        pr = find_func(find_class(bmod, "LazrsPointReader"), "__init__")
        _require("selection = decompression_selection.to_lazrs()" in [_norm(s) for s in _body(pr)],
                 "LazrsPointReader.__init__: selection = decompression_selection.to_lazrs()")
        dcs = [n for n in ast.walk(pr) if isinstance(n, ast.Call)
               and _norm(n.func) in ("lazrs.ParLasZipDecompressor", "lazrs.LasZipDecompressor")]
        _require(len(dcs) == 2 and all(len(c.args) == 3 and _norm(c.args[2]) == "selection" and not c.keywords for c in dcs),
                 "LazrsPointReader.__init__: both decompressor variants get the converted selection")
        return "Definition gen_selection_reaches_decompressor : bool := true.\n"
    o.add("gen_selection_reaches_decompressor", selection_plumbing)

    def encoding_errors_plumbing():
        """the encoding_errors a writer was opened with reaches every header / VLR / EVLR write, compressed or not"""
        body = _body(winit)
        _require("self.encoding_errors = encoding_errors" in [_norm(s) for s in body], "LasWriter.__init__ keeps encoding_errors")
        wr = [s for s in body if "self.point_writer.write_initial_header_and_vlrs(" in _norm(s)]
        _require(len(wr) == 1 and _norm(wr[0]) == "self.point_writer.write_initial_header_and_vlrs(self.header, self.encoding_errors)",
                 "LasWriter.__init__: write_initial_header_and_vlrs(self.header, self.encoding_errors)")
        for n in ast.walk(wcls):
            if isinstance(n, ast.Call) and _norm(n.func).endswith((".write_updated_header", ".write_initial_header_and_vlrs")):
                _require(len(n.args) == 2 and _norm(n.args[1]) == "self.encoding_errors", f"{_norm(n)[:80]}: encoding_errors not handed over")
            if isinstance(n, ast.Call) and _norm(n.func).endswith(".write_to") and "vlr" in _norm(n.func).lower():
                _require(any(k.arg == "encoding_errors" and _norm(k.value) == "self.encoding_errors" for k in n.keywords),
                         f"{_norm(n)[:80]}: encoding_errors not handed over")
        pw = parse(repo, "laspy/_pointwriter.py")
        ip = find_class(pw, "IPointWriter")
        upd = _body(find_func(ip, "write_updated_header"))
        _require(any("encoding_errors=encoding_errors" in _norm(s) and "header.write_to(" in _norm(s) for s in upd),
                 "IPointWriter.write_updated_header hands encoding_errors to header.write_to")
        lw = find_class(bmod, "LazrsPointWriter")
        _require(not any(isinstance(n, ast.FunctionDef) and n.name == "write_updated_header" for n in lw.body),
                 "LazrsPointWriter overrides write_updated_header")
        for n in ast.walk(lw):
            if isinstance(n, ast.Call) and _norm(n.func).endswith("write_to"):
                raise Untranslatable("LazrsPointWriter writes a header itself: " + _norm(n)[:80])
        return "Definition gen_encoding_errors_reaches_header_writes : bool := true.\n"
    o.add("gen_encoding_errors_reaches_header_writes", encoding_errors_plumbing)
    return o


TARGETS = {"GenC14.v": gen}
