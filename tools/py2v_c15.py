"""py2v plugin for C15: laspy/copc.py -> Gen/GenCopc.v

Integer key arithmetic of `VoxelKey.child` / `childs` / `bounds`, the interval test of `Bounds.overlaps`, and a
structural summary of `load_octree_for_query` (stack discipline, the merge rule of a loaded page, the error raised
when the loaded page does not describe the node), of the integer box filter of `CopcReader.query`, of the order in which
the fetch strategies put the fetched ranges into the buffer, and of `Bounds.ensure_3d` (a new object, the caller's is not
written to).
load_octree_for_query, CopcReader.query, http_queue_strategy and HttpFetcherThread.run are read in a normal form (`canon`
below) and their fragments are compared with the reference ones up to one injective renaming of the locals.
Fail closed: a shape that is not recognised omits the definition, so Model/Copc.v stops compiling."""
import ast
import copy
import keyword as _kw
import re

import py2v
from py2v import Fn, Out, Untranslatable, find_class, find_func, parse


def _norm(node):
    return ast.unparse(node).replace(" ", "").replace("\n", "")


class _Subst(ast.NodeTransformer):
    """replace attribute/name expressions (by unparsed text) with plain names; `&` on comparisons -> `and`"""

    def __init__(self, table):
        self.table = table

    def visit(self, node):
        if isinstance(node, ast.expr):
            t = ast.unparse(node)
            if t in self.table:
                return ast.Name(id=self.table[t], ctx=ast.Load())
        return super().visit(node)

    def visit_BinOp(self, node):
        node = self.generic_visit(node)
        if isinstance(node.op, ast.BitAnd) and isinstance(node.left, ast.Compare) and isinstance(node.right, ast.Compare):
            return ast.BoolOp(op=ast.And(), values=[node.left, node.right])
        return node


# ======================================================================================================================
# Behaviour-preserving normal form of a function + matching of source fragments up to a consistent renaming of locals.
#   canon(f):  docstrings, annotations and logging calls dropped; a local helper whose body is one `return <expr>` inlined at
#              its call sites; `not` pushed inwards (De Morgan, `not (a is b)` -> `a is not b`, `not (a in r)` -> `a not in r`);
#              the `else`/`elif` part of an `if` whose body always leaves (continue/break/return/raise) lifted behind the `if`;
#              `if not c: A else: B` -> `if c: B else: A`; a local bound once and read once, by the next statement and before
#              anything with an effect is evaluated there, replaced by its defining expression.
#              `try: t = E / except Empty|KeyError|..: <leaves>` followed by `a, b = t` (only read of t) -> the unpacking
#              done in the try; a local that is never read is named `_`.
#   Alpha:     token-wise comparison of unparsed source with reference fragments in which the reference's local names are
#              variables: one injective renaming of the function's locals has to make ALL fragments fit (parameters, attributes,
#              keyword names, globals are never renamed).
# Everything not understood is left as it is (so the fragments of the reference do not fit and the definition is MISSING).
# ======================================================================================================================

_LEAVE = (ast.Return, ast.Raise, ast.Continue, ast.Break)
_OPAQUE = (ast.Lambda, ast.ListComp, ast.SetComp, ast.DictComp, ast.GeneratorExp, ast.Dict)
_EFFECT = (ast.Call, ast.Await, ast.Yield, ast.YieldFrom, ast.NamedExpr)
_FLIP = {ast.Is: ast.IsNot, ast.IsNot: ast.Is, ast.In: ast.NotIn, ast.NotIn: ast.In}


def _blocks(node):
    """every statement list below node (node's own included)"""
    for n in ast.walk(node):
        for field in ("body", "orelse", "finalbody"):
            b = getattr(n, field, None)
            if isinstance(b, list) and b and isinstance(b[0], ast.stmt):
                yield b


def _leaves(block):
    if not block:
        return False
    last = block[-1]
    if isinstance(last, _LEAVE):
        return True
    return isinstance(last, ast.If) and _leaves(last.body) and _leaves(last.orelse)


def _is_log_call(s):
    if not (isinstance(s, ast.Expr) and isinstance(s.value, ast.Call) and isinstance(s.value.func, ast.Attribute)):
        return False
    base = s.value.func.value
    return isinstance(base, ast.Name) and base.id in ("logger", "logging", "log", "_logger", "LOGGER") and \
        s.value.func.attr in ("debug", "info", "warning", "error", "exception", "critical", "log")


def _strip(f):
    for n in ast.walk(f):
        if isinstance(n, (ast.FunctionDef, ast.AsyncFunctionDef)):
            n.returns = None
            a = n.args
            for arg in a.posonlyargs + a.args + a.kwonlyargs + [x for x in (a.vararg, a.kwarg) if x is not None]:
                arg.annotation = None
    for b in _blocks(f):
        new = []
        for s in b:
            if isinstance(s, ast.Expr) and isinstance(s.value, ast.Constant):
                continue                                             # docstring / bare literal: no effect
            if _is_log_call(s):
                continue
            if isinstance(s, ast.AnnAssign):
                if s.value is None:
                    continue
                if isinstance(s.target, ast.Name):
                    s = ast.copy_location(ast.Assign(targets=[s.target], value=s.value), s)
            new.append(s)
        b[:] = new or [ast.Pass()]


def _nnf(e, truth=False):
    """`not` pushed inwards; truth: only the truth value of e is used"""
    if isinstance(e, ast.UnaryOp) and isinstance(e.op, ast.Not):
        x = _nnf(e.operand, True)
        if isinstance(x, ast.BoolOp):
            dual = ast.Or() if isinstance(x.op, ast.And) else ast.And()
            return ast.BoolOp(op=dual, values=[_nnf(ast.UnaryOp(op=ast.Not(), operand=v), True) for v in x.values])
        if isinstance(x, ast.Compare) and len(x.ops) == 1 and type(x.ops[0]) in _FLIP:
            return ast.Compare(left=x.left, ops=[_FLIP[type(x.ops[0])]()], comparators=x.comparators)
        if isinstance(x, ast.UnaryOp) and isinstance(x.op, ast.Not) and truth:
            return x.operand
        return ast.UnaryOp(op=ast.Not(), operand=x)
    if isinstance(e, ast.BoolOp):
        return ast.BoolOp(op=e.op, values=[_nnf(v, truth) for v in e.values])
    if isinstance(e, ast.IfExp):
        return ast.IfExp(test=_nnf(e.test, True), body=_nnf(e.body, truth), orelse=_nnf(e.orelse, truth))
    for field, v in ast.iter_fields(e):
        if isinstance(v, ast.expr):
            setattr(e, field, _nnf(v))
        elif isinstance(v, list):
            setattr(e, field, [_nnf(x) if isinstance(x, ast.expr) else _nnf_other(x) for x in v])
        elif isinstance(v, ast.AST):
            _nnf_other(v)
    return e


def _nnf_other(n):
    """keyword / comprehension / slice-like helpers: normalise the expressions inside"""
    if isinstance(n, ast.AST):
        for field, v in ast.iter_fields(n):
            if isinstance(v, ast.expr):
                setattr(n, field, _nnf(v))
            elif isinstance(v, list):
                setattr(n, field, [_nnf(x) if isinstance(x, ast.expr) else _nnf_other(x) for x in v])
    return n


def _nnf_stmts(f):
    for n in ast.walk(f):
        if not isinstance(n, ast.stmt):
            continue
        for field, v in ast.iter_fields(n):
            if isinstance(v, ast.expr):
                setattr(n, field, _nnf(v, truth=field == "test"))
            elif isinstance(v, list) and v and isinstance(v[0], ast.expr):
                setattr(n, field, [_nnf(x) for x in v])
            elif isinstance(v, list) and v and isinstance(v[0], ast.withitem):
                for w in v:
                    w.context_expr = _nnf(w.context_expr)


def _negate(e):
    return _nnf(ast.UnaryOp(op=ast.Not(), operand=e), True)


def _is_not(e):
    return isinstance(e, ast.UnaryOp) and isinstance(e.op, ast.Not)


def _branches(f):
    changed = False
    for b in list(_blocks(f)):
        i = 0
        while i < len(b):
            s = b[i]
            if isinstance(s, ast.If) and s.orelse:
                if _leaves(s.orelse) and not _leaves(s.body):
                    s.test, s.body, s.orelse = _negate(s.test), s.orelse, s.body
                    changed = True
                if _leaves(s.body):
                    b[i + 1:i + 1] = s.orelse
                    s.orelse = []
                    changed = True
                elif _is_not(s.test):
                    s.test, s.body, s.orelse = s.test.operand, s.orelse, s.body
                    changed = True
            i += 1
    return changed


def _name_counts(f):
    loads, stores = {}, {}

    def bump(d, k, n=1):
        d[k] = d.get(k, 0) + n
    for n in ast.walk(f):
        if isinstance(n, ast.Name):
            bump(loads if isinstance(n.ctx, ast.Load) else stores, n.id)
        elif isinstance(n, ast.arg):
            bump(stores, n.arg)
        elif isinstance(n, ast.ExceptHandler) and n.name:
            bump(stores, n.name)
        elif isinstance(n, (ast.Global, ast.Nonlocal)):
            for k in n.names:
                bump(stores, k, 2)
        elif isinstance(n, (ast.FunctionDef, ast.AsyncFunctionDef, ast.ClassDef)) and n is not f:
            bump(stores, n.name)
        elif isinstance(n, ast.alias):
            bump(stores, (n.asname or n.name).split(".")[0])
        if isinstance(n, ast.AugAssign) and isinstance(n.target, ast.Name):
            bump(loads, n.target.id)
    return loads, stores


def _mentions(node, name):
    return any(isinstance(m, ast.Name) and m.id == name for m in ast.walk(node))


class _Use:
    """is the single read of `name` in the expressions a statement evaluates first reached unconditionally and before any effect?"""

    def __init__(self, name):
        self.name, self.effect, self.verdict = name, False, None

    def scan(self, e, cond=False):
        if self.verdict is not None or e is None:
            return
        if isinstance(e, ast.Name):
            if e.id == self.name and isinstance(e.ctx, ast.Load):
                self.verdict = not (cond or self.effect)
            return
        if isinstance(e, _OPAQUE):
            if _mentions(e, self.name):
                self.verdict = False
            elif any(isinstance(m, _EFFECT) for m in ast.walk(e)):
                self.effect = True
            return
        if isinstance(e, ast.BoolOp):
            self.scan(e.values[0], cond)
            for v in e.values[1:]:
                self.scan(v, True)
            return
        if isinstance(e, ast.IfExp):
            self.scan(e.test, cond)
            self.scan(e.body, True)
            self.scan(e.orelse, True)
            return
        if isinstance(e, ast.Compare):
            self.scan(e.left, cond)
            self.scan(e.comparators[0], cond)
            for v in e.comparators[1:]:
                self.scan(v, True)
            return
        for child in ast.iter_child_nodes(e):
            if isinstance(child, (ast.expr, ast.keyword, ast.Slice)):
                self.scan(child, cond)
        if isinstance(e, _EFFECT):
            self.effect = True


def _heads(s):
    """the expressions statement s evaluates exactly once, first, in this order (None: unknown statement)"""
    if isinstance(s, ast.Assign):
        return [s.value] + s.targets
    if isinstance(s, (ast.Expr, ast.Return)):
        return [s.value]
    if isinstance(s, ast.Raise):
        return [s.exc, s.cause]
    if isinstance(s, ast.If):
        return [s.test]
    if isinstance(s, ast.For):
        return [s.iter]
    if isinstance(s, ast.With):
        return [s.items[0].context_expr]
    return None


class _Put(ast.NodeTransformer):
    def __init__(self, table):
        self.table = table

    def visit_Name(self, node):
        if isinstance(node.ctx, ast.Load) and node.id in self.table:
            return copy.deepcopy(self.table[node.id])
        return node


def _inline_temps(f):
    changed = False
    loads, stores = _name_counts(f)
    for b in list(_blocks(f)):
        i = 0
        while i + 1 < len(b):
            s, nxt = b[i], b[i + 1]
            if isinstance(s, ast.Assign) and len(s.targets) == 1 and isinstance(s.targets[0], ast.Name):
                t = s.targets[0].id
                heads = _heads(nxt)
                if stores.get(t) == 1 and loads.get(t) == 1 and heads is not None and not _mentions(s.value, t):
                    use = _Use(t)
                    for h in heads:
                        use.scan(h)
                    if use.verdict:
                        put = _Put({t: s.value})
                        for field, v in list(ast.iter_fields(nxt)):
                            if isinstance(v, ast.expr) and any(v is h for h in heads):
                                setattr(nxt, field, put.visit(v))
                            elif isinstance(v, list) and v and all(isinstance(x, ast.expr) for x in v):
                                setattr(nxt, field, [put.visit(x) if any(x is h for h in heads) else x for x in v])
                        if isinstance(nxt, ast.With):
                            nxt.items[0].context_expr = put.visit(nxt.items[0].context_expr)
                        del b[i]
                        loads[t] = 0
                        changed = True
                        i = max(i - 1, 0)
                        continue
            i += 1
    return changed


def _simple_arg(e):
    while isinstance(e, ast.Attribute):
        e = e.value
    return isinstance(e, (ast.Name, ast.Constant))


def _inline_helpers(f):
    changed = False
    for b in list(_blocks(f)):
        for s in list(b):
            if not (isinstance(s, ast.FunctionDef) and s is not f and not s.decorator_list):
                continue
            a = s.args
            if a.vararg or a.kwarg or a.kwonlyargs or a.defaults or a.kw_defaults:
                continue
            body = [x for x in s.body if not (isinstance(x, ast.Expr) and isinstance(x.value, ast.Constant))]
            if len(body) != 1 or not isinstance(body[0], ast.Return) or body[0].value is None:
                continue
            expr = body[0].value
            if any(isinstance(m, _OPAQUE[:-1] + (ast.NamedExpr, ast.Await, ast.Yield, ast.YieldFrom)) for m in ast.walk(expr)):
                continue
            params = [x.arg for x in a.posonlyargs + a.args]
            loads, stores = _name_counts(f)
            if stores.get(s.name) != 1:
                continue
            free = {m.id for m in ast.walk(expr) if isinstance(m, ast.Name)} - set(params)
            late = [m for m in ast.walk(f) if isinstance(m, ast.Name) and not isinstance(m.ctx, ast.Load) and m.id in free
                    and m.lineno >= s.lineno]
            if late or any(stores.get(k, 0) > 1 for k in free):
                continue                                             # what the helper reads may change between definition and call
            calls = [m for m in ast.walk(f) if isinstance(m, ast.Call) and isinstance(m.func, ast.Name) and m.func.id == s.name]
            if len(calls) != loads.get(s.name, 0) or not calls:
                continue                                             # the helper is also passed around
            if any(c.keywords or len(c.args) != len(params) or not all(_simple_arg(x) for x in c.args)
                   or c.lineno <= s.end_lineno for c in calls):
                continue
            ids = {id(c): c for c in calls}

            class _Calls(ast.NodeTransformer):
                def visit_Call(self, node):
                    node = self.generic_visit(node)
                    if id(node) in ids:
                        return _Put(dict(zip(params, node.args))).visit(copy.deepcopy(expr))
                    return node
            b.remove(s)
            _Calls().visit(f)
            changed = True
    return changed


_NOT_UNPACK_ERRORS = ("Empty", "KeyError", "IndexError", "StopIteration")


def _try_tails(f):
    """try: t = E / except <lookup error>: <leaves>   followed by   a, b = t   (the only read of t)
       ->  try: a, b = E / except ...   — unpacking a name raises TypeError/ValueError only, which such a handler does not catch"""
    changed = False
    loads, stores = _name_counts(f)
    for b in list(_blocks(f)):
        for i in range(len(b) - 1):
            s, nxt = b[i], b[i + 1]
            if not (isinstance(s, ast.Try) and s.handlers and not s.orelse and not s.finalbody
                    and all(isinstance(h.type, ast.Name) and h.type.id in _NOT_UNPACK_ERRORS and _leaves(h.body) for h in s.handlers)):
                continue
            last = s.body[-1]
            if not (isinstance(last, ast.Assign) and len(last.targets) == 1 and isinstance(last.targets[0], ast.Name)):
                continue
            t = last.targets[0].id
            if not (isinstance(nxt, ast.Assign) and isinstance(nxt.value, ast.Name) and nxt.value.id == t and len(nxt.targets) == 1
                    and isinstance(nxt.targets[0], (ast.Tuple, ast.List)) and all(isinstance(x, ast.Name) for x in nxt.targets[0].elts)
                    and loads.get(t) == 1 and stores.get(t) == 1):
                continue
            last.targets = nxt.targets
            del b[i + 1]
            return True
    return changed


def _dead_stores(f):
    """a local that is never read is named `_`"""
    loads, stores = _name_counts(f)
    if loads.get("_"):
        return
    params = {n.arg for n in ast.walk(f) if isinstance(n, ast.arg)}
    fixed = {k for n in ast.walk(f) if isinstance(n, (ast.Global, ast.Nonlocal)) for k in n.names}
    for n in ast.walk(f):
        if isinstance(n, ast.Name) and isinstance(n.ctx, ast.Store) and not loads.get(n.id) and n.id not in params | fixed:
            n.id = "_"


def canon(f):
    f = copy.deepcopy(f)
    _strip(f)
    for _ in range(50):
        _nnf_stmts(f)
        if not (_inline_helpers(f) | _branches(f) | _try_tails(f) | _inline_temps(f)):
            break
    _dead_stores(f)
    return ast.fix_missing_locations(f)


_TOKEN = re.compile(r"""\s*(?:(?P<lit>[rbfuRBFU]{0,2}(?:'(?:[^'\\]|\\.)*'|"(?:[^"\\]|\\.)*")|\d[\w.]*)|(?P<id>[A-Za-z_]\w*)"""
                    r"""|(?P<op>\*\*=?|//=?|<<=?|>>=?|[-+*/%&|^@<>=!:]=|->|\.\.\.|\S))""")


def _tokens(text):
    raw = [(m.lastgroup, m.group(m.lastgroup)) for m in _TOKEN.finditer(text) if m.lastgroup]
    out, stack = [], []
    for i, (k, t) in enumerate(raw):
        if k == "op" and t in "([{":
            stack.append(t)
        elif k == "op" and t in ")]}" and stack:
            stack.pop()
        if k == "id":
            prev = raw[i - 1][1] if i else ""
            nxt = raw[i + 1][1] if i + 1 < len(raw) else ""
            if prev == ".":
                k = "attr"
            elif nxt == "=" and stack and stack[-1] == "(" and prev in ("(", ","):
                k = "kw"
            elif _kw.iskeyword(t):
                k = "key"
        out.append((k, t))
    return out


def _bound_names(f):
    top = f.args
    params = {a.arg for a in top.posonlyargs + top.args + top.kwonlyargs + [x for x in (top.vararg, top.kwarg) if x]}
    bound, fixed = set(), set(params)
    for n in ast.walk(f):
        if isinstance(n, ast.Name) and not isinstance(n.ctx, ast.Load):
            bound.add(n.id)
        elif isinstance(n, ast.arg):
            bound.add(n.arg)
        elif isinstance(n, ast.ExceptHandler) and n.name:
            bound.add(n.name)
        elif isinstance(n, (ast.FunctionDef, ast.AsyncFunctionDef)) and n is not f:
            bound.add(n.name)
        elif isinstance(n, (ast.Global, ast.Nonlocal)):
            fixed.update(n.names)
        elif isinstance(n, (ast.ClassDef, ast.alias)):
            fixed.add(getattr(n, "asname", None) or n.name)
    return bound - fixed - {"_"}


class Alpha:
    """f: a function in normal form; ref_locals: the local names of the reference that occur in the fragments"""

    def __init__(self, f, ref_locals):
        self.f = f
        self.src = _tokens(ast.unparse(f))
        self.renamable = _bound_names(f)
        self.ref = set(ref_locals.split())

    def _fit(self, needle, pos, bind, inv):
        if pos + len(needle) > len(self.src):
            return None
        bind, inv = dict(bind), dict(inv)
        for (nk, nt), (sk, st) in zip(needle, self.src[pos:pos + len(needle)]):
            if nk == "id" and nt in self.ref:
                if sk != "id" or st not in self.renamable:
                    return None
                if bind.setdefault(nt, st) != st or inv.setdefault(st, nt) != nt:
                    return None
            elif nk != sk or nt != st or (sk == "id" and st in self.renamable):
                return None
        return bind, inv

    def solve(self, fragments):
        """fragments: {what: text}. Returns None, or raises Untranslatable naming the first fragment that fits nowhere under
        any renaming that fits the fragments before it."""
        items = [(what, _tokens(_fragment(text))) for what, text in fragments.items()]
        deepest = [0]

        def go(i, bind, inv):
            if i == len(items):
                return bind
            deepest[0] = max(deepest[0], i)
            for pos in range(len(self.src) - len(items[i][1]) + 1):
                r = self._fit(items[i][1], pos, bind, inv)
                if r is not None:
                    done = go(i + 1, *r)
                    if done is not None:
                        return done
            return None
        bind = go(0, {}, {})
        if bind is None:
            what = items[deepest[0]][0]
            raise Untranslatable(f"{self.f.name}: {what}: `{' '.join(fragments[what].split())}` not found (up to renaming of locals)")
        self.bind = bind
        return bind

    def renamed(self):
        """the function with its locals named as in the reference"""
        to_ref = {v: k for k, v in self.bind.items()}
        g = copy.deepcopy(self.f)
        others = set()
        for n in ast.walk(g):
            if isinstance(n, ast.Name) and n.id not in to_ref:
                others.add(n.id)
            elif isinstance(n, ast.arg) and n.arg not in to_ref:
                others.add(n.arg)
        clash = others & set(to_ref.values())
        if clash:
            raise Untranslatable(f"{g.name}: renaming of locals clashes on {sorted(clash)}")
        for n in ast.walk(g):
            if isinstance(n, ast.Name) and n.id in to_ref:
                n.id = to_ref[n.id]
            elif isinstance(n, ast.arg) and n.arg in to_ref:
                n.arg = to_ref[n.arg]
            elif isinstance(n, ast.ExceptHandler) and n.name in to_ref:
                n.name = to_ref[n.name]
            elif isinstance(n, (ast.FunctionDef, ast.AsyncFunctionDef)) and n is not g and n.name in to_ref:
                n.name = to_ref[n.name]
        return g


def _fragment(text):
    """a reference fragment printed the way ast.unparse prints the source (when it is a complete statement list)"""
    try:
        return ast.unparse(ast.parse(text))
    except SyntaxError:
        return text


# ======================================================================================================================
# Normal form of the MODULE: a definition that cannot be read from the source as written is read again (same reader, same
# reference text) from the module in which the calls of helpers that did not exist when the readers were written
# (tools/known_functions.json) are undone. Every step is an equivalence; what is not understood stays as written.
#   1. _inline_rebinding   `T = h(a, ..)` / `h(a, ..)` in the top-level body of a function, h a new helper that RE-BINDS parameters
#                          (py2v.Inliner refuses those): inlined with the parameter standing for the caller's variable when that
#                          variable is dead after the call (or is T itself); a helper local that is returned into a T of the same
#                          name keeps its name
#   2. py2v.normal_form    all the other calls of new helpers
#   3. _sink_shared_head   `t = E; S; if t: A else: B` (t used once) -> `if E: S; A else: S; B`
#   4. _unhoist            a new module-level function that a function passes around (not calls) and that reads nothing bound in
#                          that function: defined locally again (first statement of the with-block / body that holds all the uses)
# ======================================================================================================================
_NO_INLINE = (ast.FunctionDef, ast.AsyncFunctionDef, ast.ClassDef, ast.Lambda, ast.Global, ast.Nonlocal, ast.Yield, ast.YieldFrom,
              ast.Await, ast.Import, ast.ImportFrom, ast.Delete, ast.ListComp, ast.SetComp, ast.DictComp, ast.GeneratorExp,
              ast.NamedExpr, ast.Return)


def _stored_names(stmts):
    out = set()
    for s in stmts:
        for n in ast.walk(s):
            if isinstance(n, ast.Name) and not isinstance(n.ctx, ast.Load):
                out.add(n.id)
            elif isinstance(n, ast.ExceptHandler) and n.name:
                out.add(n.name)
    return out


def _all_params(f):
    a = f.args
    return {x.arg for x in a.posonlyargs + a.args + a.kwonlyargs + [y for y in (a.vararg, a.kwarg) if y is not None]}


def _no_doc(body):
    return [x for x in body if not (isinstance(x, ast.Expr) and isinstance(x.value, ast.Constant))]


class _Rename(ast.NodeTransformer):
    """names: name -> name (every context); exprs: name -> expression (reads only)"""

    def __init__(self, names, exprs):
        self.names, self.exprs = names, exprs

    def visit_Name(self, node):
        if node.id in self.names:
            return ast.copy_location(ast.Name(id=self.names[node.id], ctx=node.ctx), node)
        if node.id in self.exprs and isinstance(node.ctx, ast.Load):
            return copy.deepcopy(self.exprs[node.id])
        return node

    def visit_ExceptHandler(self, node):
        node = self.generic_visit(node)
        if node.name in self.names:
            node.name = self.names[node.name]
        return node


def _assigned_first(body, name):
    """the first top-level statement of body that mentions name is `name = <expression without name>`"""
    for s in body:
        if _mentions(s, name):
            if isinstance(s, ast.AnnAssign) and s.value is not None:
                tg = [s.target]
            elif isinstance(s, ast.Assign):
                tg = s.targets
            else:
                return False
            return len(tg) == 1 and isinstance(tg[0], ast.Name) and tg[0].id == name and not _mentions(s.value, name)
    return False


def _rebinding_body(mod, cls, f, i, target, call):
    fn, args = call.func, list(call.args)
    if call.keywords or any(isinstance(a, ast.Starred) for a in args):
        return None
    caller_params = _all_params(f)
    caller_bound = caller_params | _stored_names(f.body)
    if isinstance(fn, ast.Attribute) and isinstance(fn.value, ast.Name) and fn.value.id == "self" and cls is not None \
            and f.args.args and f.args.args[0].arg == "self" and "self" not in _stored_names(f.body) \
            and not any(ast.unparse(d) in ("staticmethod", "classmethod") for d in f.decorator_list):
        name, where, args = fn.attr, cls, [fn.value] + args
    elif isinstance(fn, ast.Name) and fn.id not in caller_bound:
        name, where = fn.id, mod
    else:
        return None
    if name in py2v.KNOWN_FUNCTIONS:
        return None
    hs = [n for n in where.body if isinstance(n, (ast.FunctionDef, ast.AsyncFunctionDef, ast.ClassDef)) and n.name == name]
    if len(hs) != 1 or not isinstance(hs[0], ast.FunctionDef) or hs[0].decorator_list or hs[0] is f \
            or name in _stored_names([n for n in where.body if not isinstance(n, (ast.FunctionDef, ast.ClassDef))]):
        return None
    h = hs[0]
    a = h.args
    if a.vararg or a.kwarg or a.kwonlyargs or a.posonlyargs or a.defaults or a.kw_defaults:
        return None
    params = [p.arg for p in a.args]
    if len(params) != len(args) or len(set(params)) != len(params):
        return None
    body, ret = _no_doc(h.body), None
    if body and isinstance(body[-1], ast.Return):
        ret, body = body[-1].value, body[:-1]
    if not body or any(isinstance(n, _NO_INLINE) for x in body for n in ast.walk(x)):
        return None
    hstores = _stored_names(body)
    rebound = [p for p in params if p in hstores]
    if not rebound or not all(_simple_arg(x) for x in args):
        return None                                                  # nothing re-bound: left to py2v.Inliner
    if any(isinstance(n, (ast.FunctionDef, ast.AsyncFunctionDef, ast.Lambda, ast.ClassDef, ast.Global, ast.Nonlocal))
           for x in f.body for n in ast.walk(x)):
        return None                                                  # a closure of the caller could see the re-bound variable
    caller_names = {n.id for n in ast.walk(f) if isinstance(n, ast.Name)} | caller_params
    later = f.body[i + 1:]
    names, exprs = {}, {}
    for p, e in zip(params, args):
        if p in rebound:
            if not (isinstance(e, ast.Name) and e.id in caller_bound) or sum(_mentions(x, e.id) for x in args) != 1:
                return None
            if e.id != target and any(_mentions(x, e.id) for x in later):
                return None                                          # the caller still uses its own value afterwards
            names[p] = e.id
        else:
            exprs[p] = e
    locs = hstores - set(params)
    free = {n.id for x in body + ([ret] if ret is not None else []) for n in ast.walk(x) if isinstance(n, ast.Name)} - hstores - set(params)
    if free & caller_bound:
        return None                                                  # a global of the helper would be captured by a local of the caller
    keep = None
    if target is not None and isinstance(ret, ast.Name) and ret.id in locs and ret.id == target \
            and not any(_mentions(x, target) for x in args) and _assigned_first(body, target):
        keep = target
    if target is not None and keep is None and target not in names.values() and any(_mentions(x, target) for x in args):
        return None
    for k, l in enumerate(sorted(locs)):
        if l != keep and (l in caller_names or l in names.values()):
            fresh = f"{l}__r{k}"
            if fresh in caller_names or fresh in hstores:
                return None
            names[l] = fresh
    tr = _Rename(names, exprs)
    out = [tr.visit(copy.deepcopy(x)) for x in body]
    res = tr.visit(copy.deepcopy(ret)) if ret is not None else None
    if target is None:
        if res is not None and not isinstance(res, (ast.Name, ast.Constant)):
            return None
    elif not (isinstance(res, ast.Name) and res.id == target):
        out.append(ast.Assign(targets=[ast.Name(id=target, ctx=ast.Store())], value=res if res is not None else ast.Constant(value=None)))
    return out


def _inline_rebinding(mod):
    mod = copy.deepcopy(mod)

    def one(cls, f):
        for i, s in enumerate(f.body):
            if isinstance(s, ast.Assign) and len(s.targets) == 1 and isinstance(s.targets[0], ast.Name) and isinstance(s.value, ast.Call):
                new = _rebinding_body(mod, cls, f, i, s.targets[0].id, s.value)
            elif isinstance(s, ast.Expr) and isinstance(s.value, ast.Call):
                new = _rebinding_body(mod, cls, f, i, None, s.value)
            else:
                continue
            if new is not None:
                f.body[i:i + 1] = [ast.copy_location(x, s) for x in new]
                return True
        return False

    def scope(nodes, cls):
        for n in nodes:
            if isinstance(n, ast.ClassDef):
                scope(n.body, n)
            elif isinstance(n, ast.FunctionDef):
                for _ in range(8):
                    if not one(cls, n):
                        break
    scope(mod.body, None)
    return ast.fix_missing_locations(mod)


def _sink_shared_head(f):
    changed = True
    while changed:
        changed = False
        loads, stores = _name_counts(f)
        for b in list(_blocks(f)):
            for i in range(len(b) - 2):
                s, mid, br = b[i], b[i + 1], b[i + 2]
                if not (isinstance(s, ast.Assign) and len(s.targets) == 1 and isinstance(s.targets[0], ast.Name)):
                    continue
                t = s.targets[0].id
                if not (isinstance(br, ast.If) and isinstance(br.test, ast.Name) and br.test.id == t and br.body and br.orelse
                        and loads.get(t) == 1 and stores.get(t) == 1 and not _mentions(s.value, t)):
                    continue
                if not (isinstance(mid, ast.Assign) and all(isinstance(x, ast.Name) for x in mid.targets) and not _mentions(mid, t)):
                    continue
                br.test = s.value
                br.body.insert(0, mid)
                br.orelse.insert(0, copy.deepcopy(mid))
                del b[i:i + 2]
                changed = True
                break
            if changed:
                break
    return f


def _unhoist(mod):
    tops = {}
    for n in mod.body:
        if isinstance(n, (ast.FunctionDef, ast.AsyncFunctionDef, ast.ClassDef)):
            tops.setdefault(n.name, []).append(n)
    other = _stored_names([n for n in mod.body if not isinstance(n, (ast.FunctionDef, ast.AsyncFunctionDef, ast.ClassDef))])

    def fix(f):
        called = {id(c.func) for c in ast.walk(f) if isinstance(c, ast.Call)}
        bound = _bound_names(f) | _all_params(f)
        passed = []
        for n in ast.walk(f):
            if isinstance(n, ast.Name) and isinstance(n.ctx, ast.Load) and id(n) not in called and n.id not in passed:
                passed.append(n.id)
        for name in passed:
            g = tops.get(name, [None])[0]
            if name in py2v.KNOWN_FUNCTIONS or name in bound or name in other or len(tops.get(name, [])) != 1 \
                    or not isinstance(g, ast.FunctionDef) or g.decorator_list or g is f:
                continue
            if any(isinstance(x, (ast.Global, ast.Nonlocal)) for x in ast.walk(g)):
                continue
            reads = {x.id for x in ast.walk(g) if isinstance(x, ast.Name)} - _all_params(g) - _stored_names(g.body)
            if reads & bound or any(isinstance(x, (ast.FunctionDef, ast.AsyncFunctionDef, ast.Lambda, ast.ClassDef)) and x is not g
                                    for x in ast.walk(g)):
                continue                                             # the local copy would read the function's variables
            block = f.body
            while True:
                holders = [s for s in block if _mentions(s, name)]
                if len(holders) == 1 and isinstance(holders[0], ast.With) and not any(_mentions(w.context_expr, name) for w in holders[0].items):
                    block = holders[0].body
                else:
                    break
            at = 1 if block is f.body and block and isinstance(block[0], ast.Expr) and isinstance(block[0].value, ast.Constant) else 0
            block.insert(at, copy.deepcopy(g))

    for n in mod.body:
        if isinstance(n, ast.FunctionDef):
            fix(n)
        elif isinstance(n, ast.ClassDef):
            for m in n.body:
                if isinstance(m, ast.FunctionDef):
                    fix(m)
    return ast.fix_missing_locations(mod)


def _normal_module(repo, rel):
    raw = py2v.parse_raw(repo, rel)
    try:
        pre = _inline_rebinding(raw)
    except Exception:
        pre = raw
    mod = py2v.normal_form(repo, rel, pre)
    try:
        done = copy.deepcopy(mod)
        for n in ast.walk(done):
            if isinstance(n, ast.FunctionDef):
                _sink_shared_head(n)
        done = _unhoist(done)
    except Exception:
        done = mod
    return done


def gen_copc(repo):
    o = Out("laspy/copc.py VoxelKey.child/childs/bounds, Bounds.overlaps, load_octree_for_query, CopcReader.query")
    mod = _normal_module(repo, "laspy/copc.py") if py2v.NF_MODE else parse(repo, "laspy/copc.py")
    env4 = {"self_level": "Z", "self_x": "Z", "self_y": "Z", "self_z": "Z"}

    # every definition: read from the source as written; only when that fails, from the normal form of the module (see
    # _normal_module) - the text is the same, so a behaviour-preserving split into new helpers regenerates the same file;
    # when both fail the definition is MISSING with the reason of the first reading
    add_as_written, nf_cache = o.add, []

    def add(name, thunk):
        def both():
            nonlocal mod
            try:
                return thunk()
            except Exception as first:
                if py2v.NF_MODE or __import__("os").environ.get("VERIF_PY2V_INLINE", "1") == "0":
                    raise
                raw, py2v.NF_MODE = mod, True
                try:
                    if not nf_cache:
                        nf_cache.append(_normal_module(repo, "laspy/copc.py"))
                    mod = nf_cache[0]
                    return thunk()
                except Exception:
                    raise first
                finally:
                    mod, py2v.NF_MODE = raw, False
        add_as_written(name, both)
    o.add = add

    # ---- VoxelKey.child: one Gallina function per assigned attribute -------------------------------------
    def child():
        cls = find_class(mod, "VoxelKey")
        f = find_func(cls, "child")
        pn = [a.arg for a in f.args.args]
        if pn != ["self", "dir"]:
            raise Untranslatable(f"child parameters {pn}")
        body = [s for s in f.body if not (isinstance(s, ast.Expr) and isinstance(s.value, ast.Constant))]
        if len(body) != 6 or _norm(body[0]) != "key=VoxelKey()" or _norm(body[-1]) != "returnkey":
            raise Untranslatable("child: shape")
        txt = ""
        seen = []
        for s in body[1:-1]:
            if not (isinstance(s, ast.Assign) and len(s.targets) == 1 and isinstance(s.targets[0], ast.Attribute)
                    and isinstance(s.targets[0].value, ast.Name) and s.targets[0].value.id == "key"):
                raise Untranslatable("child: statement " + ast.unparse(s))
            attr = s.targets[0].attr
            fn = Fn(dict(env4, dir="Z"), {}, state=["level", "x", "y", "z"])
            v, t = fn.expr(s.value)
            if t != "Z":
                raise Untranslatable("child: non-int attribute")
            seen.append(attr)
            txt += f"Definition gen_child_{attr} (self_level self_x self_y self_z dir : Z) : Z := {v}.\n"
        if seen != ["level", "x", "y", "z"]:
            raise Untranslatable(f"child: attributes {seen}")
        return txt
    o.add("gen_child", child)

    def childs():
        cls = find_class(mod, "VoxelKey")
        f = find_func(cls, "childs")
        if len(f.body) != 1 or _norm(f.body[0]) != "return(self.child(i)foriinrange(8))":
            raise Untranslatable("childs: shape " + _norm(f.body[0]))
        return "Definition gen_childs_n : Z := 8.\n"
    o.add("gen_childs_n", childs)

    # ---- VoxelKey.bounds: mins = root.mins + [x,y,z] * side / 2**level, maxs with x+1 ----------------------
    def bounds():
        cls = find_class(mod, "VoxelKey")
        f = find_func(cls, "bounds")
        body = [s for s in f.body if not (isinstance(s, ast.Expr) and isinstance(s.value, ast.Constant))]
        want = ["side_size=(root_bounds.maxs[0]-root_bounds.mins[0])/2**self.level",
                "mins=root_bounds.mins+np.array([self.x,self.y,self.z])*side_size",
                "maxs=root_bounds.mins+np.array([self.x+1,self.y+1,self.z+1])*side_size",
                "returnBounds(mins,maxs)"]
        got = [_norm(s) for s in body]
        if got != want:
            raise Untranslatable(f"bounds: shape {got}")
        fn = Fn(dict(env4), {}, state=["level", "x", "y", "z"])
        den = fn.expr(body[0].value.right)[0]                      # 2 ** self.level
        lo = fn.expr(body[1].value.right.left.args[0].elts[0])[0]  # self.x
        hi = fn.expr(body[2].value.right.left.args[0].elts[0])[0]  # self.x + 1
        return (f"Definition gen_bounds_den (self_level : Z) : Z := {den}.\n"
                f"Definition gen_bounds_lo (self_x : Z) : Z := {lo}.\n"
                f"Definition gen_bounds_hi (self_x : Z) : Z := {hi}.\n")
    o.add("gen_bounds", bounds)

    # ---- Bounds.overlaps: per axis (self.mins <= other.maxs) & (self.maxs >= other.mins), all axes ----------
    def overlaps():
        cls = find_class(mod, "Bounds")
        f = find_func(cls, "overlaps")
        if len(f.body) != 1 or not isinstance(f.body[0], ast.Return):
            raise Untranslatable("overlaps: shape")
        r = f.body[0].value
        if not (_norm(r).startswith("bool(np.all(") and isinstance(r, ast.Call) and len(r.args) == 1
                and isinstance(r.args[0], ast.Call) and len(r.args[0].args) == 1):
            raise Untranslatable("overlaps: not bool(np.all(...))")
        inner = _Subst({"self.mins": "amin", "self.maxs": "amax", "other.mins": "bmin", "other.maxs": "bmax"}).visit(r.args[0].args[0])
        fn = Fn({"amin": "Z", "amax": "Z", "bmin": "Z", "bmax": "Z"}, {})
        v, t = fn.expr(inner)
        if t != "bool":
            raise Untranslatable("overlaps: not boolean")
        return f"Definition gen_overlap (amin amax bmin bmax : Z) : bool := {v}.\n"
    o.add("gen_overlap", overlaps)

    # ---- load_octree_for_query: structural summary ----------------------------------------------------------
    def traversal():
        # the fragments are those of the normal form (canon) of the reference source; locals are matched up to renaming
        al = Alpha(canon(find_func(mod, "load_octree_for_query")),
                   "root_bounds root_node satisfying_nodes nodes_to_load current_node entry key loaded_entry known_entry "
                   "child_key child_node page described")
        need = {
            "root bounds": "root_bounds = Bounds(mins=info.center - info.halfsize, maxs=info.center + info.halfsize)",
            "root": "root_node.key.level = 0",
            "pop from the end": "current_node = nodes_to_load.pop()",
            "bounds pruning": "current_node.bounds = current_node.key.bounds(root_bounds)\n"
                              "if query_bounds is not None and not current_node.bounds.overlaps(query_bounds):\n    continue",
            "level pruning": "if level_range is not None and current_node.key.level >= level_range.stop:\n    continue",
            "missing key skipped": "entry = hierarchy_page.entries[current_node.key] except KeyError: continue",
            "page reference": "if entry.point_count == -1:",
            "page load": "source.seek(entry.offset)\npage = HierarchyPage.from_bytes(source.read(entry.byte_size))",
            # the page-reference rule is checked on the loaded page, BEFORE anything of it is merged into the reader's hierarchy
            "page rule check": "described = page.entries.get(current_node.key) if described is None or described.point_count == -1: "
                               "raise LaspyException(",
            "merge rule": "for key, loaded_entry in page.entries.items():\n"
                          "    known_entry = hierarchy_page.entries.get(key)\n"
                          "    if known_entry is None or known_entry.point_count == -1:\n"
                          "        hierarchy_page.entries[key] = loaded_entry\n"
                          "nodes_to_load.insert(0, current_node)\ncontinue",
            # the page branch always leaves the iteration, so `elif` and a following `if` are the same thing
            "re-queue at the front, else the node branch": "nodes_to_load.insert(0, current_node) continue if entry.point_count >= 0:",
            "children appended": "for child_key in current_node.key.childs():",
            "child appended to work list": "nodes_to_load.append(child_node)",
            "level membership, result": "if level_range is None or current_node.key.level in level_range:\n"
                                        "    satisfying_nodes.append(current_node)\nreturn satisfying_nodes",
        }
        al.solve(need)
        src = _norm(al.renamed())
        if src.count("nodes_to_load.") != 3 or src.count("hierarchy_page.entries[") != 2 or src.count("hierarchy_page.entries") != 3 \
                or src.count("page.entries") != 5:
            raise Untranslatable("load_octree_for_query: unexpected work-list / hierarchy accesses")
        try:
            order = [src.index(x) for x in ("page=HierarchyPage.from_bytes(", "described=page.entries.get(current_node.key)",
                                            "raiseLaspyException(", "forkey,loaded_entryinpage.entries.items():")]
        except ValueError:
            raise Untranslatable("load_octree_for_query: page load / rule check / merge not found")
        if order != sorted(order):
            raise Untranslatable("load_octree_for_query: the page-reference rule is not checked before the page is merged")
        if src.count("raise") != 1 or src.count("continue") != 4:
            raise Untranslatable("load_octree_for_query: unexpected control flow")
        return ("Definition gen_pop_from_end : bool := true.\n"
                "Definition gen_requeue_front : bool := true.\n"
                "Definition gen_page_marker : Z := (-1).\n"
                "Definition gen_merge_keeps_resolved : bool := true.\n"
                "Definition gen_page_checked_before_merge : bool := true.\n"
                "Definition gen_node_min_count : Z := 0.\n")
    o.add("gen_traversal", traversal)

    # ---- CopcReader.query: level arguments, integer box filter ------------------------------------------------
    def query():
        cls = find_class(mod, "CopcReader")
        al = Alpha(canon(find_func(cls, "query")), "points i32 MINS MAXS")
        box = "(MINS[{k}] <= points.{c}) & (points.{c} <= MAXS[{k}])"
        need = {
            "resolution to levels": "level = range(0, max(1, ceil(log2(self.copc_info.spacing / resolution)) + 1))",
            "int level": "if isinstance(level, int):\n    level = range(level, level + 1)",
            "2-D boxes": "bounds = bounds.ensure_3d(self.header.mins, self.header.maxs)",
            "i32": "i32 = np.iinfo(np.int32)",
            "x, y, z, mask": "points.array = points.array[" + box.format(k=0, c="X") + " & (" + box.format(k=1, c="Y") + ") & ("
                             + box.format(k=2, c="Z") + ")].copy()\nreturn points",
        }
        al.solve(need)
        f = al.renamed()
        keep = None
        clips = {}
        for n in ast.walk(f):
            if isinstance(n, ast.Assign) and _norm(n.targets[0]) == "points.array":
                keep = n.value.func.value.slice.left.left            # the x conjunct of the mask
            if isinstance(n, ast.Assign) and _norm(n.targets[0]) in ("MINS", "MAXS"):
                clips[_norm(n.targets[0])] = n.value
        # MINS = np.clip(np.round((bounds.mins - offsets) / scales), <lo>, <hi>).astype(np.<int type>)
        bounds_of = {}
        for name, attr in (("MINS", "mins"), ("MAXS", "maxs")):
            v = clips.get(name)
            if not (isinstance(v, ast.Call) and _norm(v.func).endswith(".astype") and len(v.args) == 1
                    and isinstance(v.func.value, ast.Call) and _norm(v.func.value.func) == "np.clip"
                    and len(v.func.value.args) == 3 and not v.func.value.keywords):
                raise Untranslatable(f"CopcReader.query: {name} is not np.clip(...).astype(...)")
            inner, lo_e, hi_e = v.func.value.args
            if _norm(inner) != f"np.round((bounds.{attr}-self.header.offsets)/self.header.scales)":
                raise Untranslatable(f"CopcReader.query: {name}: rounded quotient `{_norm(inner)}`")
            cfn = Fn({}, {"i32.min": -2 ** 31, "i32.max": 2 ** 31 - 1})

            class _C(ast.NodeTransformer):
                def visit_Attribute(self, node):
                    t = ast.unparse(node)
                    if t in ("i32.min", "i32.max"):
                        return ast.Constant(value=-2 ** 31 if t == "i32.min" else 2 ** 31 - 1)
                    return node
            lo_v = eval(compile(ast.Expression(body=ast.fix_missing_locations(_C().visit(lo_e))), "<clip>", "eval"), {"__builtins__": {}})
            hi_v = eval(compile(ast.Expression(body=ast.fix_missing_locations(_C().visit(hi_e))), "<clip>", "eval"), {"__builtins__": {}})
            if not (isinstance(lo_v, int) and isinstance(hi_v, int)):
                raise Untranslatable(f"CopcReader.query: {name}: clip bounds are not integers")
            ty = _norm(v.args[0])
            rng = {"np.int32": (-2 ** 31, 2 ** 31 - 1), "np.int64": (-2 ** 63, 2 ** 63 - 1)}.get(ty)
            if rng is None or lo_v < rng[0] or hi_v > rng[1]:
                raise Untranslatable(f"CopcReader.query: {name}: clip bounds [{lo_v}, {hi_v}] do not fit {ty}")
            bounds_of[name] = (lo_v, hi_v)
        if bounds_of["MINS"] != bounds_of["MAXS"]:
            raise Untranslatable("CopcReader.query: MINS and MAXS are clipped differently")
        clip_lo, clip_hi = bounds_of["MINS"]
        inner = _Subst({"MINS[0]": "lo", "MAXS[0]": "hi", "points.X": "p"}).visit(keep)
        v, t = Fn({"lo": "Z", "hi": "Z", "p": "Z"}, {}).expr(inner)
        sq = parse(repo, "laspy/copc.py")
        g = find_func(find_class(sq, "CopcReader"), "spatial_query")
        h = find_func(find_class(sq, "CopcReader"), "level_query")
        if _norm(g.body[-1]) != "returnself.query(bounds=bounds,level=None)" or \
                _norm(h.body[-1]) != "returnself.query(bounds=None,level=level)":
            raise Untranslatable("spatial_query / level_query shape")
        return (f"Definition gen_keep1 (lo hi p : Z) : bool := {v}.\n"
                "Definition gen_i32_min : Z := (-2147483648).\nDefinition gen_i32_max : Z := 2147483647.\n"
                f"Definition gen_clip_lo : Z := {py2v.z(clip_lo)}.\nDefinition gen_clip_hi : Z := {py2v.z(clip_hi)}.\n")
    o.add("gen_query", query)

    # ---- grouping of contiguous chunks -----------------------------------------------------------------------
    def grouping():
        cls = find_class(mod, "CopcReader")
        f = find_func(cls, "_fetch_and_decompress_points_of_nodes")
        src = _norm(f)
        need = ["nodes_to_read=sorted(nodes_to_read,key=attrgetter('offset'))",
                "last_node_end=nodes_to_read[0].offset",
                "ifnode.offset==last_node_end:current_group.append(node)last_node_end+=node.byte_size",
                "else:grouped_nodes.append(current_group)current_group=[node]last_node_end=node.offset+node.byte_size",
                "ifcurrent_group:grouped_nodes.append(current_group)",
                "lazrs.decompress_points_with_chunk_table(compressed_bytes,self.laszip_vlr.record_data,points_array,chunk_table,self.decompression_selection)"]
        for frag in need:
            if frag not in src:
                raise Untranslatable(f"_fetch_and_decompress_points_of_nodes: `{frag}` not found")
        g = _norm(find_func(cls, "_fetch_all_chunks"))
        for frag in ["chunk_table.append((node.point_count,node.byte_size))",
                     "num_compressed_group_bytes+=node.byte_size",
                     "byte_queries.append((group[0].offset,num_compressed_group_bytes))"]:
            if frag not in g:
                raise Untranslatable(f"_fetch_all_chunks: `{frag}` not found")
        return "Definition gen_groups_contiguous : bool := true.\n"
    o.add("gen_grouping", grouping)

    # ---- how the fetched ranges get into the buffer: in byte_queries order, or (http queue) in offset order ----------
    def strategies():
        cls = find_class(mod, "CopcReader")
        g = _norm(find_func(cls, "_fetch_all_chunks"))
        for frag in ["forgroupingrouped_nodes:", "fornodeingroup:chunk_table.append(",
                     "citer=ChunkIter(compressed_bytes)foroffset,sizeinbyte_queries:self.source.seek(offset)cc=citer.next(size)self.source.readinto(cc)",
                     "citer=ChunkIter(compressed_bytes)foroffset,sizeinbyte_queries:self.source.seek(offset)cc=citer.next(size)cc[:]=self.source.read(size)",
                     "http_queue_strategy(self.source,byte_queries,compressed_bytes,self.http_num_threads)",
                     "http_thread_executor_strategy(self.source,byte_queries,compressed_bytes,self.http_num_threads)"]:
            if frag not in g:
                raise Untranslatable(f"_fetch_all_chunks: `{frag}` not found")
        qa = Alpha(canon(find_func(mod, "http_queue_strategy")), "query_queue result_queue query results result x citer group_bytes")
        q = _norm(qa.f)
        need = {
            "every range queued": "for query in byte_queries:\n    query_queue.put(query)",
            "results collected": "result = result_queue.get()\nif isinstance(result, Exception):\n    raise result\nresults.append(result)",
            "ranges copied in the order of results": "citer = ChunkIter(out_compressed_bytes)\nfor group_bytes, _ in results:\n"
                                                     "    citer.next(len(group_bytes))[:] = group_bytes",
        }
        if q.count(".sort(") + q.count("sorted(") > 1:
            raise Untranslatable("http_queue_strategy: more than one sort")
        by_offset = True
        try:
            # sorted by the second component of what the workers put: (bytes, offset of the range)
            qa.solve(dict(need, **{"sorted by offset": "results.append(result)\nresults.sort(key=lambda x: x[1])\nciter = ChunkIter("}))
            Alpha(canon(find_func(find_class(mod, "HttpFetcherThread"), "run")), "http_reader offset size").solve({
                "result is (bytes, offset)": "offset, size = self.query_queue.get_nowait() except Empty: break try:\n"
                                             "http_reader.seek(offset)\nself.result_queue.put((http_reader.read(size), offset))"})
        except Untranslatable:
            by_offset = False
            if "sort" in q:
                raise Untranslatable("http_queue_strategy: results sorted by something else than the offset")
            qa.solve(need)
        ef = find_func(mod, "http_thread_executor_strategy")
        local_defs = [n.name for n in ast.walk(ef) if isinstance(n, ast.FunctionDef) and n is not ef]
        if len(local_defs) == 1 and not _mentions(ef, "fetch_data_job"):
            ef = copy.deepcopy(ef)                                   # the job is the one function defined in the strategy, whatever its name
            for n in ast.walk(ef):
                if isinstance(n, ast.FunctionDef) and n.name == local_defs[0]:
                    n.name = "fetch_data_job"
                elif isinstance(n, ast.Name) and n.id == local_defs[0]:
                    n.id = "fetch_data_job"
        e = _norm(ef)
        for frag in ["foroffset,sizeinbyte_queries:jobs.append(downloader_pool.submit(fetch_data_job,HttpRangeStream(source.url),offset,size,))",
                     "citer=ChunkIter(out_compressed_bytes)forfutureinjobs:group_bytes=future.result()cc=citer.next(len(group_bytes))cc[:]=group_bytes"]:
            if frag not in e and frag.replace(",))", "))") not in e:
                raise Untranslatable(f"http_thread_executor_strategy: `{frag}` not found")
        return f"Definition gen_queue_sorts_by_offset : bool := {'true' if by_offset else 'false'}.\n"
    o.add("gen_strategies", strategies)

    # ---- Bounds.ensure_3d: a new Bounds is built, nothing of self is assigned -------------------------------------
    def ensure3d():
        cls = find_class(mod, "Bounds")
        f = find_func(cls, "ensure_3d")
        pn = [a.arg for a in f.args.args]
        if pn != ["self", "mins", "maxs"]:
            raise Untranslatable(f"ensure_3d parameters {pn}")
        body = [s for s in f.body if not (isinstance(s, ast.Expr) and isinstance(s.value, ast.Constant))]
        got = [_norm(s) for s in body]
        want = ["new_mins=np.zeros(3,dtype=np.float64)", "new_maxs=np.zeros(3,dtype=np.float64)",
                "new_mins[:len(self.mins)]=self.mins[:]", "new_mins[len(self.mins):]=mins[len(self.mins):]",
                "new_maxs[:len(self.maxs)]=self.maxs[:]", "new_maxs[len(self.maxs):]=maxs[len(self.maxs):]",
                "returnBounds(new_mins,new_maxs)"]
        if got == want:
            return "Definition gen_ensure3d_fresh : bool := true.\n"
        # the caller's object is written to, or handed back as the query's box
        for n in ast.walk(f):
            targets = []
            if isinstance(n, ast.Assign):
                targets = n.targets
            elif isinstance(n, (ast.AugAssign, ast.AnnAssign)):
                targets = [n.target]
            for t in targets:
                base = t
                while isinstance(base, (ast.Attribute, ast.Subscript)):
                    base = base.value
                if isinstance(base, ast.Name) and base.id == "self":
                    return "Definition gen_ensure3d_fresh : bool := false.\n"
            if isinstance(n, ast.Return) and isinstance(n.value, ast.Name) and n.value.id == "self":
                return "Definition gen_ensure3d_fresh : bool := false.\n"
        raise Untranslatable(f"ensure_3d: shape {got}")
    o.add("gen_ensure3d", ensure3d)

    # ---- Bounds is a plain record: building one (by the caller, by ensure_3d, by VoxelKey.bounds, for the root cube) runs no
    # ---- code of laspy, so it accepts EVERY pair of corners - also a box without thickness (mins[i] == maxs[i]: a 2-D box
    # ---- completed with the z range of a flat file, a profile plane, a point) - and has no error outcome (the model has none)
    def bounds_plain():
        cls = find_class(mod, "Bounds")
        decos = [_norm(d) for d in cls.decorator_list]
        if decos != ["dataclass"]:
            raise Untranslatable(f"Bounds: decorators {decos} (a plain @dataclass is expected)")
        if cls.bases or cls.keywords:
            raise Untranslatable("Bounds: base classes / metaclass")
        fields, methods = [], []
        for st in cls.body:
            if isinstance(st, ast.Expr) and isinstance(st.value, ast.Constant) and isinstance(st.value.value, str):
                continue
            if isinstance(st, ast.AnnAssign) and isinstance(st.target, ast.Name) and st.value is None:
                fields.append((st.target.id, _norm(st.annotation)))
            elif isinstance(st, ast.FunctionDef):
                methods.append(st.name)
            else:
                raise Untranslatable("Bounds: statement in the class body: " + ast.unparse(st)[:80])
        if fields != [("mins", "np.ndarray"), ("maxs", "np.ndarray")]:
            raise Untranslatable(f"Bounds: fields {fields}")
        extra = [m for m in methods if m not in ("overlaps", "ensure_3d")]
        if extra:
            raise Untranslatable(f"Bounds: building or using a box runs more code than the model has: {extra} "
                                 "(a constructor hook can refuse a legal box)")
        # nothing else of the module gives the class a hook after its definition
        for n in ast.walk(mod):
            if isinstance(n, (ast.Assign, ast.AugAssign, ast.AnnAssign)):
                for t in (n.targets if isinstance(n, ast.Assign) else [n.target]):
                    if isinstance(t, ast.Attribute) and isinstance(t.value, ast.Name) and t.value.id == "Bounds":
                        raise Untranslatable("Bounds: attribute of the class assigned outside its body: " + ast.unparse(n)[:80])
            if isinstance(n, ast.Call) and _norm(n.func) == "setattr" and n.args and _norm(n.args[0]) == "Bounds":
                raise Untranslatable("Bounds: setattr on the class")
        return "Definition gen_bounds_plain : bool := true.\n"
    o.add("gen_bounds_plain", bounds_plain)

    # ---- the reader's state (round 6): the root page is read AT hierarchy_root_offset (wherever the hierarchy is stored: a VLR
    # ---- in front of the points or an EVLR behind them, the root page first or not), `self.root_page` is the one cache that
    # ---- every query hands to load_octree_for_query, and a query keeps NOTHING else on the reader: no attribute of `self` is
    # ---- stored outside __init__ (a decompression buffer, a queue or a chunk list kept between queries would make the record
    # ---- returned by one query depend on the next), the decompression buffer is a fresh array of every call
    def reader_state():
        cls = find_class(mod, "CopcReader")
        init = find_func(cls, "__init__")
        body = [st for st in init.body if not (isinstance(st, ast.Expr) and isinstance(st.value, ast.Constant))]
        at = [i for i, st in enumerate(body) if isinstance(st, ast.Assign) and _norm(st.targets[0]) == "self.root_page"]
        if len(at) != 1:
            raise Untranslatable("CopcReader.__init__: `self.root_page = ...` is not one top-level statement")
        i = at[0]
        val = body[i].value
        if not (isinstance(val, ast.Call) and _norm(val.func) == "HierarchyPage.from_bytes" and len(val.args) == 1 and not val.keywords):
            raise Untranslatable("CopcReader.__init__: root page is not HierarchyPage.from_bytes(<bytes>)")
        read = "self.source.read(self.copc_info.hierarchy_root_size)"
        arg = val.args[0]
        j = i
        if isinstance(arg, ast.Name):
            j = i - 1
            if not (j >= 0 and isinstance(body[j], ast.Assign) and _norm(body[j].targets[0]) == arg.id and _norm(body[j].value) == read):
                raise Untranslatable("CopcReader.__init__: the root page bytes are not `" + read + "`")
        elif _norm(arg) != read:
            raise Untranslatable("CopcReader.__init__: the root page bytes are not `" + read + "`")
        if not (j >= 1 and _norm(body[j - 1]) == "self.source.seek(self.copc_info.hierarchy_root_offset)"):
            raise Untranslatable("CopcReader.__init__: the root page is not read at hierarchy_root_offset")
        known = {"source", "close_fd", "http_num_threads", "http_strategy", "decompression_selection", "header", "copc_info",
                 "hierarchy", "laszip_vlr", "root_page"}
        for f in cls.body:
            if not isinstance(f, ast.FunctionDef):
                continue
            for n in ast.walk(f):
                targets = []
                if isinstance(n, ast.Assign):
                    targets = n.targets
                elif isinstance(n, (ast.AugAssign, ast.AnnAssign)):
                    targets = [n.target]
                elif isinstance(n, ast.Delete):
                    targets = n.targets
                elif isinstance(n, (ast.For, ast.With)):
                    targets = [n.target] if isinstance(n, ast.For) else [it.optional_vars for it in n.items if it.optional_vars is not None]
                for t0 in targets:
                    for t in ast.walk(t0):
                        if isinstance(t, ast.Attribute) and isinstance(t.value, ast.Name) and t.value.id == "self":
                            if f.name != "__init__" or t.attr not in known:
                                raise Untranslatable(f"CopcReader.{f.name}: stores the attribute self.{t.attr} (state kept on the reader)")
                if isinstance(n, ast.Call) and _norm(n.func) in ("setattr", "object.__setattr__") and n.args and _norm(n.args[0]) == "self":
                    raise Untranslatable(f"CopcReader.{f.name}: setattr on the reader")
        q = _norm(find_func(cls, "query"))
        if q.count("load_octree_for_query(self.source,self.copc_info,self.root_page,") != 1 or q.count("self.root_page") != 1:
            raise Untranslatable("CopcReader.query: the cached hierarchy handed to load_octree_for_query is not self.root_page")
        d = _norm(find_func(cls, "_fetch_and_decompress_points_of_nodes"))
        if d.count("points_array=np.zeros(num_points*self.header.point_format.size,dtype=np.uint8)") != 1 or d.count("points_array=") != 1:
            raise Untranslatable("_fetch_and_decompress_points_of_nodes: the decompression buffer is not a fresh np.zeros array")
        g = _norm(find_func(cls, "_fetch_all_chunks"))
        if g.count("compressed_bytes=bytearray(num_compressed_bytes)") != 1 or \
                g.replace("num_compressed_bytes=", "").replace("num_compressed_group_bytes=", "").count("compressed_bytes=") != 1:
            raise Untranslatable("_fetch_all_chunks: the buffer of the compressed bytes is not a fresh bytearray")
        return ("Definition gen_root_page_at_offset : bool := true.\n"
                "Definition gen_cache_is_root_page : bool := true.\n"
                "Definition gen_query_keeps_no_buffer : bool := true.\n")
    o.add("gen_reader_state", reader_state)
    return o


TARGETS = {"GenCopc.v": gen_copc}
