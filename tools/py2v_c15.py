"""py2v plugin for C15: laspy/copc.py -> Gen/GenCopc.v

Integer key arithmetic of `VoxelKey.child` / `childs` / `bounds`, the interval test of `Bounds.overlaps`, and a
structural summary of `load_octree_for_query` (stack discipline, the merge rule of a loaded page, the error raised
when the loaded page does not describe the node), of the integer box filter of `CopcReader.query`, of the order in which
the fetch strategies put the fetched ranges into the buffer, and of `Bounds.ensure_3d` (a new object, the caller's is not
written to).
Fail closed: a shape that is not recognised omits the definition, so Model/Copc.v stops compiling."""
import ast

import py2v
from py2v import Fn, Out, Untranslatable, find_class, find_func, parse


def _norm(node):
    return ast.unparse(node).replace(" ", "").replace("\n", "")


class _Subst(ast.NodeTransformer):
    """replace attribute/name expressions (by unparsed text) with plain names; `&` on comparisons -> `and`"""

    def __init__(self, table):
        self.table = table

    def visit(self, node):
        if isinstance(node, ast.expr):
            t = ast.unparse(node)
            if t in self.table:
                return ast.Name(id=self.table[t], ctx=ast.Load())
        return super().visit(node)

    def visit_BinOp(self, node):
        node = self.generic_visit(node)
        if isinstance(node.op, ast.BitAnd) and isinstance(node.left, ast.Compare) and isinstance(node.right, ast.Compare):
            return ast.BoolOp(op=ast.And(), values=[node.left, node.right])
        return node


def gen_copc(repo):
    o = Out("laspy/copc.py VoxelKey.child/childs/bounds, Bounds.overlaps, load_octree_for_query, CopcReader.query")
    mod = parse(repo, "laspy/copc.py")
    env4 = {"self_level": "Z", "self_x": "Z", "self_y": "Z", "self_z": "Z"}

    # ---- VoxelKey.child: one Gallina function per assigned attribute -------------------------------------
    def child():
        cls = find_class(mod, "VoxelKey")
        f = find_func(cls, "child")
        pn = [a.arg for a in f.args.args]
        if pn != ["self", "dir"]:
            raise Untranslatable(f"child parameters {pn}")
        body = [s for s in f.body if not (isinstance(s, ast.Expr) and isinstance(s.value, ast.Constant))]
        if len(body) != 6 or _norm(body[0]) != "key=VoxelKey()" or _norm(body[-1]) != "returnkey":
            raise Untranslatable("child: shape")
        txt = ""
        seen = []
        for s in body[1:-1]:
            if not (isinstance(s, ast.Assign) and len(s.targets) == 1 and isinstance(s.targets[0], ast.Attribute)
                    and isinstance(s.targets[0].value, ast.Name) and s.targets[0].value.id == "key"):
                raise Untranslatable("child: statement " + ast.unparse(s))
            attr = s.targets[0].attr
            fn = Fn(dict(env4, dir="Z"), {}, state=["level", "x", "y", "z"])
            v, t = fn.expr(s.value)
            if t != "Z":
                raise Untranslatable("child: non-int attribute")
            seen.append(attr)
            txt += f"Definition gen_child_{attr} (self_level self_x self_y self_z dir : Z) : Z := {v}.\n"
        if seen != ["level", "x", "y", "z"]:
            raise Untranslatable(f"child: attributes {seen}")
        return txt
    o.add("gen_child", child)

    def childs():
        cls = find_class(mod, "VoxelKey")
        f = find_func(cls, "childs")
        if len(f.body) != 1 or _norm(f.body[0]) != "return(self.child(i)foriinrange(8))":
            raise Untranslatable("childs: shape " + _norm(f.body[0]))
        return "Definition gen_childs_n : Z := 8.\n"
    o.add("gen_childs_n", childs)

    # ---- VoxelKey.bounds: mins = root.mins + [x,y,z] * side / 2**level, maxs with x+1 ----------------------
    def bounds():
        cls = find_class(mod, "VoxelKey")
        f = find_func(cls, "bounds")
        body = [s for s in f.body if not (isinstance(s, ast.Expr) and isinstance(s.value, ast.Constant))]
        want = ["side_size=(root_bounds.maxs[0]-root_bounds.mins[0])/2**self.level",
                "mins=root_bounds.mins+np.array([self.x,self.y,self.z])*side_size",
                "maxs=root_bounds.mins+np.array([self.x+1,self.y+1,self.z+1])*side_size",
                "returnBounds(mins,maxs)"]
        got = [_norm(s) for s in body]
        if got != want:
            raise Untranslatable(f"bounds: shape {got}")
        fn = Fn(dict(env4), {}, state=["level", "x", "y", "z"])
        den = fn.expr(body[0].value.right)[0]                      # 2 ** self.level
        lo = fn.expr(body[1].value.right.left.args[0].elts[0])[0]  # self.x
        hi = fn.expr(body[2].value.right.left.args[0].elts[0])[0]  # self.x + 1
        return (f"Definition gen_bounds_den (self_level : Z) : Z := {den}.\n"
                f"Definition gen_bounds_lo (self_x : Z) : Z := {lo}.\n"
                f"Definition gen_bounds_hi (self_x : Z) : Z := {hi}.\n")
    o.add("gen_bounds", bounds)

    # ---- Bounds.overlaps: per axis (self.mins <= other.maxs) & (self.maxs >= other.mins), all axes ----------
    def overlaps():
        cls = find_class(mod, "Bounds")
        f = find_func(cls, "overlaps")
        if len(f.body) != 1 or not isinstance(f.body[0], ast.Return):
            raise Untranslatable("overlaps: shape")
        r = f.body[0].value
        if not (_norm(r).startswith("bool(np.all(") and isinstance(r, ast.Call) and len(r.args) == 1
                and isinstance(r.args[0], ast.Call) and len(r.args[0].args) == 1):
            raise Untranslatable("overlaps: not bool(np.all(...))")
        inner = _Subst({"self.mins": "amin", "self.maxs": "amax", "other.mins": "bmin", "other.maxs": "bmax"}).visit(r.args[0].args[0])
        fn = Fn({"amin": "Z", "amax": "Z", "bmin": "Z", "bmax": "Z"}, {})
        v, t = fn.expr(inner)
        if t != "bool":
            raise Untranslatable("overlaps: not boolean")
        return f"Definition gen_overlap (amin amax bmin bmax : Z) : bool := {v}.\n"
    o.add("gen_overlap", overlaps)

    # ---- load_octree_for_query: structural summary ----------------------------------------------------------
    def traversal():
        f = find_func(mod, "load_octree_for_query")
        src = _norm(f)
        need = {
            "pop from the end": "current_node=nodes_to_load.pop()",
            "re-queue at the front": "nodes_to_load.insert(0,current_node)",
            "children appended": "forchild_keyincurrent_node.key.childs():",
            "child appended to work list": "nodes_to_load.append(child_node)",
            "level pruning": "iflevel_rangeisnotNoneandcurrent_node.key.level>=level_range.stop:continue",
            "bounds pruning": "is_in_bounds=query_boundsisNoneorcurrent_node.bounds.overlaps(query_bounds)",
            "missing key skipped": "exceptKeyError:continue",
            "page reference": "ifentry.point_count==-1:",
            "merge rule": "forkey,loaded_entryinpage.entries.items():known_entry=hierarchy_page.entries.get(key)"
                          "ifknown_entryisNoneorknown_entry.point_count==-1:hierarchy_page.entries[key]=loaded_entry",
            "page rule check": "ifhierarchy_page.entries[current_node.key].point_count==-1:raiseLaspyException(",
            "node branch": "elifentry.point_count>=0:",
            "level membership": "is_in_level=level_rangeisNoneorcurrent_node.key.levelinlevel_range",
            "result": "ifis_in_level:satisfying_nodes.append(current_node)returnsatisfying_nodes",
            "root": "root_node.key.level=0",
            "root bounds": "root_bounds=Bounds(mins=info.center-info.halfsize,maxs=info.center+info.halfsize)",
        }
        for what, frag in need.items():
            if frag not in src:
                raise Untranslatable(f"load_octree_for_query: {what}: `{frag}` not found")
        if src.count("nodes_to_load.") != 3 or src.count("hierarchy_page.entries[") != 3:
            raise Untranslatable("load_octree_for_query: unexpected work-list / hierarchy accesses")
        if src.count("raise") != 1 or src.count("continue") != 4:
            raise Untranslatable("load_octree_for_query: unexpected control flow")
        return ("Definition gen_pop_from_end : bool := true.\n"
                "Definition gen_requeue_front : bool := true.\n"
                "Definition gen_page_marker : Z := (-1).\n"
                "Definition gen_merge_keeps_resolved : bool := true.\n"
                "Definition gen_node_min_count : Z := 0.\n")
    o.add("gen_traversal", traversal)

    # ---- CopcReader.query: level arguments, integer box filter ------------------------------------------------
    def query():
        cls = find_class(mod, "CopcReader")
        f = find_func(cls, "query")
        src = _norm(f)
        need = {
            "resolution to levels": "level_max=max(1,ceil(log2(self.copc_info.spacing/resolution))+1)level=range(0,level_max)",
            "int level": "ifisinstance(level,int):level=range(level,level+1)",
            "2-D boxes": "bounds=bounds.ensure_3d(self.header.mins,self.header.maxs)",
            "x": "x_keep=(MINS[0]<=points.X)&(points.X<=MAXS[0])",
            "y": "y_keep=(MINS[1]<=points.Y)&(points.Y<=MAXS[1])",
            "z": "z_keep=(MINS[2]<=points.Z)&(points.Z<=MAXS[2])",
            "mask": "keep_mask=x_keep&y_keep&z_keep",
            "i32": "i32=np.iinfo(np.int32)",
        }
        for what, frag in need.items():
            if frag not in src:
                raise Untranslatable(f"CopcReader.query: {what}: `{frag}` not found")
        keep = None
        clips = {}
        for n in ast.walk(f):
            if isinstance(n, ast.Assign) and _norm(n.targets[0]) == "x_keep":
                keep = n.value
            if isinstance(n, ast.Assign) and _norm(n.targets[0]) in ("MINS", "MAXS"):
                clips[_norm(n.targets[0])] = n.value
        # MINS = np.clip(np.round((bounds.mins - offsets) / scales), <lo>, <hi>).astype(np.<int type>)
        bounds_of = {}
        for name, attr in (("MINS", "mins"), ("MAXS", "maxs")):
            v = clips.get(name)
            if not (isinstance(v, ast.Call) and _norm(v.func).endswith(".astype") and len(v.args) == 1
                    and isinstance(v.func.value, ast.Call) and _norm(v.func.value.func) == "np.clip"
                    and len(v.func.value.args) == 3 and not v.func.value.keywords):
                raise Untranslatable(f"CopcReader.query: {name} is not np.clip(...).astype(...)")
            inner, lo_e, hi_e = v.func.value.args
            if _norm(inner) != f"np.round((bounds.{attr}-self.header.offsets)/self.header.scales)":
                raise Untranslatable(f"CopcReader.query: {name}: rounded quotient `{_norm(inner)}`")
            cfn = Fn({}, {"i32.min": -2 ** 31, "i32.max": 2 ** 31 - 1})

            class _C(ast.NodeTransformer):
                def visit_Attribute(self, node):
                    t = ast.unparse(node)
                    if t in ("i32.min", "i32.max"):
                        return ast.Constant(value=-2 ** 31 if t == "i32.min" else 2 ** 31 - 1)
                    return node
            lo_v = eval(compile(ast.Expression(body=ast.fix_missing_locations(_C().visit(lo_e))), "<clip>", "eval"), {"__builtins__": {}})
            hi_v = eval(compile(ast.Expression(body=ast.fix_missing_locations(_C().visit(hi_e))), "<clip>", "eval"), {"__builtins__": {}})
            if not (isinstance(lo_v, int) and isinstance(hi_v, int)):
                raise Untranslatable(f"CopcReader.query: {name}: clip bounds are not integers")
            ty = _norm(v.args[0])
            rng = {"np.int32": (-2 ** 31, 2 ** 31 - 1), "np.int64": (-2 ** 63, 2 ** 63 - 1)}.get(ty)
            if rng is None or lo_v < rng[0] or hi_v > rng[1]:
                raise Untranslatable(f"CopcReader.query: {name}: clip bounds [{lo_v}, {hi_v}] do not fit {ty}")
            bounds_of[name] = (lo_v, hi_v)
        if bounds_of["MINS"] != bounds_of["MAXS"]:
            raise Untranslatable("CopcReader.query: MINS and MAXS are clipped differently")
        clip_lo, clip_hi = bounds_of["MINS"]
        inner = _Subst({"MINS[0]": "lo", "MAXS[0]": "hi", "points.X": "p"}).visit(keep)
        v, t = Fn({"lo": "Z", "hi": "Z", "p": "Z"}, {}).expr(inner)
        sq = parse(repo, "laspy/copc.py")
        g = find_func(find_class(sq, "CopcReader"), "spatial_query")
        h = find_func(find_class(sq, "CopcReader"), "level_query")
        if _norm(g.body[-1]) != "returnself.query(bounds=bounds,level=None)" or \
                _norm(h.body[-1]) != "returnself.query(bounds=None,level=level)":
            raise Untranslatable("spatial_query / level_query shape")
        return (f"Definition gen_keep1 (lo hi p : Z) : bool := {v}.\n"
                "Definition gen_i32_min : Z := (-2147483648).\nDefinition gen_i32_max : Z := 2147483647.\n"
                f"Definition gen_clip_lo : Z := {py2v.z(clip_lo)}.\nDefinition gen_clip_hi : Z := {py2v.z(clip_hi)}.\n")
    o.add("gen_query", query)

    # ---- grouping of contiguous chunks -----------------------------------------------------------------------
    def grouping():
        cls = find_class(mod, "CopcReader")
        f = find_func(cls, "_fetch_and_decompress_points_of_nodes")
        src = _norm(f)
        need = ["nodes_to_read=sorted(nodes_to_read,key=attrgetter('offset'))",
                "last_node_end=nodes_to_read[0].offset",
                "ifnode.offset==last_node_end:current_group.append(node)last_node_end+=node.byte_size",
                "else:grouped_nodes.append(current_group)current_group=[node]last_node_end=node.offset+node.byte_size",
                "ifcurrent_group:grouped_nodes.append(current_group)",
                "lazrs.decompress_points_with_chunk_table(compressed_bytes,self.laszip_vlr.record_data,points_array,chunk_table,self.decompression_selection)"]
        for frag in need:
            if frag not in src:
                raise Untranslatable(f"_fetch_and_decompress_points_of_nodes: `{frag}` not found")
        g = _norm(find_func(cls, "_fetch_all_chunks"))
        for frag in ["chunk_table.append((node.point_count,node.byte_size))",
                     "num_compressed_group_bytes+=node.byte_size",
                     "byte_queries.append((group[0].offset,num_compressed_group_bytes))"]:
            if frag not in g:
                raise Untranslatable(f"_fetch_all_chunks: `{frag}` not found")
        return "Definition gen_groups_contiguous : bool := true.\n"
    o.add("gen_grouping", grouping)

    # ---- how the fetched ranges get into the buffer: in byte_queries order, or (http queue) in offset order ----------
    def strategies():
        cls = find_class(mod, "CopcReader")
        g = _norm(find_func(cls, "_fetch_all_chunks"))
        for frag in ["forgroupingrouped_nodes:", "fornodeingroup:chunk_table.append(",
                     "citer=ChunkIter(compressed_bytes)foroffset,sizeinbyte_queries:self.source.seek(offset)cc=citer.next(size)self.source.readinto(cc)",
                     "citer=ChunkIter(compressed_bytes)foroffset,sizeinbyte_queries:self.source.seek(offset)cc=citer.next(size)cc[:]=self.source.read(size)",
                     "http_queue_strategy(self.source,byte_queries,compressed_bytes,self.http_num_threads)",
                     "http_thread_executor_strategy(self.source,byte_queries,compressed_bytes,self.http_num_threads)"]:
            if frag not in g:
                raise Untranslatable(f"_fetch_all_chunks: `{frag}` not found")
        q = _norm(find_func(mod, "http_queue_strategy"))
        for frag in ["forqueryinbyte_queries:query_queue.put(query)", "results.append(result)",
                     "citer=ChunkIter(out_compressed_bytes)forgroup_bytes,_inresults:cc=citer.next(len(group_bytes))cc[:]=group_bytes"]:
            if frag not in q:
                raise Untranslatable(f"http_queue_strategy: `{frag}` not found")
        if q.count("results.sort(") + q.count("sorted(") > 1:
            raise Untranslatable("http_queue_strategy: more than one sort")
        by_offset = "results.sort(key=lambdax:x[1])" in q and "self.result_queue.put((data,offset))" in _norm(find_class(mod, "HttpFetcherThread"))
        if not by_offset and ("sort" in q):
            raise Untranslatable("http_queue_strategy: results sorted by something else than the offset")
        e = _norm(find_func(mod, "http_thread_executor_strategy"))
        for frag in ["foroffset,sizeinbyte_queries:jobs.append(downloader_pool.submit(fetch_data_job,HttpRangeStream(source.url),offset,size,))",
                     "citer=ChunkIter(out_compressed_bytes)forfutureinjobs:group_bytes=future.result()cc=citer.next(len(group_bytes))cc[:]=group_bytes"]:
            if frag not in e and frag.replace(",))", "))") not in e:
                raise Untranslatable(f"http_thread_executor_strategy: `{frag}` not found")
        return f"Definition gen_queue_sorts_by_offset : bool := {'true' if by_offset else 'false'}.\n"
    o.add("gen_strategies", strategies)

    # ---- Bounds.ensure_3d: a new Bounds is built, nothing of self is assigned -------------------------------------
    def ensure3d():
        cls = find_class(mod, "Bounds")
        f = find_func(cls, "ensure_3d")
        pn = [a.arg for a in f.args.args]
        if pn != ["self", "mins", "maxs"]:
            raise Untranslatable(f"ensure_3d parameters {pn}")
        body = [s for s in f.body if not (isinstance(s, ast.Expr) and isinstance(s.value, ast.Constant))]
        got = [_norm(s) for s in body]
        want = ["new_mins=np.zeros(3,dtype=np.float64)", "new_maxs=np.zeros(3,dtype=np.float64)",
                "new_mins[:len(self.mins)]=self.mins[:]", "new_mins[len(self.mins):]=mins[len(self.mins):]",
                "new_maxs[:len(self.maxs)]=self.maxs[:]", "new_maxs[len(self.maxs):]=maxs[len(self.maxs):]",
                "returnBounds(new_mins,new_maxs)"]
        if got == want:
            return "Definition gen_ensure3d_fresh : bool := true.\n"
        # the caller's object is written to, or handed back as the query's box
        for n in ast.walk(f):
            targets = []
            if isinstance(n, ast.Assign):
                targets = n.targets
            elif isinstance(n, (ast.AugAssign, ast.AnnAssign)):
                targets = [n.target]
            for t in targets:
                base = t
                while isinstance(base, (ast.Attribute, ast.Subscript)):
                    base = base.value
                if isinstance(base, ast.Name) and base.id == "self":
                    return "Definition gen_ensure3d_fresh : bool := false.\n"
            if isinstance(n, ast.Return) and isinstance(n.value, ast.Name) and n.value.id == "self":
                return "Definition gen_ensure3d_fresh : bool := false.\n"
        raise Untranslatable(f"ensure_3d: shape {got}")
    o.add("gen_ensure3d", ensure3d)
    return o


TARGETS = {"GenCopc.v": gen_copc}
