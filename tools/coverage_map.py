#!/venv/bin/python
"""coverage_map.py [PID ...] — which lines of /repo/laspy does the correspondence / oracle part of each check actually execute?

A line of an anchored file that no check executes is a place where only the translator (if it reads that function) can notice a change:
the list is used to direct generator work (DESIGN.md 0.7).  Runs `./check Cxx` under coverage.py (line + branch), writes
/verif/evidence/coverage_map.json (per file: executable lines, lines executed by any check, per function the missing lines) and prints a summary.
This is a measurement of the harness, not evidence for a property."""
import ast, json, os, subprocess, sys
V = os.path.dirname(os.path.dirname(os.path.abspath(__file__)))
REPO = os.environ.get("VERIF_REPO", "/repo")
pids = sys.argv[1:] or [f"C{i:02d}" for i in range(1, 21)]
OUT = "/var/tmp/verif_cov"
os.makedirs(OUT, exist_ok=True)
env = dict(os.environ, PYTHONHASHSEED="0", LASPY_VERIF="1", PYTHONPATH=REPO)
procs = []
for pid in pids:
    data = f"{OUT}/{pid}.cov"
    if os.path.exists(data):
        os.remove(data)
    cmd = ["/venv/bin/python", "-m", "coverage", "run", "--branch", f"--source={REPO}/laspy", f"--data-file={data}", os.path.join(V, "check"), pid]
    procs.append((pid, subprocess.Popen(cmd, cwd=V, env=env, stdout=subprocess.PIPE, stderr=subprocess.STDOUT, text=True)))
    if len(procs) >= 4:
        p0 = procs.pop(0)
        out = p0[1].communicate()[0]
        print(p0[0], out.strip().splitlines()[-1][:160] if out.strip() else "")
for pid, p in procs:
    out = p.communicate()[0]
    print(pid, out.strip().splitlines()[-1][:160] if out.strip() else "")

import coverage
per_pid = {}
files = {}
for pid in pids:
    data = f"{OUT}/{pid}.cov"
    if not os.path.exists(data):
        continue
    cov = coverage.Coverage(data_file=data)
    cov.load()
    d = cov.get_data()
    for f in d.measured_files():
        rel = os.path.relpath(f, REPO)
        if rel.startswith("laspy/cli"):
            continue
        files.setdefault(rel, {})
        for ln in d.lines(f) or []:
            files[rel].setdefault(ln, set()).add(pid)

report = {}
tot_exec = tot_hit = 0
for root, _, fs in os.walk(os.path.join(REPO, "laspy")):
    for fn in fs:
        if not fn.endswith(".py"):
            continue
        path = os.path.join(root, fn)
        rel = os.path.relpath(path, REPO)
        if rel.startswith("laspy/cli"):
            continue
        src = open(path).read()
        tree = ast.parse(src)
        # executable statement lines, attributed to the innermost enclosing function/class
        stmts = {}
        def walk(node, owner):
            for ch in ast.iter_child_nodes(node):
                o = owner
                if isinstance(ch, (ast.FunctionDef, ast.AsyncFunctionDef, ast.ClassDef)):
                    o = (owner + "." if owner else "") + ch.name
                if isinstance(ch, ast.stmt) and not isinstance(ch, (ast.FunctionDef, ast.AsyncFunctionDef, ast.ClassDef)):
                    if not (isinstance(ch, ast.Expr) and isinstance(getattr(ch, "value", None), ast.Constant) and isinstance(ch.value.value, str)):
                        stmts[ch.lineno] = owner
                walk(ch, o)
        walk(tree, "")
        hit = files.get(rel, {})
        missing = {}
        for ln, owner in sorted(stmts.items()):
            if owner and ln not in hit:
                missing.setdefault(owner, []).append(ln)
        n_exec = sum(1 for ln, o in stmts.items() if o)
        n_hit = sum(1 for ln, o in stmts.items() if o and ln in hit)
        tot_exec += n_exec
        tot_hit += n_hit
        report[rel] = {"statements_in_functions": n_exec, "executed_by_some_check": n_hit,
                       "missing": {k: v for k, v in missing.items()},
                       "by_check": {pid: sum(1 for ln in stmts if stmts[ln] and pid in hit.get(ln, ())) for pid in pids}}
json.dump({"repo": REPO, "checks": pids, "total_statements": tot_exec, "total_executed": tot_hit, "files": report},
          open(os.path.join(V, "evidence", "coverage_map.json"), "w"), indent=1, sort_keys=True)
print(f"statements inside functions: {tot_exec}, executed by at least one check: {tot_hit} ({100.0 * tot_hit / max(1, tot_exec):.1f}%)")
for rel in sorted(report):
    r = report[rel]
    if r["statements_in_functions"]:
        print(f"{rel:45s} {r['executed_by_some_check']:4d}/{r['statements_in_functions']:4d}")
