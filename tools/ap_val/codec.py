import struct, random, subprocess, math
from fractions import Fraction
rng = random.Random(7)
pats = [0, 1, 2**52-1, 2**52, 2**52+1, 0x7FEFFFFFFFFFFFFF, 0x7FF0000000000000, 0x7FF8000000000000, 2**63, 2**63+1, 0xFFEFFFFFFFFFFFFF, 0xFFF0000000000000, 0x3FF0000000000000]
pats += [rng.getrandbits(64) for _ in range(1500)] + [rng.getrandbits(52) for _ in range(200)] + [(1<<63)|rng.getrandbits(53) for _ in range(200)]
lines = [f"dec {b}" for b in pats]
out = subprocess.run(['/verif/bin/lasmodel_ap'], input='\n'.join(lines)+'\n', capture_output=True, text=True).stdout.split('\n')
bad = 0; enc_lines = []; enc_expect = []
for b, o in zip(pats, out):
    v = struct.unpack('<d', struct.pack('<Q', b))[0]
    if not math.isfinite(v):
        if o != 'nan': bad += 1; print("dec", hex(b), o)
        continue
    n, d = o.split('/')
    if Fraction(int(n), int(d)) != Fraction(v): bad += 1; print("dec", hex(b), o[:40])
    enc_lines.append(f"enc {n} {d}"); enc_expect.append(0 if b == 2**63 else b)
out2 = subprocess.run(['/verif/bin/lasmodel_ap'], input='\n'.join(enc_lines)+'\n', capture_output=True, text=True).stdout.split('\n')
for e, o in zip(enc_expect, out2):
    if int(o) != e: bad += 1; print("enc", hex(e), o)
print("patterns", len(pats), "finite", len(enc_lines), "bad", bad)
