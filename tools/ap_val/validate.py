import struct, random, subprocess, sys, numpy as np, math
rng = random.Random(20261001)
def bits(f): return struct.unpack('<Q', struct.pack('<d', float(f)))[0]
def val(b): return struct.unpack('<d', struct.pack('<Q', b))[0]
special_s = [0.01, 0.001, 1.0, 0.1, 1e-9, 1e3, 0.5, 0.25, 2.0, 2.0**-10, 2.0**-20, 2.0**9, 1e-3, 1e-7, 0.0254, 1/3]
special_o = [0.0, -0.0, 1e9, -1e9, 0.5, -0.5, 123456.789, -4.2e6, 1.0, 1e-9]
special_x = [-2**31, 2**31-1, 0, 1, -1, 2**31-2, -2**31+1, 2**24, -2**24, 2**30, 100, -100]
def rs():
    r = rng.random()
    if r < 0.3: return rng.choice(special_s)
    if r < 0.6: return 10 ** rng.uniform(-9, 3)
    if r < 0.8: return float(np.float64(rng.choice([1,2,5,25,254])) * 10.0 ** rng.randint(-9, 1))
    return 2.0 ** rng.randint(-30, 9)
def ro():
    r = rng.random()
    if r < 0.3: return rng.choice(special_o)
    if r < 0.6: return rng.uniform(-1e9, 1e9)
    if r < 0.8: return float(rng.randint(-10**9, 10**9))
    return rng.choice([-1, 1]) * 10 ** rng.uniform(-6, 9)
def rx():
    r = rng.random()
    if r < 0.25: return rng.choice(special_x)
    if r < 0.5: return rng.randint(-2**31, 2**31-1)
    if r < 0.75: return rng.randint(-10**6, 10**6)
    return rng.choice([-1, 1]) * (2 ** rng.randint(0, 30)) + rng.randint(-3, 3)
N = int(sys.argv[1]) if len(sys.argv) > 1 else 20000
cases = []
for s in special_s:
    for o in special_o:
        for x in special_x:
            cases.append((s, o, x))
while len(cases) < N + len(special_s)*len(special_o)*len(special_x):
    x = max(-2**31, min(2**31-1, rx()))
    cases.append((rs(), ro(), x))
# extras outside the brief's box: tiny / huge / subnormal scales (still positive finite)
extra = []
for s in [5e-324, 1e-310, 2.0**-1074, 2.0**-1022, 1e-300, 1e300, 1e298, 4.9e-324*7]:
    for o in [0.0, 1e-320, -1e-310, 1e300, -1e300, 1.0]:
        for x in special_x:
            extra.append((s, o, x))
lines = []
for (s, o, x) in cases + extra:
    lines.append(f"ap64 {bits(s)} {bits(o)} {x}")
    lines.append(f"good {bits(s)} {bits(o)}")
out = subprocess.run(['/verif/bin/lasmodel_ap'], input='\n'.join(lines) + '\n', capture_output=True, text=True).stdout.split('\n')
bad = 0; notgood = 0; nonfinite = 0; bad_good = 0; bad_brief = 0
for k, (s, o, x) in enumerate(cases + extra):
    with np.errstate(all='ignore'):
        ref = np.int32(x) * np.float64(s) + np.float64(o)
    assert isinstance(ref, np.float64), type(ref)
    rb = bits(ref)
    mb = int(out[2*k]); g = out[2*k+1]
    if g != 'T': notgood += 1
    if not math.isfinite(ref): nonfinite += 1
    if rb != mb:
        # the model has one zero and maps every non-finite result to +inf
        bad += 1
        if g == 'T': bad_good += 1
        if k < len(cases): bad_brief += 1
        if bad <= 20: print("MISMATCH", s, o, x, hex(rb), hex(mb), g, k >= len(cases))
print(f"mismatches-with-good_scaling=T={bad_good} mismatches-in-brief-box={bad_brief}")
print(f"cases={len(cases)} extra={len(extra)} mismatches={bad} not-good={notgood} nonfinite-ref={nonfinite}")
