#!/venv/bin/python
"""revert_test.py [PID ...] — for every `fixed` entry of known_findings.json (optionally only the given properties): revert that
fix commit in a scratch worktree of /repo and run the property's quick check against it; the check must report a VIOLATION.
Results are appended to /verif/seeded/revert_results.json."""
import json, os, subprocess, sys
VERIF = os.path.dirname(os.path.dirname(os.path.abspath(__file__)))
only = set(a.upper() for a in sys.argv[1:])
kf = json.load(open(os.path.join(VERIF, "known_findings.json")))
WT = "/tmp/mut_revert"
def sh(cmd, **kw):
    p = subprocess.run(cmd, shell=True, stdout=subprocess.PIPE, stderr=subprocess.STDOUT, text=True, **kw)
    return p.returncode, p.stdout
sh(f"git -C /repo worktree remove --force {WT}; git -C /repo worktree add -q --detach {WT} main")
resfile = os.path.join(VERIF, "seeded", "revert_results.json")
results = json.load(open(resfile)) if os.path.exists(resfile) else {}
for e in kf["findings"]:
    if e["status"] != "fixed" or (only and e["property"] not in only):
        continue
    pid, commit = e["property"], e["commit"]
    if not os.path.exists(os.path.join(VERIF, "harness", "props", pid.lower() + ".py")):
        continue
    sh(f"git -C {WT} revert --abort; git -C {WT} reset -q --hard main && git -C {WT} clean -fdq && git -C {WT} checkout -q --detach main")
    rc, out = sh(f"git -C {WT} revert --no-commit {commit}")
    if rc != 0:
        sh(f"git -C {WT} revert --abort; git -C {WT} checkout -q -- .")
        results[e["id"]] = {"property": pid, "commit": commit, "status": "revert does not apply cleanly on main (later fixes touch the same lines)"}
        print(e["id"], "revert conflict")
        continue
    rct, ot = sh(f"cd {WT} && timeout 900 /venv/bin/python -m pytest -q -p no:cacheprovider --timeout=900 2>&1 | tail -1")
    rcc, oc = sh(f"cd {VERIF} && timeout 1800 ./check {pid} --tier quick", env=dict(os.environ, VERIF_REPO=WT))
    viol = [l for l in oc.splitlines() if l.startswith("VIOLATION")]
    results[e["id"]] = {"property": pid, "commit": commit, "suite_with_revert": ot.strip()[-60:], "check_exit": rcc, "violations": viol[:3], "detected": rcc == 1 and bool(viol),
                        "with_failing_input": bool(viol) and "no-failing-input-found" not in viol[0]}
    print(e["id"], "detected" if results[e["id"]]["detected"] else "MISSED", viol[:1])
    sh("rm -rf /var/tmp/verif_alt_" + __import__('hashlib').sha1(__import__('os').path.realpath(WT).encode()).hexdigest()[:10] + "")
    json.dump(results, open(resfile, "w"), indent=1)
sh(f"git -C {WT} revert --abort; git -C /repo worktree remove --force {WT}")
