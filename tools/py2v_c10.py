"""py2v plugin for property C10: a structural summary of laspy/point/dims.py (ArrayView, SubFieldView, ScaledArrayView)
-> coq/Gen/GenViews.v.

What is read from the AST (fail closed: anything not recognised makes the definition MISSING, so the theorems of
Props/C10.v that mention it stop compiling):
  * every operator method of ArrayView: `return np.array(self) <op> other`; the operator is taken from the AST node, so
    a method that delegates to the wrong operator produces a table the theorems refute;
  * ArrayView.max/min: `return np.array(self).<m>(*args, **kwargs)`; __array_ufunc__/__array_function__ and
    _convert_array_views_to_array: exact shape;
  * SubFieldView: which operators are overridden and where they route, the shape of _do_comparison (guard, fast path
    operands, materialised path), masked_array, __array__, __init__ (lsb from packing.least_significant_bit_set);
  * ScaledArrayView: _apply_scale, _remove_scale, _is_multi_element, __array__/scaled_array, max/min (two routes),
    __getitem__ (branch list), which comparison operators it overrides.
"""
import ast

import py2v
from py2v import Untranslatable

SRC = "laspy/point/dims.py"

BINOPS = {ast.Lt: "OpLt", ast.LtE: "OpLe", ast.Gt: "OpGt", ast.GtE: "OpGe", ast.Eq: "OpEq", ast.NotEq: "OpNe",
          ast.Add: "OpAdd", ast.Sub: "OpSub", ast.Mult: "OpMul", ast.Div: "OpTrueDiv", ast.FloorDiv: "OpFloorDiv"}
DUNDERS = [("__lt__", "OpLt"), ("__le__", "OpLe"), ("__gt__", "OpGt"), ("__ge__", "OpGe"), ("__eq__", "OpEq"),
           ("__ne__", "OpNe"), ("__add__", "OpAdd"), ("__sub__", "OpSub"), ("__mul__", "OpMul"),
           ("__truediv__", "OpTrueDiv"), ("__floordiv__", "OpFloorDiv")]
OPERATOR_FUNCS = {"lt": "OpLt", "le": "OpLe", "gt": "OpGt", "ge": "OpGe", "eq": "OpEq", "ne": "OpNe"}

PRELUDE = """(* operators a view answers itself, and where each one is routed *)
Inductive vbinop := OpLt | OpLe | OpGt | OpGe | OpEq | OpNe | OpAdd | OpSub | OpMul | OpTrueDiv | OpFloorDiv.
Inductive vroute :=
  | Materialised (op : vbinop)      (* return np.array(self) <op> other *)
  | DoComparison (op : vbinop)      (* return self._do_comparison(other, operator.<op>)   [SubFieldView] *)
  | GridComparison (op : vbinop)    (* return self._do_comparison(other, "__<op>__")      [ScaledArrayView] *)
  | Inherited.                      (* not defined by the class *)
Inductive vreduce := RMax | RMin.
Inductive red_route :=
  | RedMaterialised (r : vreduce)   (* return np.array(self).<r>(...) with the caller's arguments *)
  | RedApplyGrid (r : vreduce)      (* return self._apply_scale(self.array.<r>()) : no argument reaches the grid *)
  | RedApplyGridArgs (r : vreduce). (* return self._apply_scale(self.array.<r>(...)) : the caller's arguments applied to the grid *)
(* SubFieldView._do_comparison *)
Inductive cmp_guard :=
  | GuardIntNotBool                 (* isinstance(value, (int, np.integer)) and not isinstance(value, (bool, np.bool_)) *)
  | GuardAlways.                    (* no test: one path for every operand *)
Inductive cmp_lhs := LhsMaskedByte (* self.array & self.bit_mask *) | LhsField (* self.masked_array() *).
Inductive cmp_rhs := RhsPyShift (* int(value) << self.lsb *) | RhsRawShift (* value << self.lsb *) | RhsValue (* value *).
(* ScaledArrayView.__getitem__: the branches in source order *)
Inductive gi_branch :=
  | GiIntApply                      (* isinstance(item, int): return self._apply_scale(self.array[item]) *)
  | GiSliceKeep                     (* isinstance(item, slice): view(self.array[item], self.scale, self.offset) *)
  | GiPairSliceScales               (* 2-tuple, multi-element, item[1] is not Ellipsis: scale[item[1]], offset[item[1]];
                                       a 0-d selection is scaled at once *)
  | GiOtherKeep.                    (* anything else: view(self.array[item], self.scale, self.offset) *)
(* ... and what the non-int, non-slice branches return *)
Inductive gi_values :=
  | GiValuesPerPosition             (* multi-element and ndim(selection) < 2 and (ndim(selection) == 0 or ndim(scale) > 0):
                                       return (selection * scale) + offset, otherwise a view *)
  | GiValuesScalarPairOnly.         (* only a 0-d selection of the pair branch is scaled at once, everything else is a view *)
Inductive scale_formula := ScaleMulAdd (* (value * self.scale) + self.offset *).
Inductive unscale_formula := UnscaleSubDivRound (* np.round((value - self.offset) / self.scale) *).

"""


def body_of(fn):
    b = list(fn.body)
    if b and isinstance(b[0], ast.Expr) and isinstance(b[0].value, ast.Constant) and isinstance(b[0].value.value, str):
        b = b[1:]
    return b


def dump(nodes):
    if isinstance(nodes, ast.AST):
        nodes = [nodes]
    return "\n".join(ast.dump(n) for n in nodes)


def tmpl_stmts(src):
    return ast.parse(src).body


def tmpl_expr(src):
    return ast.parse(src, mode="eval").body


def same_stmts(nodes, src):
    return dump(nodes) == dump(tmpl_stmts(src))


def same_expr(node, src):
    return dump(node) == dump(tmpl_expr(src))


def argnames(fn):
    a = fn.args
    return ([x.arg for x in a.posonlyargs + a.args], a.vararg.arg if a.vararg else None, a.kwarg.arg if a.kwarg else None)


def method(cls, name):
    """the plain method `name` of cls, None when the class does not define it"""
    found = [n for n in cls.body if isinstance(n, ast.FunctionDef) and n.name == name]
    if not found:
        return None
    if len(found) > 1:
        raise Untranslatable(f"{cls.name}.{name} defined {len(found)} times")
    fn = found[0]
    if fn.decorator_list:
        raise Untranslatable(f"{cls.name}.{name} is decorated")
    return fn


def need(cls, name):
    fn = method(cls, name)
    if fn is None:
        raise Untranslatable(f"{cls.name}.{name} not found")
    return fn


def no_assignment_of(cls, names):
    """the class body must not bind the operator names another way (e.g. `__lt__ = something`)"""
    for n in cls.body:
        if isinstance(n, (ast.Assign, ast.AnnAssign, ast.AugAssign)):
            targets = n.targets if isinstance(n, ast.Assign) else [n.target]
            for t in targets:
                for x in ast.walk(t):
                    if isinstance(x, ast.Name) and x.id in names:
                        raise Untranslatable(f"{cls.name}: {x.id} bound by assignment")


def bases(cls):
    return [ast.unparse(b) for b in cls.bases]


def av_route(fn):
    """`return np.array(self) <op> other`"""
    if argnames(fn) != (["self", "other"], None, None):
        raise Untranslatable(f"{fn.name}: parameters {argnames(fn)}")
    b = body_of(fn)
    if len(b) != 1 or not isinstance(b[0], ast.Return) or b[0].value is None:
        raise Untranslatable(f"{fn.name}: not a single return")
    e = b[0].value
    if isinstance(e, ast.Compare) and len(e.ops) == 1:
        left, op, right = e.left, e.ops[0], e.comparators[0]
    elif isinstance(e, ast.BinOp):
        left, op, right = e.left, e.op, e.right
    else:
        raise Untranslatable(f"{fn.name}: {ast.unparse(e)}")
    if not same_expr(left, "np.array(self)") or not same_expr(right, "other") or type(op) not in BINOPS:
        raise Untranslatable(f"{fn.name}: {ast.unparse(e)} is not np.array(self) <op> other")
    return f"Materialised {BINOPS[type(op)]}"


def sfv_route(fn):
    """`return self._do_comparison(other, operator.<op>)`"""
    if argnames(fn) != (["self", "other"], None, None):
        raise Untranslatable(f"{fn.name}: parameters")
    b = body_of(fn)
    if len(b) == 1 and isinstance(b[0], ast.Return) and isinstance(b[0].value, ast.Call):
        c = b[0].value
        if (same_expr(c.func, "self._do_comparison") and len(c.args) == 2 and not c.keywords and same_expr(c.args[0], "other")
                and isinstance(c.args[1], ast.Attribute) and same_expr(c.args[1].value, "operator") and c.args[1].attr in OPERATOR_FUNCS):
            return f"DoComparison {OPERATOR_FUNCS[c.args[1].attr]}"
    try:
        return av_route(fn)
    except Untranslatable:
        raise Untranslatable(f"SubFieldView.{fn.name}: {ast.unparse(fn)[:120]}")


def sav_route(fn):
    """`return self._do_comparison(other, "__<op>__")`"""
    b = body_of(fn)
    if argnames(fn) == (["self", "other"], None, None) and len(b) == 1 and isinstance(b[0], ast.Return) and isinstance(b[0].value, ast.Call):
        c = b[0].value
        if (same_expr(c.func, "self._do_comparison") and len(c.args) == 2 and not c.keywords and same_expr(c.args[0], "other")
                and isinstance(c.args[1], ast.Constant) and isinstance(c.args[1].value, str)):
            nm = c.args[1].value
            if nm.startswith("__") and nm.endswith("__") and nm[2:-2] in OPERATOR_FUNCS:
                return f"GridComparison {OPERATOR_FUNCS[nm[2:-2]]}"
    try:
        return av_route(fn)
    except Untranslatable:
        raise Untranslatable(f"ScaledArrayView.{fn.name}: {ast.unparse(fn)[:120]}")


def qs(s):
    return '"' + s + '"%string'


def table(name, rows):
    return f"Definition {name} : list (string * vroute) := [\n  " + ";\n  ".join(f"({qs(d)}, {r})" for d, r in rows) + "].\n"


def reduce_call(e):
    """np.array(self).<m>(*args, **kwargs) | self._apply_scale(self.array.<m>()) | self._apply_scale(self.array.<m>(*args, **kwargs))"""
    for m, c in (("max", "RMax"), ("min", "RMin")):
        if same_expr(e, f"np.array(self).{m}(*args, **kwargs)"):
            return f"RedMaterialised {c}"
        if same_expr(e, f"self._apply_scale(self.array.{m}())"):
            return f"RedApplyGrid {c}"
        if same_expr(e, f"self._apply_scale(self.array.{m}(*args, **kwargs))"):
            return f"RedApplyGridArgs {c}"
    return None


def red_single(fn):
    if argnames(fn) != (["self"], "args", "kwargs"):
        raise Untranslatable(f"{fn.name}: parameters")
    b = body_of(fn)
    if len(b) == 1 and isinstance(b[0], ast.Return):
        return reduce_call(b[0].value)
    return None


def gen_views(repo):
    o = py2v.Out(f"{SRC} classes ArrayView, SubFieldView, ScaledArrayView (structure read from the AST)")
    o.text += PRELUDE
    mod = py2v.parse(repo, SRC)
    av = py2v.find_class(mod, "ArrayView")
    sfv = py2v.find_class(mod, "SubFieldView")
    sav = py2v.find_class(mod, "ScaledArrayView")
    names = {d for d, _ in DUNDERS} | {"max", "min", "__array_ufunc__", "__array_function__", "__getitem__", "__array__"}

    # ------------------------------------------------------------ ArrayView
    def av_ops():
        no_assignment_of(av, names)
        return table("av_ops", [(d, av_route(need(av, d))) for d, _ in DUNDERS])
    o.add("av_ops", av_ops)

    def av_red():
        out = ""
        for m in ("max", "min"):
            r = red_single(need(av, m))
            if r is None:
                raise Untranslatable(f"ArrayView.{m}: not a delegation to np.array(self).{m}")
            out += f"Definition av_{m} : red_route := {r}.\n"
        return out
    o.add("av_max_min", av_red)

    def av_protocols():
        fn = need(av, "__array_ufunc__")
        if argnames(fn) != (["self", "ufunc", "method"], "inputs", "kwargs") or not same_stmts(body_of(fn), (
                "inpts = _convert_array_views_to_array(self.__class__, inputs)\n"
                "return getattr(ufunc, method)(*inpts, **kwargs)\n")):
            raise Untranslatable("ArrayView.__array_ufunc__ shape")
        fn = need(av, "__array_function__")
        if argnames(fn) != (["self", "func", "types", "args", "kwargs"], None, None) or not same_stmts(body_of(fn), (
                "argslist = _convert_array_views_to_array(self.__class__, args)\n"
                "return func(*argslist, **kwargs)\n")):
            raise Untranslatable("ArrayView.__array_function__ shape")
        conv = py2v.find_func(mod, "_convert_array_views_to_array")
        if argnames(conv) != (["view_class", "some_args"], None, None) or not same_stmts(body_of(conv), (
                "converted_args = []\n"
                "for arg in some_args:\n"
                "    if isinstance(arg, (list, tuple)):\n"
                "        converted_args.append(_convert_array_views_to_array(view_class, arg))\n"
                "    elif isinstance(arg, view_class):\n"
                "        converted_args.append(np.array(arg))\n"
                "    else:\n"
                "        converted_args.append(arg)\n"
                "return converted_args\n")):
            raise Untranslatable("_convert_array_views_to_array shape")
        return ("(* __array_ufunc__ / __array_function__: every view of the receiver's class among the (nested list/tuple)\n"
                "   arguments is replaced by np.array(view), then the numpy callable is applied *)\n"
                "Definition av_ufunc_converts_then_applies : bool := true.\n"
                "Definition av_function_converts_then_applies : bool := true.\n"
                "Definition av_convert_recurses_lists_tuples : bool := true.\n")
    o.add("av_protocols", av_protocols)

    # ------------------------------------------------------------ SubFieldView
    def sfv_ops():
        if bases(sfv) != ["ArrayView"]:
            raise Untranslatable(f"SubFieldView bases {bases(sfv)}")
        no_assignment_of(sfv, names)
        for m in ("max", "min", "__array_ufunc__", "__array_function__"):
            if method(sfv, m) is not None:
                raise Untranslatable(f"SubFieldView overrides {m}")
        rows = []
        for d, _ in DUNDERS:
            fn = method(sfv, d)
            rows.append((d, "Inherited" if fn is None else sfv_route(fn)))
        return table("sfv_ops", rows)
    o.add("sfv_ops", sfv_ops)

    def sfv_cmp():
        fn = need(sfv, "_do_comparison")
        if argnames(fn) != (["self", "value", "comp"], None, None):
            raise Untranslatable("_do_comparison parameters")

        def path(ret):
            if not (isinstance(ret, ast.Return) and isinstance(ret.value, ast.Call) and same_expr(ret.value.func, "comp")
                    and len(ret.value.args) == 2 and not ret.value.keywords):
                raise Untranslatable("_do_comparison: path is not `return comp(a, b)`")
            a, b = ret.value.args
            if same_expr(a, "self.array & self.bit_mask"):
                lhs = "LhsMaskedByte"
            elif same_expr(a, "self.masked_array()"):
                lhs = "LhsField"
            else:
                raise Untranslatable(f"_do_comparison: left operand {ast.unparse(a)}")
            if same_expr(b, "int(value) << self.lsb"):
                rhs = "RhsPyShift"
            elif same_expr(b, "value << self.lsb"):
                rhs = "RhsRawShift"
            elif same_expr(b, "value"):
                rhs = "RhsValue"
            else:
                raise Untranslatable(f"_do_comparison: right operand {ast.unparse(b)}")
            return f"({lhs}, {rhs})"

        b = body_of(fn)
        if len(b) == 2 and isinstance(b[0], ast.If) and not b[0].orelse and len(b[0].body) == 1:
            if not same_expr(b[0].test, "isinstance(value, (int, np.integer)) and not isinstance(value, (bool, np.bool_))"):
                raise Untranslatable(f"_do_comparison: guard {ast.unparse(b[0].test)}")
            guard, fast, slow = "GuardIntNotBool", path(b[0].body[0]), path(b[1])
        elif len(b) == 1:
            guard, fast, slow = "GuardAlways", path(b[0]), path(b[0])
        else:
            raise Untranslatable("_do_comparison: statement list")
        return (f"Definition sfv_cmp_guard : cmp_guard := {guard}.\n"
                f"Definition sfv_cmp_fast : cmp_lhs * cmp_rhs := {fast}.   (* operands for which the guard holds *)\n"
                f"Definition sfv_cmp_slow : cmp_lhs * cmp_rhs := {slow}.   (* every other operand *)\n")
    o.add("sfv_cmp", sfv_cmp)

    def sfv_values():
        fn = need(sfv, "masked_array")
        if argnames(fn) != (["self"], None, None) or not same_stmts(body_of(fn), "return (self.array & self.bit_mask) >> self.lsb\n"):
            raise Untranslatable("SubFieldView.masked_array shape")
        fn = need(sfv, "__array__")
        if not same_stmts(body_of(fn), ("ret = self.masked_array()\n"
                                        "if not isinstance(ret, np.ndarray):\n"
                                        "    ret = np.array(ret)\n"
                                        "return ret\n")):
            raise Untranslatable("SubFieldView.__array__ shape")
        init = need(sfv, "__init__")
        if argnames(init) != (["self", "array", "bit_mask"], None, None) or not same_stmts(body_of(init), (
                "super().__init__(array)\n"
                "self.bit_mask = self.array.dtype.type(bit_mask)\n"
                "self.lsb = packing.least_significant_bit_set(bit_mask)\n"
                "self.max_value_allowed = int(self.bit_mask >> self.lsb)\n")):
            raise Untranslatable("SubFieldView.__init__ shape")
        gi = need(sfv, "__getitem__")
        if argnames(gi) != (["self", "item"], None, None) or not same_stmts(body_of(gi), (
                "sliced = SubFieldView(self.array[item], int(self.bit_mask))\n"
                "if isinstance(item, int):\n"
                "    return sliced.masked_array()\n"
                "return sliced\n")):
            raise Untranslatable("SubFieldView.__getitem__ shape")
        return ("(* np.array(view) = (array & mask) >> lsb with lsb = packing.least_significant_bit_set(mask) (GenFormatBits);\n"
                "   view[item] is a view of array[item] with the same mask (its value for a python int) *)\n"
                "Definition sfv_value_is_masked_shifted : bool := true.\n"
                "Definition sfv_getitem_keeps_mask : bool := true.\n")
    o.add("sfv_values", sfv_values)

    # ------------------------------------------------------------ ScaledArrayView
    def sav_ops():
        if bases(sav) != ["ArrayView"]:
            raise Untranslatable(f"ScaledArrayView bases {bases(sav)}")
        no_assignment_of(sav, names)
        for m in ("__array_ufunc__", "__array_function__"):
            if method(sav, m) is not None:
                raise Untranslatable(f"ScaledArrayView overrides {m}")
        rows = []
        for d, _ in DUNDERS:
            fn = method(sav, d)
            rows.append((d, "Inherited" if fn is None else sav_route(fn)))
        return table("sav_ops", rows)
    o.add("sav_ops", sav_ops)

    def sav_scale():
        fn = need(sav, "_apply_scale")
        if argnames(fn) != (["self", "value"], None, None) or not same_stmts(body_of(fn), "return (value * self.scale) + self.offset\n"):
            raise Untranslatable("_apply_scale shape")
        fn = need(sav, "_remove_scale")
        if argnames(fn) != (["self", "value"], None, None) or not same_stmts(body_of(fn), "return np.round((value - self.offset) / self.scale)\n"):
            raise Untranslatable("_remove_scale shape")
        fn = need(sav, "_is_multi_element")
        if not same_stmts(body_of(fn), "return self.array.ndim > 1\n"):
            raise Untranslatable("_is_multi_element shape")
        if not same_stmts(body_of(need(sav, "scaled_array")), "return self._apply_scale(self.array)\n"):
            raise Untranslatable("scaled_array shape")
        if not same_stmts(body_of(need(sav, "__array__")), "return self.scaled_array()\n"):
            raise Untranslatable("ScaledArrayView.__array__ shape")
        init = need(sav, "__init__")
        if argnames(init) != (["self", "array", "scale", "offset"], None, None) or not same_stmts(body_of(init), (
                "super().__init__(array)\nself.scale = scale\nself.offset = offset\n")):
            raise Untranslatable("ScaledArrayView.__init__ shape")
        return ("Definition sav_apply_scale : scale_formula := ScaleMulAdd.\n"
                "Definition sav_remove_scale : unscale_formula := UnscaleSubDivRound.\n"
                "(* np.array(view) = _apply_scale(array), scale/offset broadcast along the last axis; multi-element = ndim > 1 *)\n"
                "Definition sav_value_is_apply_scale : bool := true.\n")
    o.add("sav_scale", sav_scale)

    def sav_red():
        """-> (multi-element, one element per point called with arguments, one element per point without argument)"""
        out = ""
        for m in ("max", "min"):
            fn = need(sav, m)
            r = red_single(fn)
            if r is not None:
                routes = (r, r, r)
            else:
                b = body_of(fn)
                if not (argnames(fn) == (["self"], "args", "kwargs") and len(b) == 2 and isinstance(b[0], ast.If) and not b[0].orelse
                        and len(b[0].body) == 1 and isinstance(b[0].body[0], ast.Return) and isinstance(b[1], ast.Return)):
                    raise Untranslatable(f"ScaledArrayView.{m} shape")
                first, second = reduce_call(b[0].body[0].value), reduce_call(b[1].value)
                if first is None or second is None:
                    raise Untranslatable(f"ScaledArrayView.{m}: unknown reduction expression")
                if same_expr(b[0].test, "self._is_multi_element() or args or kwargs"):
                    routes = (first, first, second)
                elif same_expr(b[0].test, "self._is_multi_element()"):
                    routes = (first, second, second)
                else:
                    raise Untranslatable(f"ScaledArrayView.{m}: test {ast.unparse(b[0].test)}")
            out += (f"Definition sav_{m} : red_route * red_route * red_route := ({routes[0]}, {routes[1]}, {routes[2]}).\n"
                    "   (* (multi-element, one element per point with arguments, one element per point without) *)\n")
        return out
    o.add("sav_max_min", sav_red)

    def sav_getitem():
        fn = need(sav, "__getitem__")
        head = ("if isinstance(item, int):\n"
                "    return self._apply_scale(self.array[item])\n"
                "elif isinstance(item, slice):\n"
                "    return self.__class__(self.array[item], self.scale, self.offset)\n"
                "else:\n"
                "    sliced_array = self.array[item]\n")
        pair = "isinstance(item, tuple) and len(item) == 2 and self._is_multi_element() and item[1] is not Ellipsis"
        new_shape = (head +
                     f"    if ({pair}):\n"
                     "        scale, offset = self.scale[item[1]], self.offset[item[1]]\n"
                     "    else:\n"
                     "        scale, offset = self.scale, self.offset\n"
                     "    if (self._is_multi_element() and np.ndim(sliced_array) < 2 and (np.ndim(sliced_array) == 0 or np.ndim(scale) > 0)):\n"
                     "        return (sliced_array * scale) + offset\n"
                     "    return self.__class__(sliced_array, scale, offset)\n")
        old_shape = (head +
                     f"    if ({pair}):\n"
                     "        scale, offset = self.scale[item[1]], self.offset[item[1]]\n"
                     "        if np.ndim(sliced_array) == 0:\n"
                     "            return (sliced_array * scale) + offset\n"
                     "        return self.__class__(sliced_array, scale, offset)\n"
                     "    return self.__class__(sliced_array, self.scale, self.offset)\n")
        if argnames(fn) != (["self", "item"], None, None):
            raise Untranslatable("ScaledArrayView.__getitem__ parameters")
        if same_stmts(body_of(fn), new_shape):
            values = "GiValuesPerPosition"
        elif same_stmts(body_of(fn), old_shape):
            values = "GiValuesScalarPairOnly"
        else:
            raise Untranslatable("ScaledArrayView.__getitem__ shape")
        return ("Definition sav_getitem : list gi_branch := [GiIntApply; GiSliceKeep; GiPairSliceScales; GiOtherKeep].\n"
                f"Definition sav_getitem_values : gi_values := {values}.\n")
    o.add("sav_getitem", sav_getitem)
    return o


TARGETS = {"GenViews.v": gen_views}
