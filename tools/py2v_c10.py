"""py2v plugin for property C10: a structural summary of laspy/point/dims.py (ArrayView, SubFieldView, ScaledArrayView)
-> coq/Gen/GenViews.v.

What is read from the AST (fail closed: anything not recognised makes the definition MISSING, so the theorems of
Props/C10.v that mention it stop compiling):
  * every operator method of ArrayView: `return np.array(self) <op> other`; the operator is taken from the AST node, so
    a method that delegates to the wrong operator produces a table the theorems refute;
  * ArrayView.max/min: `return np.array(self).<m>(*args, **kwargs)`; __array_ufunc__/__array_function__ and
    _convert_array_views_to_array: exact shape;
  * SubFieldView: which operators are overridden and where they route, the shape of _do_comparison (guard, fast path
    operands, materialised path), masked_array, __array__, __init__ (lsb from packing.least_significant_bit_set);
  * ScaledArrayView: _apply_scale, _remove_scale, _is_multi_element, __array__/scaled_array, max/min (two routes),
    __getitem__ (branch list), which comparison operators it overrides.

All shape tests compare NORMAL FORMS of function bodies (see `norm` below: docstrings, single-return helper methods of
the same class inlined, elif/else after a returning branch flattened to early returns, once-bound-once-read temporaries
inlined, locals renamed, `if not c` branch order), so behaviour-preserving rewrites regenerate the same text.
"""
import ast
import copy

import py2v
from py2v import Untranslatable

SRC = "laspy/point/dims.py"

BINOPS = {ast.Lt: "OpLt", ast.LtE: "OpLe", ast.Gt: "OpGt", ast.GtE: "OpGe", ast.Eq: "OpEq", ast.NotEq: "OpNe",
          ast.Add: "OpAdd", ast.Sub: "OpSub", ast.Mult: "OpMul", ast.Div: "OpTrueDiv", ast.FloorDiv: "OpFloorDiv"}
DUNDERS = [("__lt__", "OpLt"), ("__le__", "OpLe"), ("__gt__", "OpGt"), ("__ge__", "OpGe"), ("__eq__", "OpEq"),
           ("__ne__", "OpNe"), ("__add__", "OpAdd"), ("__sub__", "OpSub"), ("__mul__", "OpMul"),
           ("__truediv__", "OpTrueDiv"), ("__floordiv__", "OpFloorDiv")]
RDUNDERS = [("__radd__", "OpAdd"), ("__rsub__", "OpSub"), ("__rmul__", "OpMul"), ("__rtruediv__", "OpTrueDiv"),
            ("__rfloordiv__", "OpFloorDiv")]
INPLACE_DUNDERS = ["__iadd__", "__isub__", "__imul__", "__itruediv__", "__ifloordiv__", "__imod__", "__ipow__", "__iand__", "__ior__",
                   "__ixor__", "__ilshift__", "__irshift__", "__imatmul__"]
OTHER_OPERATOR_DUNDERS = ["__mod__", "__rmod__", "__pow__", "__rpow__", "__and__", "__rand__", "__or__", "__ror__", "__xor__", "__rxor__",
                          "__lshift__", "__rlshift__", "__rshift__", "__rrshift__", "__matmul__", "__rmatmul__", "__divmod__",
                          "__rdivmod__", "__neg__", "__pos__", "__abs__", "__invert__", "__getattr__", "__getattribute__"]
OPERATOR_FUNCS = {"lt": "OpLt", "le": "OpLe", "gt": "OpGt", "ge": "OpGe", "eq": "OpEq", "ne": "OpNe"}

PRELUDE = """(* operators a view answers itself, and where each one is routed *)
Inductive vbinop := OpLt | OpLe | OpGt | OpGe | OpEq | OpNe | OpAdd | OpSub | OpMul | OpTrueDiv | OpFloorDiv.
Inductive vroute :=
  | Materialised (op : vbinop)      (* return np.array(self) <op> other *)
  | DoComparison (op : vbinop)      (* return self._do_comparison(other, operator.<op>)   [SubFieldView] *)
  | GridComparison (op : vbinop)    (* return self._do_comparison(other, "__<op>__")      [ScaledArrayView] *)
  | Inherited.                      (* not defined by the class *)
Inductive rroute :=
  | RAbsent                         (* the class does not define the reflected method *)
  | RSwapped (op : vbinop).         (* return other <op> np.array(self) *)
Inductive vreduce := RMax | RMin.
Inductive red_route :=
  | RedMaterialised (r : vreduce)   (* return np.array(self).<r>(...) with the caller's arguments *)
  | RedApplyGrid (r : vreduce)      (* return self._apply_scale(self.array.<r>()) : no argument reaches the grid *)
  | RedApplyGridArgs (r : vreduce). (* return self._apply_scale(self.array.<r>(...)) : the caller's arguments applied to the grid *)
(* SubFieldView._do_comparison *)
Inductive cmp_guard :=
  | GuardIntNotBool                 (* isinstance(value, (int, np.integer)) and not isinstance(value, (bool, np.bool_)) *)
  | GuardAlways.                    (* no test: one path for every operand *)
Inductive cmp_lhs := LhsMaskedByte (* self.array & self.bit_mask *) | LhsField (* self.masked_array() *).
Inductive cmp_rhs := RhsPyShift (* int(value) << self.lsb *) | RhsRawShift (* value << self.lsb *) | RhsValue (* value *).
(* ScaledArrayView.__getitem__: the branches in source order *)
Inductive gi_branch :=
  | GiIntApply                      (* isinstance(item, int): return self._apply_scale(self.array[item]) *)
  | GiSliceKeep                     (* isinstance(item, slice): view(self.array[item], self.scale, self.offset) *)
  | GiPairSliceScales               (* 2-tuple, multi-element, item[1] is not Ellipsis: scale[item[1]], offset[item[1]];
                                       a 0-d selection is scaled at once *)
  | GiOtherKeep.                    (* anything else: view(self.array[item], self.scale, self.offset) *)
(* ... and what the non-int, non-slice branches return *)
Inductive gi_values :=
  | GiValuesPerPosition             (* multi-element and ndim(selection) < 2 and (ndim(selection) == 0 or ndim(scale) > 0):
                                       return (selection * scale) + offset, otherwise a view *)
  | GiValuesScalarPairOnly.         (* only a 0-d selection of the pair branch is scaled at once, everything else is a view *)
Inductive scale_formula := ScaleMulAdd (* (value * self.scale) + self.offset *).
Inductive unscale_formula := UnscaleSubDivRound (* np.round((value - self.offset) / self.scale) *).

"""


def body_of(fn):
    b = list(fn.body)
    if b and isinstance(b[0], ast.Expr) and isinstance(b[0].value, ast.Constant) and isinstance(b[0].value.value, str):
        b = b[1:]
    return b


# ---------------------------------------------------------------------------------------------------------------------
# Normal form of a function body.  Every shape test below compares NORMAL FORMS (of the source and of the template), so
# that behaviour-preserving rewrites of the source give the same generated text.  Each step is semantics preserving by
# itself (so a semantic change of the source can never be normalised away), anything else is left as it is and then
# fails the comparison (fail closed):
#   1. docstrings, annotations of assignments are dropped;
#   2. a call `self.h(a, ..)` of a method h of the same class whose body is a single `return <expr>` is replaced by that
#      expression (plain positional parameters, simple arguments, h not one of the methods the plugin reads by itself,
#      h not defined by any other class of the module);
#   2b. a statement `return self.h(a, ..)` (h as in 2, but of several statements every path of which ends in return/raise)
#      is replaced by the statements of h with the parameters substituted (a tail call: nothing of the caller runs after
#      it; only when no local of h has the name of a parameter or of a name used by the arguments);
#      `getattr(E, "name")` with a constant identifier is `E.name`;
#   3. `not (a in b)` = `a not in b`, `not (a is b)` = `a is not b`; `if not c: A else: B` = `if c: B else: A`;
#   4. `if c: ..return/raise  else: E` = `if c: ..return/raise` followed by E (elif chains and nested else blocks become
#      early returns);
#   5. `if c: ..; x = F` directly followed by `return x` = `if c: ..; return F` followed by `return x`;
#      a final `if not c: return A` `return B` = `if c: return B` `return A`;
#   6. a local bound exactly once to an expression and read exactly once, unconditionally, by the head expression of the
#      very next statement is replaced by the expression (only if nothing with an effect is evaluated in between);
#   7. the remaining locals are renamed _l0, _l1, .. in order of their first binding.
PURE_CALLS = {"isinstance", "int", "len", "np.ndim", "self._is_multi_element", "self.masked_array"}
OWN_METHODS = {"_is_multi_element", "_apply_scale", "_remove_scale", "masked_array", "scaled_array", "_do_comparison",
               "__array__", "__getitem__", "__setitem__", "__init__", "max", "min"}
NESTED_SCOPES = (ast.FunctionDef, ast.AsyncFunctionDef, ast.Lambda, ast.ListComp, ast.SetComp, ast.DictComp,
                 ast.GeneratorExp, ast.ClassDef, ast.Global, ast.Nonlocal, ast.NamedExpr, ast.Yield, ast.YieldFrom, ast.Await)


def _has_nested_scope(nodes):
    return any(isinstance(x, NESTED_SCOPES) for n in nodes for x in ast.walk(n))


def _simple_arg(e):
    """a name, a constant, or attribute/constant-subscript chains of them: evaluating it twice or later is harmless"""
    while isinstance(e, (ast.Attribute, ast.Subscript)):
        if isinstance(e, ast.Subscript) and not isinstance(e.slice, ast.Constant):
            return False
        e = e.value
    return isinstance(e, (ast.Name, ast.Constant))


class _Subst(ast.NodeTransformer):
    def __init__(self, mapping):
        self.mapping = mapping

    def visit_Name(self, node):
        if node.id in self.mapping:
            if not isinstance(node.ctx, ast.Load):
                raise Untranslatable(f"helper assigns its parameter {node.id}")
            return copy.deepcopy(self.mapping[node.id])
        return node


def _binds(cls, name):
    for n in cls.body:
        if isinstance(n, (ast.FunctionDef, ast.AsyncFunctionDef, ast.ClassDef)) and n.name == name:
            return True
        if isinstance(n, (ast.Assign, ast.AnnAssign, ast.AugAssign)) and any(
                isinstance(x, ast.Name) and x.id == name for x in ast.walk(n)):
            return True
    return False


class _InlineHelpers(ast.NodeTransformer):
    def __init__(self, cls, mod, depth=0):
        self.cls, self.mod, self.depth = cls, mod, depth

    def visit_Call(self, node):
        self.generic_visit(node)
        f = node.func
        if not (isinstance(f, ast.Attribute) and isinstance(f.value, ast.Name) and f.value.id == "self"
                and f.attr not in OWN_METHODS and not (f.attr.startswith("__") and f.attr.endswith("__"))):
            return node
        found = [n for n in self.cls.body if isinstance(n, ast.FunctionDef) and n.name == f.attr]
        if len(found) != 1 or found[0].decorator_list:
            return node
        if self.mod is not None:
            for c in ast.walk(self.mod):
                if isinstance(c, ast.ClassDef) and c is not self.cls and _binds(c, f.attr):
                    return node          # another class has something of that name: dispatch is not obvious
        h = found[0]
        a = h.args
        if a.posonlyargs or a.vararg or a.kwarg or a.kwonlyargs or a.defaults or a.kw_defaults:
            return node
        params = [x.arg for x in a.args]
        hb = body_of(h)
        if (not params or params[0] != "self" or len(params) - 1 != len(node.args) or node.keywords
                or len(hb) != 1 or not isinstance(hb[0], ast.Return) or hb[0].value is None
                or _has_nested_scope(hb) or self.depth > 3):
            return node
        if not all(_simple_arg(x) for x in node.args):
            return node
        mapping = dict(zip(params[1:], node.args))
        expr = _Subst(mapping).visit(copy.deepcopy(hb[0].value))
        return _InlineHelpers(self.cls, self.mod, self.depth + 1).visit(expr)


def _resolve_helper(call, cls, mod):
    """the method h of `self.h(..)` when the call can be replaced by its body: -> (FunctionDef, {parameter: argument}) | None"""
    f = call.func
    if not (isinstance(f, ast.Attribute) and isinstance(f.value, ast.Name) and f.value.id == "self"
            and f.attr not in OWN_METHODS and not (f.attr.startswith("__") and f.attr.endswith("__"))):
        return None
    found = [n for n in cls.body if isinstance(n, ast.FunctionDef) and n.name == f.attr]
    if len(found) != 1 or found[0].decorator_list:
        return None
    if mod is not None:
        for c in ast.walk(mod):
            if isinstance(c, ast.ClassDef) and c is not cls and _binds(c, f.attr):
                return None
    h = found[0]
    a = h.args
    if a.posonlyargs or a.vararg or a.kwarg or a.kwonlyargs or a.defaults or a.kw_defaults:
        return None
    params = [x.arg for x in a.args]
    if (not params or params[0] != "self" or len(params) - 1 != len(call.args) or call.keywords
            or any(isinstance(x, ast.Starred) for x in call.args) or not all(_simple_arg(x) for x in call.args)):
        return None
    return h, dict(zip(params[1:], call.args))


def _tail_inline(block, cls, mod, depth=0):
    """step 2b on a statement list (top level and the branches of if statements)"""
    out = []
    for s in block:
        if isinstance(s, ast.Return) and isinstance(s.value, ast.Call) and depth < 3:
            r = _resolve_helper(s.value, cls, mod)
            if r is not None:
                h, mapping = r
                hb = body_of(h)
                assigned = {x.id for n in hb for x in ast.walk(n) if isinstance(x, ast.Name) and isinstance(x.ctx, (ast.Store, ast.Del))}
                used = set(mapping) | {x.id for e in mapping.values() for x in ast.walk(e) if isinstance(x, ast.Name)}
                if len(hb) > 1 and _terminates(hb) and not _has_nested_scope(hb) and not (assigned & used):
                    sub = [_Subst(mapping).visit(copy.deepcopy(n)) for n in hb]
                    out.extend(_tail_inline(sub, cls, mod, depth + 1))
                    continue
        if isinstance(s, ast.If):
            s = ast.If(test=s.test, body=_tail_inline(s.body, cls, mod, depth), orelse=_tail_inline(s.orelse, cls, mod, depth))
        out.append(s)
    return out


NEGATABLE = {ast.In: ast.NotIn, ast.NotIn: ast.In, ast.Is: ast.IsNot, ast.IsNot: ast.Is}


class _Cleanup(ast.NodeTransformer):
    def visit_AnnAssign(self, node):
        self.generic_visit(node)
        if node.value is None:
            return None
        return ast.Assign(targets=[node.target], value=node.value)

    def visit_Call(self, node):
        self.generic_visit(node)
        if (isinstance(node.func, ast.Name) and node.func.id == "getattr" and len(node.args) == 2 and not node.keywords
                and isinstance(node.args[1], ast.Constant) and isinstance(node.args[1].value, str)
                and node.args[1].value.isidentifier() and not __import__("keyword").iskeyword(node.args[1].value)
                and not (node.args[1].value.startswith("__") and not node.args[1].value.endswith("__"))):
            return ast.Attribute(value=node.args[0], attr=node.args[1].value, ctx=ast.Load())
        return node

    def visit_UnaryOp(self, node):
        self.generic_visit(node)
        o = node.operand
        if isinstance(node.op, ast.Not) and isinstance(o, ast.Compare) and len(o.ops) == 1 and type(o.ops[0]) in NEGATABLE:
            return ast.Compare(left=o.left, ops=[NEGATABLE[type(o.ops[0])]()], comparators=o.comparators)
        return node


def _terminates(block):
    if not block:
        return False
    last = block[-1]
    if isinstance(last, (ast.Return, ast.Raise)):
        return True
    return isinstance(last, ast.If) and _terminates(last.body) and _terminates(last.orelse)


def _is_not(e):
    return isinstance(e, ast.UnaryOp) and isinstance(e.op, ast.Not)


def _flatten(block, tail_returns=True):
    """steps 3 (branch order), 4 and 5 on a statement list (recursively)"""
    out = []
    todo = list(block)
    while todo:
        s = todo.pop(0)
        if isinstance(s, ast.If):
            if _is_not(s.test) and s.body and s.orelse:
                s = ast.If(test=s.test.operand, body=s.orelse, orelse=s.body)
            if s.orelse and _terminates(s.body):
                todo = list(s.orelse) + todo
                s = ast.If(test=s.test, body=s.body, orelse=[])
            elif s.orelse and _terminates(s.orelse):
                # `if c: A else: ..return` = `if not c: ..return` followed by A
                neg = s.test.operand if _is_not(s.test) else ast.UnaryOp(op=ast.Not(), operand=s.test)
                todo = list(s.body) + todo
                s = ast.If(test=_Cleanup().visit(neg), body=s.orelse, orelse=[])
            s = ast.If(test=s.test, body=_flatten(s.body), orelse=_flatten(s.orelse))
            # 5a: `if c: ..; x = F` `return x`
            if (not s.orelse and todo and isinstance(todo[0], ast.Return) and isinstance(todo[0].value, ast.Name)
                    and s.body and isinstance(s.body[-1], ast.Assign) and len(s.body[-1].targets) == 1
                    and isinstance(s.body[-1].targets[0], ast.Name) and s.body[-1].targets[0].id == todo[0].value.id):
                s = ast.If(test=s.test, body=s.body[:-1] + [ast.Return(value=s.body[-1].value)], orelse=[])
            # 5b: final `if not c: return A` `return B`
            if (not s.orelse and len(todo) == 1 and isinstance(todo[0], ast.Return) and _is_not(s.test)
                    and len(s.body) == 1 and isinstance(s.body[0], ast.Return)):
                s, todo = ast.If(test=s.test.operand, body=[todo[0]], orelse=[]), [s.body[0]]
            out.append(s)
        elif isinstance(s, (ast.For, ast.While)):
            s = copy.copy(s)
            s.body, s.orelse = _flatten(s.body), _flatten(s.orelse)
            out.append(s)
        elif isinstance(s, ast.With):
            s = copy.copy(s)
            s.body = _flatten(s.body)
            out.append(s)
        elif isinstance(s, ast.Try):
            s = copy.copy(s)
            s.body, s.orelse, s.finalbody = _flatten(s.body), _flatten(s.orelse), _flatten(s.finalbody)
            for h in s.handlers:
                h.body = _flatten(h.body)
            out.append(s)
        else:
            out.append(s)
    return out


def _call_name(c):
    try:
        return ast.unparse(c.func)
    except Exception:
        return "?"


def _only_pure_calls(e):
    return all(_call_name(x) in PURE_CALLS and not x.keywords for x in ast.walk(e) if isinstance(x, ast.Call)) \
        and not _has_nested_scope([e])


def _trivial(e):
    return all(isinstance(x, (ast.Name, ast.Constant, ast.Attribute, ast.Load)) for x in ast.walk(e))


def _find_use(e, name):
    """-> (path found, expressions evaluated before the use) for the single unconditional read of `name` in e, else None"""
    if isinstance(e, ast.Name):
        return [] if (e.id == name and isinstance(e.ctx, ast.Load)) else None
    if isinstance(e, ast.BinOp):
        kids = [e.left, e.right]
    elif isinstance(e, ast.UnaryOp):
        kids = [e.operand]
    elif isinstance(e, ast.BoolOp):
        kids = e.values[:1]
    elif isinstance(e, ast.Compare):
        kids = [e.left, e.comparators[0]]
    elif isinstance(e, ast.Call):
        if e.keywords or any(isinstance(a, ast.Starred) for a in e.args):
            return None
        kids = [e.func] + list(e.args)
    elif isinstance(e, ast.Attribute):
        kids = [e.value]
    elif isinstance(e, ast.Subscript):
        kids = [e.value, e.slice]
    elif isinstance(e, (ast.Tuple, ast.List)) and isinstance(e.ctx, ast.Load):
        kids = list(e.elts)
    else:
        return None
    for i, k in enumerate(kids):
        r = _find_use(k, name)
        if r is not None:
            return kids[:i] + r
    return None


def _head(s):
    if isinstance(s, (ast.Return, ast.Expr)) or (isinstance(s, ast.Assign) and all(isinstance(t, ast.Name) for t in s.targets)):
        return "value"
    if isinstance(s, ast.If):
        return "test"
    return None


def _count(nodes, name, ctx):
    return sum(1 for n in nodes for x in ast.walk(n) if isinstance(x, ast.Name) and x.id == name and isinstance(x.ctx, ctx))


def _inline_temps(body, params):
    """step 6, to a fixpoint"""
    def blocks(stmts):
        yield stmts
        for s in stmts:
            for f in ("body", "orelse", "finalbody"):
                sub = getattr(s, f, None)
                if isinstance(sub, list) and sub and isinstance(sub[0], ast.stmt):
                    yield from blocks(sub)
            for h in getattr(s, "handlers", []) or []:
                yield from blocks(h.body)

    changed = True
    while changed:
        changed = False
        for blk in blocks(body):
            for i in range(len(blk) - 1):
                s, nxt = blk[i], blk[i + 1]
                if not (isinstance(s, ast.Assign) and len(s.targets) == 1 and isinstance(s.targets[0], ast.Name)):
                    continue
                t = s.targets[0].id
                if t in params or _count(body, t, ast.Store) != 1 or _count(body, t, ast.Load) != 1 or _count(body, t, ast.Del):
                    continue
                field = _head(nxt)
                if field is None or getattr(nxt, field) is None:
                    continue
                before = _find_use(getattr(nxt, field), t)
                if before is None:
                    continue
                if not all(_trivial(x) for x in before) and not (_only_pure_calls(s.value) and all(_only_pure_calls(x) for x in before)):
                    continue
                setattr(nxt, field, _Subst({t: s.value}).visit(getattr(nxt, field)))
                del blk[i]
                changed = True
                break
            if changed:
                break
    return body


class _Rename(ast.NodeTransformer):
    def __init__(self, params):
        self.params, self.names = set(params), {}

    def visit_Name(self, node):
        if isinstance(node.ctx, ast.Store) and node.id not in self.params and node.id not in self.names:
            self.names[node.id] = f"_l{len(self.names)}"
        return node


def _rename_locals(body, params):
    r = _Rename(params)
    for s in body:
        r.visit(s)
    taken = {x.id for s in body for x in ast.walk(s) if isinstance(x, ast.Name)}
    if any(v in taken for v in r.names.values()):
        return body

    class Apply(ast.NodeTransformer):
        def visit_Name(self, node):
            return ast.Name(id=r.names.get(node.id, node.id), ctx=node.ctx)
    return [Apply().visit(s) for s in body]


def norm(stmts, params=(), cls=None, mod=None):
    body = copy.deepcopy(list(stmts))
    if body and isinstance(body[0], ast.Expr) and isinstance(body[0].value, ast.Constant) and isinstance(body[0].value.value, str):
        body = body[1:]
    if _has_nested_scope(body):
        return body                      # not understood: left as written
    if cls is not None:
        body = _tail_inline(body, cls, mod)
        body = [_InlineHelpers(cls, mod).visit(s) for s in body]
    body = [x for x in (_Cleanup().visit(s) for s in body) if x is not None]
    body = _flatten(body)
    body = _inline_temps(body, set(params))
    body = _flatten(body)
    body = _rename_locals(body, set(params))
    return [ast.fix_missing_locations(s) for s in body]


CTX = {"mod": None}     # the module being translated (set by gen_views): lets norm_fn find the class of a method


def norm_fn(fn, cls=None, mod=None):
    mod = mod or CTX["mod"]
    if cls is None and mod is not None:
        owners = [c for c in ast.walk(mod) if isinstance(c, ast.ClassDef) and any(n is fn for n in c.body)]
        cls = owners[0] if len(owners) == 1 else None
    return norm(fn.body, params_of(fn), cls, mod)


def dump(nodes):
    if isinstance(nodes, ast.AST):
        nodes = [nodes]
    return "\n".join(ast.dump(n) for n in nodes)


def tmpl_stmts(src):
    return ast.parse(src).body


def tmpl_expr(src):
    return ast.parse(src, mode="eval").body


def same_stmts(nodes, src, params=()):
    """nodes: an already normalised body (norm_fn); the template is normalised the same way"""
    return dump(nodes) == dump(norm(tmpl_stmts(src), params))


def params_of(fn):
    a = fn.args
    return [x.arg for x in a.posonlyargs + a.args + a.kwonlyargs] + [x.arg for x in (a.vararg, a.kwarg) if x]


def matches(fn, src, cls=None, mod=None):
    """the normal form of the body of fn is the normal form of the template"""
    return same_stmts(norm_fn(fn, cls, mod), src, params_of(fn))


def same_expr(node, src):
    return dump(node) == dump(tmpl_expr(src))


def argnames(fn):
    a = fn.args
    return ([x.arg for x in a.posonlyargs + a.args], a.vararg.arg if a.vararg else None, a.kwarg.arg if a.kwarg else None)


def method(cls, name):
    """the plain method `name` of cls, None when the class does not define it"""
    found = [n for n in cls.body if isinstance(n, ast.FunctionDef) and n.name == name]
    if not found:
        return None
    if len(found) > 1:
        raise Untranslatable(f"{cls.name}.{name} defined {len(found)} times")
    fn = found[0]
    if fn.decorator_list:
        raise Untranslatable(f"{cls.name}.{name} is decorated")
    return fn


def need(cls, name):
    fn = method(cls, name)
    if fn is None:
        raise Untranslatable(f"{cls.name}.{name} not found")
    return fn


def no_assignment_of(cls, names):
    """the class body must not bind the operator names another way (e.g. `__lt__ = something`)"""
    for n in cls.body:
        if isinstance(n, (ast.Assign, ast.AnnAssign, ast.AugAssign)):
            targets = n.targets if isinstance(n, ast.Assign) else [n.target]
            for t in targets:
                for x in ast.walk(t):
                    if isinstance(x, ast.Name) and x.id in names:
                        raise Untranslatable(f"{cls.name}: {x.id} bound by assignment")


def bases(cls):
    return [ast.unparse(b) for b in cls.bases]


def av_route(fn):
    """`return np.array(self) <op> other`"""
    if argnames(fn) != (["self", "other"], None, None):
        raise Untranslatable(f"{fn.name}: parameters {argnames(fn)}")
    b = norm_fn(fn)
    if len(b) != 1 or not isinstance(b[0], ast.Return) or b[0].value is None:
        raise Untranslatable(f"{fn.name}: not a single return")
    e = b[0].value
    if isinstance(e, ast.Compare) and len(e.ops) == 1:
        left, op, right = e.left, e.ops[0], e.comparators[0]
    elif isinstance(e, ast.BinOp):
        left, op, right = e.left, e.op, e.right
    else:
        raise Untranslatable(f"{fn.name}: {ast.unparse(e)}")
    if not same_expr(left, "np.array(self)") or not same_expr(right, "other") or type(op) not in BINOPS:
        raise Untranslatable(f"{fn.name}: {ast.unparse(e)} is not np.array(self) <op> other")
    return f"Materialised {BINOPS[type(op)]}"


def reflected_route(fn):
    """`return other <op> np.array(self)`"""
    if argnames(fn) != (["self", "other"], None, None):
        raise Untranslatable(f"{fn.name}: parameters {argnames(fn)}")
    b = norm_fn(fn)
    if len(b) != 1 or not isinstance(b[0], ast.Return) or not isinstance(b[0].value, ast.BinOp):
        raise Untranslatable(f"{fn.name}: not a single return of a binary operation")
    e = b[0].value
    if not same_expr(e.left, "other") or not same_expr(e.right, "np.array(self)") or type(e.op) not in BINOPS:
        raise Untranslatable(f"{fn.name}: {ast.unparse(e)} is not other <op> np.array(self)")
    return f"RSwapped {BINOPS[type(e.op)]}"


def rtable(name, rows):
    return f"Definition {name} : list (string * rroute) := [\n  " + ";\n  ".join(f"({qs(d)}, {r})" for d, r in rows) + "].\n"


def sfv_route(fn):
    """`return self._do_comparison(other, operator.<op>)`"""
    if argnames(fn) != (["self", "other"], None, None):
        raise Untranslatable(f"{fn.name}: parameters")
    b = norm_fn(fn)
    if len(b) == 1 and isinstance(b[0], ast.Return) and isinstance(b[0].value, ast.Call):
        c = b[0].value
        if (same_expr(c.func, "self._do_comparison") and len(c.args) == 2 and not c.keywords and same_expr(c.args[0], "other")
                and isinstance(c.args[1], ast.Attribute) and same_expr(c.args[1].value, "operator") and c.args[1].attr in OPERATOR_FUNCS):
            return f"DoComparison {OPERATOR_FUNCS[c.args[1].attr]}"
    try:
        return av_route(fn)
    except Untranslatable:
        raise Untranslatable(f"SubFieldView.{fn.name}: {ast.unparse(fn)[:120]}")


def sav_route(fn):
    """`return self._do_comparison(other, "__<op>__")`"""
    b = norm_fn(fn)
    if argnames(fn) == (["self", "other"], None, None) and len(b) == 1 and isinstance(b[0], ast.Return) and isinstance(b[0].value, ast.Call):
        c = b[0].value
        if (same_expr(c.func, "self._do_comparison") and len(c.args) == 2 and not c.keywords and same_expr(c.args[0], "other")
                and isinstance(c.args[1], ast.Constant) and isinstance(c.args[1].value, str)):
            nm = c.args[1].value
            if nm.startswith("__") and nm.endswith("__") and nm[2:-2] in OPERATOR_FUNCS:
                return f"GridComparison {OPERATOR_FUNCS[nm[2:-2]]}"
    try:
        return av_route(fn)
    except Untranslatable:
        raise Untranslatable(f"ScaledArrayView.{fn.name}: {ast.unparse(fn)[:120]}")


def qs(s):
    return '"' + s + '"%string'


def table(name, rows):
    return f"Definition {name} : list (string * vroute) := [\n  " + ";\n  ".join(f"({qs(d)}, {r})" for d, r in rows) + "].\n"


def reduce_call(e):
    """np.array(self).<m>(*args, **kwargs) | self._apply_scale(self.array.<m>()) | self._apply_scale(self.array.<m>(*args, **kwargs))"""
    for m, c in (("max", "RMax"), ("min", "RMin")):
        if same_expr(e, f"np.array(self).{m}(*args, **kwargs)"):
            return f"RedMaterialised {c}"
        if same_expr(e, f"self._apply_scale(self.array.{m}())"):
            return f"RedApplyGrid {c}"
        if same_expr(e, f"self._apply_scale(self.array.{m}(*args, **kwargs))"):
            return f"RedApplyGridArgs {c}"
    return None


def red_single(fn):
    if argnames(fn) != (["self"], "args", "kwargs"):
        raise Untranslatable(f"{fn.name}: parameters")
    b = norm_fn(fn)
    if len(b) == 1 and isinstance(b[0], ast.Return):
        return reduce_call(b[0].value)
    return None


def gen_views(repo):
    o = py2v.Out(f"{SRC} classes ArrayView, SubFieldView, ScaledArrayView (structure read from the AST)")
    o.text += PRELUDE
    mod = py2v.parse(repo, SRC)
    CTX["mod"] = mod
    av = py2v.find_class(mod, "ArrayView")
    sfv = py2v.find_class(mod, "SubFieldView")
    sav = py2v.find_class(mod, "ScaledArrayView")
    names = {d for d, _ in DUNDERS} | {"max", "min", "__array_ufunc__", "__array_function__", "__getitem__", "__array__"}

    # ------------------------------------------------------------ ArrayView
    def av_ops():
        no_assignment_of(av, names)
        return table("av_ops", [(d, av_route(need(av, d))) for d, _ in DUNDERS])
    o.add("av_ops", av_ops)

    def av_red():
        out = ""
        for m in ("max", "min"):
            r = red_single(need(av, m))
            if r is None:
                raise Untranslatable(f"ArrayView.{m}: not a delegation to np.array(self).{m}")
            out += f"Definition av_{m} : red_route := {r}.\n"
        return out
    o.add("av_max_min", av_red)

    def av_protocols():
        fn = need(av, "__array_ufunc__")
        if argnames(fn) != (["self", "ufunc", "method"], "inputs", "kwargs") or not matches(fn, (
                "inpts = _convert_array_views_to_array(self.__class__, inputs)\n"
                "return getattr(ufunc, method)(*inpts, **kwargs)\n")):
            raise Untranslatable("ArrayView.__array_ufunc__ shape")
        fn = need(av, "__array_function__")
        if argnames(fn) != (["self", "func", "types", "args", "kwargs"], None, None) or not matches(fn, (
                "argslist = _convert_array_views_to_array(self.__class__, args)\n"
                "return func(*argslist, **kwargs)\n")):
            raise Untranslatable("ArrayView.__array_function__ shape")
        conv = py2v.find_func(mod, "_convert_array_views_to_array")
        if argnames(conv) != (["view_class", "some_args"], None, None) or not matches(conv, (
                "converted_args = []\n"
                "for arg in some_args:\n"
                "    if isinstance(arg, (list, tuple)):\n"
                "        converted_args.append(_convert_array_views_to_array(view_class, arg))\n"
                "    elif isinstance(arg, view_class):\n"
                "        converted_args.append(np.array(arg))\n"
                "    else:\n"
                "        converted_args.append(arg)\n"
                "return converted_args\n")):
            raise Untranslatable("_convert_array_views_to_array shape")
        return ("(* __array_ufunc__ / __array_function__: every view of the receiver's class among the (nested list/tuple)\n"
                "   arguments is replaced by np.array(view), then the numpy callable is applied *)\n"
                "Definition av_ufunc_converts_then_applies : bool := true.\n"
                "Definition av_function_converts_then_applies : bool := true.\n"
                "Definition av_convert_recurses_lists_tuples : bool := true.\n"
                "(* ... the positional arguments only: the keyword arguments (out=, where=, dtype=, casting=, axis= ...) reach the\n"
                "   numpy callable as they were given (`**kwargs` untouched, nothing popped, nothing added) *)\n"
                "Definition av_ufunc_passes_keywords : bool := true.\n"
                "Definition av_function_passes_keywords : bool := true.\n")
    o.add("av_protocols", av_protocols)

    # ------------------------------------------------------------ the view as right operand, augmented assignment
    def operator_surface():
        """reflected arithmetic methods per class; no class defines an in-place operator or any other operator method"""
        if bases(av) not in (["abc.ABC"], ["ABC"]):
            raise Untranslatable(f"ArrayView bases {bases(av)}")
        out = ""
        allnames = {d for d, _ in RDUNDERS} | set(INPLACE_DUNDERS) | set(OTHER_OPERATOR_DUNDERS)
        for cls, nm in ((av, "av_rops"), (sfv, "sfv_rops"), (sav, "sav_rops")):
            no_assignment_of(cls, allnames)
            for d in INPLACE_DUNDERS + OTHER_OPERATOR_DUNDERS:
                if any(isinstance(n, (ast.FunctionDef, ast.AsyncFunctionDef, ast.ClassDef)) and n.name == d for n in cls.body):
                    raise Untranslatable(f"{cls.name} defines {d}")
            rows = []
            for d, _ in RDUNDERS:
                fn = method(cls, d)
                rows.append((d, "RAbsent" if fn is None else reflected_route(fn)))
            out += rtable(nm, rows) + "\n"
        return (out + "(* no view class defines an in-place operator (__iadd__ ...): `v op= c` is python's `v = v op c`;\n"
                      "   nor any other operator method (%, **, &, |, ^, <<, >>, @, divmod, unary -, +, abs, ~), nor __getattr__ *)\n"
                      "Definition views_inplace_absent : bool := true.\n"
                      "Definition views_operator_surface_closed : bool := true.\n")
    o.add("operator_surface", operator_surface)

    # ------------------------------------------------------------ SubFieldView
    def sfv_ops():
        if bases(sfv) != ["ArrayView"]:
            raise Untranslatable(f"SubFieldView bases {bases(sfv)}")
        no_assignment_of(sfv, names)
        for m in ("max", "min", "__array_ufunc__", "__array_function__"):
            if method(sfv, m) is not None:
                raise Untranslatable(f"SubFieldView overrides {m}")
        rows = []
        for d, _ in DUNDERS:
            fn = method(sfv, d)
            rows.append((d, "Inherited" if fn is None else sfv_route(fn)))
        return table("sfv_ops", rows)
    o.add("sfv_ops", sfv_ops)

    def sfv_cmp():
        fn = need(sfv, "_do_comparison")
        if argnames(fn) != (["self", "value", "comp"], None, None):
            raise Untranslatable("_do_comparison parameters")

        def path(ret):
            if not (isinstance(ret, ast.Return) and isinstance(ret.value, ast.Call) and same_expr(ret.value.func, "comp")
                    and len(ret.value.args) == 2 and not ret.value.keywords):
                raise Untranslatable("_do_comparison: path is not `return comp(a, b)`")
            a, b = ret.value.args
            if same_expr(a, "self.array & self.bit_mask"):
                lhs = "LhsMaskedByte"
            elif same_expr(a, "self.masked_array()"):
                lhs = "LhsField"
            else:
                raise Untranslatable(f"_do_comparison: left operand {ast.unparse(a)}")
            if same_expr(b, "int(value) << self.lsb"):
                rhs = "RhsPyShift"
            elif same_expr(b, "value << self.lsb"):
                rhs = "RhsRawShift"
            elif same_expr(b, "value"):
                rhs = "RhsValue"
            else:
                raise Untranslatable(f"_do_comparison: right operand {ast.unparse(b)}")
            return f"({lhs}, {rhs})"

        b = norm_fn(fn)
        if len(b) == 2 and isinstance(b[0], ast.If) and not b[0].orelse and len(b[0].body) == 1:
            if not same_expr(b[0].test, "isinstance(value, (int, np.integer)) and not isinstance(value, (bool, np.bool_))"):
                raise Untranslatable(f"_do_comparison: guard {ast.unparse(b[0].test)}")
            guard, fast, slow = "GuardIntNotBool", path(b[0].body[0]), path(b[1])
        elif len(b) == 1:
            guard, fast, slow = "GuardAlways", path(b[0]), path(b[0])
        else:
            raise Untranslatable("_do_comparison: statement list")
        return (f"Definition sfv_cmp_guard : cmp_guard := {guard}.\n"
                f"Definition sfv_cmp_fast : cmp_lhs * cmp_rhs := {fast}.   (* operands for which the guard holds *)\n"
                f"Definition sfv_cmp_slow : cmp_lhs * cmp_rhs := {slow}.   (* every other operand *)\n")
    o.add("sfv_cmp", sfv_cmp)

    def sfv_values():
        fn = need(sfv, "masked_array")
        if argnames(fn) != (["self"], None, None) or not matches(fn, "return (self.array & self.bit_mask) >> self.lsb\n"):
            raise Untranslatable("SubFieldView.masked_array shape")
        fn = need(sfv, "__array__")
        if not matches(fn, ("ret = self.masked_array()\n"
                                        "if not isinstance(ret, np.ndarray):\n"
                                        "    ret = np.array(ret)\n"
                                        "return ret\n")):
            raise Untranslatable("SubFieldView.__array__ shape")
        init = need(sfv, "__init__")
        if argnames(init) != (["self", "array", "bit_mask"], None, None) or not matches(init, (
                "super().__init__(array)\n"
                "self.bit_mask = self.array.dtype.type(bit_mask)\n"
                "self.lsb = packing.least_significant_bit_set(bit_mask)\n"
                "self.max_value_allowed = int(self.bit_mask >> self.lsb)\n")):
            raise Untranslatable("SubFieldView.__init__ shape")
        gi = need(sfv, "__getitem__")
        if argnames(gi) != (["self", "item"], None, None) or not matches(gi, (
                "sliced = SubFieldView(self.array[item], int(self.bit_mask))\n"
                "if isinstance(item, int):\n"
                "    return sliced.masked_array()\n"
                "return sliced\n")):
            raise Untranslatable("SubFieldView.__getitem__ shape")
        return ("(* np.array(view) = (array & mask) >> lsb with lsb = packing.least_significant_bit_set(mask) (GenFormatBits);\n"
                "   view[item] is a view of array[item] with the same mask (its value for a python int) *)\n"
                "Definition sfv_value_is_masked_shifted : bool := true.\n"
                "Definition sfv_getitem_keeps_mask : bool := true.\n")
    o.add("sfv_values", sfv_values)

    # ------------------------------------------------------------ ScaledArrayView
    def sav_ops():
        if bases(sav) != ["ArrayView"]:
            raise Untranslatable(f"ScaledArrayView bases {bases(sav)}")
        no_assignment_of(sav, names)
        for m in ("__array_ufunc__", "__array_function__"):
            if method(sav, m) is not None:
                raise Untranslatable(f"ScaledArrayView overrides {m}")
        rows = []
        for d, _ in DUNDERS:
            fn = method(sav, d)
            rows.append((d, "Inherited" if fn is None else sav_route(fn)))
        return table("sav_ops", rows)
    o.add("sav_ops", sav_ops)

    def sav_scale():
        fn = need(sav, "_apply_scale")
        if argnames(fn) != (["self", "value"], None, None) or not matches(fn, "return (value * self.scale) + self.offset\n"):
            raise Untranslatable("_apply_scale shape")
        fn = need(sav, "_remove_scale")
        if argnames(fn) != (["self", "value"], None, None) or not matches(fn, "return np.round((value - self.offset) / self.scale)\n"):
            raise Untranslatable("_remove_scale shape")
        fn = need(sav, "_is_multi_element")
        if not matches(fn, "return self.array.ndim > 1\n"):
            raise Untranslatable("_is_multi_element shape")
        if not matches(need(sav, "scaled_array"), "return self._apply_scale(self.array)\n"):
            raise Untranslatable("scaled_array shape")
        if not matches(need(sav, "__array__"), "return self.scaled_array()\n"):
            raise Untranslatable("ScaledArrayView.__array__ shape")
        init = need(sav, "__init__")
        if argnames(init) != (["self", "array", "scale", "offset"], None, None) or not matches(init, (
                "super().__init__(array)\nself.scale = scale\nself.offset = offset\n")):
            raise Untranslatable("ScaledArrayView.__init__ shape")
        return ("Definition sav_apply_scale : scale_formula := ScaleMulAdd.\n"
                "Definition sav_remove_scale : unscale_formula := UnscaleSubDivRound.\n"
                "(* np.array(view) = _apply_scale(array), scale/offset broadcast along the last axis; multi-element = ndim > 1 *)\n"
                "Definition sav_value_is_apply_scale : bool := true.\n")
    o.add("sav_scale", sav_scale)

    def sav_red():
        """-> (multi-element, one element per point called with arguments, one element per point without argument)"""
        out = ""
        for m in ("max", "min"):
            fn = need(sav, m)
            r = red_single(fn)
            guard = "false"
            if r is not None:
                routes = (r, r, r)
            else:
                b = norm_fn(fn)
                if not (argnames(fn) == (["self"], "args", "kwargs") and len(b) == 2 and isinstance(b[0], ast.If) and not b[0].orelse
                        and len(b[0].body) == 1 and isinstance(b[0].body[0], ast.Return) and isinstance(b[1], ast.Return)):
                    raise Untranslatable(f"ScaledArrayView.{m} shape")
                first, second = reduce_call(b[0].body[0].value), reduce_call(b[1].value)
                if first is None or second is None:
                    raise Untranslatable(f"ScaledArrayView.{m}: unknown reduction expression")
                if same_expr(b[0].test, "self._is_multi_element() or args or kwargs"):
                    routes = (first, first, second)
                elif (same_expr(b[0].test, "self._is_multi_element() or args or kwargs or (not np.all(self.scale > 0))")
                      or same_expr(b[0].test, "self._is_multi_element() or args or kwargs or (not (self.scale > 0).all())")):
                    routes, guard = (first, first, second), "true"      # the grid route only for scales that keep the order
                elif same_expr(b[0].test, "self._is_multi_element()"):
                    routes = (first, second, second)
                else:
                    raise Untranslatable(f"ScaledArrayView.{m}: test {ast.unparse(b[0].test)}")
            out += (f"Definition sav_{m} : red_route * red_route * red_route := ({routes[0]}, {routes[1]}, {routes[2]}).\n"
                    "   (* (multi-element, one element per point with arguments, one element per point without) *)\n"
                    f"Definition sav_{m}_grid_guard : bool := {guard}.   (* the last route is taken only when np.all(self.scale > 0) *)\n")
        return out
    o.add("sav_max_min", sav_red)

    def sav_getitem():
        fn = need(sav, "__getitem__")
        head = ("if isinstance(item, int):\n"
                "    return self._apply_scale(self.array[item])\n"
                "elif isinstance(item, slice):\n"
                "    return self.__class__(self.array[item], self.scale, self.offset)\n"
                "else:\n"
                "    sliced_array = self.array[item]\n")
        pair = "isinstance(item, tuple) and len(item) == 2 and self._is_multi_element() and item[1] is not Ellipsis"
        new_shape = (head +
                     f"    if ({pair}):\n"
                     "        scale, offset = self.scale[item[1]], self.offset[item[1]]\n"
                     "    else:\n"
                     "        scale, offset = self.scale, self.offset\n"
                     "    if (self._is_multi_element() and np.ndim(sliced_array) < 2 and (np.ndim(sliced_array) == 0 or np.ndim(scale) > 0)):\n"
                     "        return (sliced_array * scale) + offset\n"
                     "    return self.__class__(sliced_array, scale, offset)\n")
        old_shape = (head +
                     f"    if ({pair}):\n"
                     "        scale, offset = self.scale[item[1]], self.offset[item[1]]\n"
                     "        if np.ndim(sliced_array) == 0:\n"
                     "            return (sliced_array * scale) + offset\n"
                     "        return self.__class__(sliced_array, scale, offset)\n"
                     "    return self.__class__(sliced_array, self.scale, self.offset)\n")
        if argnames(fn) != (["self", "item"], None, None):
            raise Untranslatable("ScaledArrayView.__getitem__ parameters")
        if matches(fn, new_shape):
            values = "GiValuesPerPosition"
        elif matches(fn, old_shape):
            values = "GiValuesScalarPairOnly"
        else:
            raise Untranslatable("ScaledArrayView.__getitem__ shape")
        return ("Definition sav_getitem : list gi_branch := [GiIntApply; GiSliceKeep; GiPairSliceScales; GiOtherKeep].\n"
                f"Definition sav_getitem_values : gi_values := {values}.\n")
    o.add("sav_getitem", sav_getitem)
    return o


TARGETS = {"GenViews.v": gen_views}
