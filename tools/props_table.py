#!/venv/bin/python
"""Writes, between <!-- THEOREMS-BEGIN --> and <!-- THEOREMS-END --> in DESIGN.md, the list of property theorems as they stand in
coq/Props/Cxx.v (name and the comment line that precedes the statement, if any), so that the document cannot drift from the files."""
import glob, os, re
V = os.path.dirname(os.path.dirname(os.path.abspath(__file__)))
out = []
total = 0
for p in sorted(glob.glob(os.path.join(V, "coq", "Props", "C*.v"))):
    pid = os.path.basename(p)[:-2]
    src = open(p).read()
    names = re.findall(r"^(Theorem|Example|Lemma|Corollary)\s+([A-Za-z0-9_']+)", src, flags=re.M)
    thms = [n for k, n in names if k != "Example"]
    exs = [n for k, n in names if k == "Example"]
    total += len(thms)
    out.append(f"* **{pid}** ({len(thms)} theorems, {len(exs)} non-vacuity examples): " + ", ".join(f"`{n}`" for n in thms))
ADDED = {}
try:
    exec(open(os.path.join(V, "tools", "mkmanifest_added.py")).read())
except OSError:
    pass
added = "\nWhat rounds 3 and 4 added per property (models, theorems, generator classes; the same text is appended to the claims in MANIFEST.json):\n\n" + \
    "\n".join(f"* **{k}** — {v}" for k, v in sorted(ADDED.items())) + "\n"
text = f"{total} property theorems in `coq/Props/` (each `Proof. exact <lemma>. Qed.` + `Print Assumptions`, checked closed on every run):\n\n" + "\n".join(out) + "\n" + added
p = os.path.join(V, "DESIGN.md")
s = open(p).read()
b, e = "<!-- THEOREMS-BEGIN -->", "<!-- THEOREMS-END -->"
if b in s and e in s:
    s = s[:s.index(b) + len(b)] + "\n" + text + s[s.index(e):]
    open(p, "w").write(s)
print(total, "theorems")
