"""py2v plugin for property C18 (stream ownership): the close/ownership skeleton of laspy -> Gen/GenOwnership.v.

Everything is read from the AST (nothing is imported except one table value), fail closed:

 * lib.open_las, per mode branch: whether a seekability assertion precedes the `try`, that the caller's object is passed on
   unwrapped (`stream = source`), the `closefd` expression given to the constructor, and for every `except` clause the class
   it catches (bare / BaseException / Exception / LaspyException) together with the close actions of its body as a function
   of `closefd`; every handler must end with a bare `raise`;
 * lib.read_las: the `closefd` expression forwarded to open_las and the `with ... : return reader.read()` shape;
 * LasReader / LasWriter / LasAppender: what `__init__` stores in `self.closefd`, the close actions of `close` as a function
   of (closefd, point source created?, source present?), that `__exit__` is `self.close()`; a reader's close that reaches the
   point source through the lazy property (`self.point_source.close()`: ActLazyPS - it builds the point source, and raises when it
   cannot be built) is translated when it is the last statement the method executes;
 * UncompressedPointReader.close, EmptyPointReader.close (the objects the reader delegates to), which point source
   `_create_point_source` builds - the file having points or not, its points being flagged as compressed or not: for a LAZ-flagged
   file with points `_create_laz_backend(source)`, which returns the reader a backend built or raises (PKBackend) - and whether it
   is given the source, the lazy `point_source` property; what LasAppender raises on a LAZ-flagged file when no backend can append;
 * LasData._write_to: the constant `closefd` it gives to LasWriter, used inside a `with`;
 * LasHeader._prefetch_header_data / read_evlrs / read_from: the sequence of operations performed on the caller's stream (the second
   read of the prefetch is `offset_to_data - len(header_bytes)` bytes - or min(that, a module level integer): SReadToOffsetMax, with
   which the position theorem no longer checks);
 * the seekability questions: how LasHeader.read_evlrs and LasReader.read ask (`x.seekable()` or "the object's seekable() if
   it has one, otherwise False"), and whether read_evlrs asks once before its tests or as the second operand of
   `self.number_of_evlrs > 0 and ..` (then only files that announce EVLRs make it ask).

Close bodies are translated by a small generic translator (conditions over known booleans, recognised close calls, any other
statement that does not mention `.close` is a non-closing step), so that deleting a guard, inverting a test or turning a close
into a no-op changes the generated term instead of making it untranslatable.
"""
import ast
import copy
import os
import re
import sys

import py2v
from py2v import Out, Untranslatable, find_class, find_func, parse

TYPES = """(* vocabulary of the ownership skeleton (constant text) *)
Inductive omode := MR | MW | MA.
(* LaspyException and subclasses | any other Exception subclass | a BaseException that is not an Exception (KeyboardInterrupt ..) *)
Inductive exn := XLaspy | XOther | XBase.
Inductive catch_class := CatchAll | CatchException | CatchLaspy.
(* close the stream this object holds | close the point source the reader has | `self.point_source.close()`: close the point source
   reached through the lazy property, which builds it when there is none yet - and raises when it cannot be built *)
Inductive cact := ActSrc | ActPS | ActLazyPS.
(* PKBackend: the reader a LAZ backend builds (LasReader._create_laz_backend): it is returned by a backend, or building it raises *)
Inductive ps_kind := PKUncompressed (src_given : bool) | PKEmpty (src_given : bool) | PKBackend (src_given : bool).
(* SReadToOffsetMax m: read(min(offset_to_point_data - what was read so far, m)) *)
Inductive sop := SRead (n : Z) | SReadToOffset | SReadToOffsetMax (m : Z) | STellSave | SSeekEvlrStart | SReadEvlrs | SSeekSaved.
(* how the code asks an object whether it can seek: `obj.seekable()` (AttributeError when the object has no such attribute) |
   `getattr(obj, "seekable", lambda: False)()`: the object's answer if it can give one, otherwise False *)
Inductive squery := QCall | QGetattrFalse.
(* a point of a close method where a statement that may use the stream can raise: the close actions that run all the same
   (those before it, and the `finally` blocks around it); None = the point is not reached with these booleans *)
Definition fault_point := option (list cact).
Definition fp_pre (p : list cact) (o : fault_point) : fault_point := match o with Some l => Some (p ++ l) | None => None end.
Definition fp_post (o : fault_point) (p : list cact) : fault_point := match o with Some l => Some (l ++ p) | None => None end.
Definition fp_when (c : bool) (o : fault_point) : fault_point := if c then o else None.

"""

MODES = [("r", "MR", "LasReader", "laspy/lasreader.py"), ("w", "MW", "LasWriter", "laspy/laswriter.py"),
         ("a", "MA", "LasAppender", "laspy/lasappender.py")]

MENTIONS_CLOSE = re.compile(r"\.close\b|\bclose\s*\(")


def strip_doc(body):
    body = list(body)
    if body and isinstance(body[0], ast.Expr) and isinstance(body[0].value, ast.Constant) and isinstance(body[0].value.value, str):
        body = body[1:]
    return body


def _require(cond, what):
    if not cond:
        raise Untranslatable(what)


def _subst(node, env):
    """copy of node in which every loaded name bound in env is replaced by its (pure) expression"""
    class T(ast.NodeTransformer):
        def visit_Name(self, n):
            if isinstance(n.ctx, ast.Load) and n.id in env:
                return copy.deepcopy(env[n.id])
            return n
    return T().visit(copy.deepcopy(node))


def _is_assign_to(s, target):
    return isinstance(s, ast.Assign) and [ast.unparse(t) for t in s.targets] == [target]


def _chain_assign(node, target):
    """`if t1: ..; target = e1 elif t2: ..; target = e2 else: ..; target = e3` -> [(t1, pre1, e1), (t2, pre2, e2), (None, pre3, e3)]"""
    out = []
    while True:
        _require(_is_assign_to(node.body[-1], target), f"a branch of the source dispatch does not end with `{target} = ..`")
        out.append((node.test, node.body[:-1], node.body[-1].value))
        if len(node.orelse) == 1 and isinstance(node.orelse[0], ast.If):
            node = node.orelse[0]
            continue
        _require(node.orelse and _is_assign_to(node.orelse[-1], target), f"the final else of the source dispatch does not end with `{target} = ..`")
        out.append((None, node.orelse[:-1], node.orelse[-1].value))
        return out


def _chain_return(stmts):
    """`if t1: ..; return e1` [`elif ..` | fall through] .. `..; return e3` -> the same decision list"""
    out = []
    stmts = strip_doc(stmts)
    while True:
        _require(stmts, "helper falls off its end")
        s = stmts[0]
        if isinstance(s, ast.If) and s.body and isinstance(s.body[-1], ast.Return) and s.body[-1].value is not None:
            out.append((s.test, s.body[:-1], s.body[-1].value))
            if s.orelse:
                _require(len(stmts) == 1, "statements after an if/else of returns")
                stmts = s.orelse
            else:
                stmts = stmts[1:]
            continue
        last = stmts[-1]
        _require(isinstance(last, ast.Return) and last.value is not None, "helper does not end with `return ..`")
        out.append((None, stmts[:-1], last.value))
        return out


def dispatch(mod, body, target):
    """-> (binder, decision list [(test | None, statements before, value)]): how the statements `body` bind `target`, either by
    an if/elif/else chain of assignments or by `target = helper(names / constants)` with a module level helper made of returns
    (looked through: its parameters are replaced by the arguments)"""
    binders = [s for s in body if any(isinstance(n, ast.Name) and n.id == target and isinstance(n.ctx, ast.Store) for n in ast.walk(s))]
    _require(len(binders) == 1, f"`{target}` is bound by {len(binders)} statements before the try")
    s = binders[0]
    if isinstance(s, ast.If):
        return s, _chain_assign(s, target)
    _require(_is_assign_to(s, target) and isinstance(s.value, ast.Call) and isinstance(s.value.func, ast.Name),
             f"statement touching the stream before the try: {ast.unparse(s)[:80]}")
    call = s.value
    defs = [n for n in mod.body if isinstance(n, ast.FunctionDef) and n.name == call.func.id]
    _require(len(defs) == 1 and not defs[0].decorator_list, f"statement touching the stream before the try: {ast.unparse(s)[:80]}")
    h = defs[0]
    a = h.args
    _require(not (a.vararg or a.kwarg or a.posonlyargs or a.kwonlyargs or a.defaults), f"helper {h.name}: signature not understood")
    params = [p.arg for p in a.args]
    _require(not any(isinstance(x, ast.Starred) for x in call.args) and all(k.arg for k in call.keywords), f"helper {h.name}: star arguments")
    _require(len(call.args) <= len(params), f"helper {h.name}: too many arguments")
    env = dict(zip(params, call.args))
    for k in call.keywords:
        _require(k.arg in params and k.arg not in env, f"helper {h.name}: argument {k.arg}")
        env[k.arg] = k.value
    _require(sorted(env) == sorted(params), f"helper {h.name}: arguments do not match the parameters")
    _require(all(isinstance(v, (ast.Name, ast.Constant)) for v in env.values()), f"helper {h.name}: an argument is not a name or a constant")
    for n in [m for b in h.body for m in ast.walk(b)]:
        _require(not isinstance(n, (ast.Global, ast.Nonlocal, ast.Yield, ast.YieldFrom, ast.Await, ast.FunctionDef, ast.Lambda)),
                 f"helper {h.name}: {type(n).__name__}")
        _require(not (isinstance(n, ast.Name) and isinstance(n.ctx, (ast.Store, ast.Del)) and n.id in params), f"helper {h.name} rebinds a parameter")
    return s, [(None if t is None else _subst(t, env), [_subst(p, env) for p in pre], _subst(v, env)) for t, pre, v in _chain_return(h.body)]


def _is_const(e, v):
    return isinstance(e, ast.Constant) and type(e.value) is type(v) and e.value == v


def seek_query(e, obj):
    """`e` asks the object spelt `obj` whether it can seek -> "QCall" | "QGetattrFalse"; None when `e` is something else.
    QCall:          obj.seekable()
    QGetattrFalse:  getattr(obj, "seekable", lambda: False)()  |  obj.seekable() if hasattr(obj, "seekable") else False
                    |  hasattr(obj, "seekable") and obj.seekable()      (all: the object's answer if it has one, else a false value)"""
    def is_call(x):
        return (isinstance(x, ast.Call) and not x.args and not x.keywords and isinstance(x.func, ast.Attribute)
                and x.func.attr == "seekable" and ast.unparse(x.func.value) == obj)

    def is_hasattr(x):
        return (isinstance(x, ast.Call) and isinstance(x.func, ast.Name) and x.func.id == "hasattr" and not x.keywords
                and len(x.args) == 2 and ast.unparse(x.args[0]) == obj and _is_const(x.args[1], "seekable"))
    if is_call(e):
        return "QCall"
    if isinstance(e, ast.Call) and not e.args and not e.keywords and isinstance(e.func, ast.Call):
        g = e.func
        if (isinstance(g.func, ast.Name) and g.func.id == "getattr" and not g.keywords and len(g.args) == 3
                and ast.unparse(g.args[0]) == obj and _is_const(g.args[1], "seekable") and isinstance(g.args[2], ast.Lambda)):
            a = g.args[2].args
            if not (a.args or a.posonlyargs or a.kwonlyargs or a.vararg or a.kwarg) and _is_const(g.args[2].body, False):
                return "QGetattrFalse"
        return None
    if isinstance(e, ast.IfExp) and is_hasattr(e.test) and is_call(e.body) and _is_const(e.orelse, False):
        return "QGetattrFalse"
    if isinstance(e, ast.BoolOp) and isinstance(e.op, ast.And) and len(e.values) == 2 and is_hasattr(e.values[0]) and is_call(e.values[1]):
        return "QGetattrFalse"
    return None


def mentions_seekable(node):
    """the places of `node` that speak of the attribute `seekable` (by attribute access or by its name as a string)"""
    return [n for n in ast.walk(node) if (isinstance(n, ast.Attribute) and n.attr == "seekable") or _is_const(n, "seekable")]


def uses_outside(node, name, allowed):
    """the loads/stores of the variable `name` under `node` that are not inside one of the sub-expressions `allowed` (by identity)"""
    skip = {id(x) for x in allowed}
    out = []

    def go(n):
        if id(n) in skip:
            return
        if isinstance(n, ast.Name) and n.id == name:
            out.append(n)
        for c in ast.iter_child_nodes(n):
            go(c)
    for n in (node if isinstance(node, list) else [node]):
        go(n)
    return out


def _harmless(s):
    """a statement that cannot fail because of the stream: `self.x = <constant | name | attribute>`"""
    if isinstance(s, (ast.Assign, ast.AnnAssign)) and s.value is not None:
        return not any(isinstance(n, (ast.Call, ast.Subscript, ast.BinOp, ast.Await, ast.Yield)) for n in ast.walk(s))
    return False


class CloseTr:
    """method body -> Gallina term of type `list cact` over boolean variables (what a run without failure does), and the list
    of its fault points (terms of type `fault_point`): one per statement that is not a recognised close action - it may use the
    stream and raise - with the close actions that are executed when it does"""

    def __init__(self, conds, closes):
        self.conds = conds
        self.closes = closes

    def cond(self, e):
        if isinstance(e, ast.BoolOp):
            parts = [self.cond(v) for v in e.values]
            if any(p is None for p in parts):
                return None
            op = " && " if isinstance(e.op, ast.And) else " || "
            return "(" + op.join(parts) + ")"
        if isinstance(e, ast.UnaryOp) and isinstance(e.op, ast.Not):
            c = self.cond(e.operand)
            return None if c is None else f"(negb {c})"
        if isinstance(e, ast.Constant) and isinstance(e.value, bool):
            return "true" if e.value else "false"
        return self.conds.get(ast.unparse(e))

    @staticmethod
    def known(c):
        """the value of a condition that is a constant (a flag the translation is made for: `self.closed` of an appender that
        was / was not closed before), else None"""
        c = c.replace(" ", "")
        while c.startswith("(negb") and c.endswith(")"):
            inner = CloseTr.known(c[5:-1])
            return None if inner is None else not inner
        while c.startswith("(") and c.endswith(")") and c.count("(") == 1:
            c = c[1:-1]
        return {"true": True, "false": False}.get(c)

    @staticmethod
    def join(parts):
        parts = [p for p in parts if p != "[]"]
        if not parts:
            return "[]"
        return parts[0] if len(parts) == 1 else "(" + " ++ ".join(parts) + ")"

    def block(self, stmts):
        return self.block2(stmts)[0]

    def block2(self, stmts, top=False):
        """-> (actions of a run without failure, fault points); top: the statements are (the end of) the method's own body"""
        parts = []
        faults = []
        stmts = strip_doc(stmts)

        def pre(f):
            p = self.join(parts)
            return f if p == "[]" else f"(fp_pre {p} {f})"
        for i, s in enumerate(stmts):
            txt = ast.unparse(s)
            if isinstance(s, ast.Pass):
                continue
            if isinstance(s, ast.Expr) and isinstance(s.value, ast.Call) and txt in self.closes:
                parts.append(f"[{self.closes[txt]}]")
                continue
            if isinstance(s, ast.If):
                c = self.cond(s.test)
                if c is None:
                    if MENTIONS_CLOSE.search(txt):
                        self.block2(s.body), self.block2(s.orelse)      # (reports what is not understood inside, if anything)
                        raise Untranslatable(f"a close under a condition that is not understood: {ast.unparse(s.test)}")
                    if any(isinstance(n, (ast.Return, ast.Raise, ast.Break, ast.Continue)) for n in ast.walk(s)):
                        # the rest of the method (its close actions) may be skipped under a condition that is not understood
                        raise Untranslatable(f"close leaves early under a condition that is not understood: {ast.unparse(s.test)}")
                    faults.append(pre("(Some [])"))
                    continue
                body, orelse, rest_taken = list(s.body), list(s.orelse), False
                if body and isinstance(body[-1], ast.Return) and not orelse and (body[-1].value is None or _is_const(body[-1].value, None)):
                    # `if c: ..; return` followed by the rest of the method: the rest is the else branch
                    body, orelse, rest_taken = body[:-1], stmts[i + 1:], True
                k = self.known(c)
                a, fa = self.block2(body) if k is not False else ("[]", [])
                b, fb = self.block2(orelse, top and rest_taken) if k is not True else ("[]", [])
                if k is True:
                    faults += [pre(f) for f in fa]
                    parts.append(a)
                elif k is False:
                    faults += [pre(f) for f in fb]
                    parts.append(b)
                else:
                    faults += [pre(f"(fp_when {c} {f})") for f in fa] + [pre(f"(fp_when (negb {c}) {f})") for f in fb]
                    if a == b:
                        parts.append(a)
                    else:
                        parts.append(f"(if {c} then {a} else {b})")
                if rest_taken:
                    break
                continue
            if isinstance(s, ast.Try) and not s.handlers and not s.orelse and s.finalbody:
                a, fa = self.block2(s.body)
                b, fb = self.block2(s.finalbody)
                faults += [pre(f if b == "[]" else f"(fp_post {f} {b})") for f in fa]
                parts.append(a)
                faults += [pre(f) for f in fb]
                parts.append(b)
                continue
            if isinstance(s, ast.Return):
                if s.value is not None and not (isinstance(s.value, ast.Constant) and s.value.value is None):
                    raise Untranslatable(f"close returns a value: {txt}")
                if i != len(stmts) - 1:
                    raise Untranslatable("return in the middle of a close body")
                if not top:
                    raise Untranslatable("return inside a block of a close body (other than `if <known flag>: ..; return`)")
                continue
            if MENTIONS_CLOSE.search(txt):
                raise Untranslatable(f"statement mentions close in a shape that is not understood: {txt[:80]}")
            if isinstance(s, (ast.Raise,)):
                raise Untranslatable(f"raise inside a close body: {txt[:80]}")
            if _harmless(s):
                continue
            # any other statement (flush, done(), header rewrite ...) closes nothing, but it may use the stream and raise
            faults.append(pre("(Some [])"))
        return self.join(parts), faults


def bool_expr(e, names):
    """closefd expressions: a known name, a bool constant, `not e`"""
    if isinstance(e, ast.Constant) and isinstance(e.value, bool):
        return "true" if e.value else "false"
    if isinstance(e, ast.Name) and e.id in names:
        return names[e.id]
    if isinstance(e, ast.UnaryOp) and isinstance(e.op, ast.Not):
        return f"(negb {bool_expr(e.operand, names)})"
    raise Untranslatable(f"closefd expression {ast.unparse(e)}")


def ctor_default_closefd(repo, rel, cls_name):
    cls = find_class(parse(repo, rel), cls_name)
    f = find_func(cls, "__init__")
    a = f.args
    pos = a.posonlyargs + a.args
    defaults = [None] * (len(pos) - len(a.defaults)) + list(a.defaults)
    for arg, d in list(zip(pos, defaults)) + list(zip(a.kwonlyargs, a.kw_defaults)):
        if arg.arg == "closefd":
            if d is None:
                raise Untranslatable(f"{cls_name}.__init__: closefd has no default")
            return bool_expr(d, {})
    raise Untranslatable(f"{cls_name}.__init__ has no closefd parameter")


def match_modes(m, body):
    return "match m with " + " | ".join(f"{m_} => {body[m_]}" for m_ in ("MR", "MW", "MA")) + " end"


# ---------------------------------------------------------------------------------------------------------------
# tail calls of new helpers: `return helper(names / constants)` read as the helper's statements
# ---------------------------------------------------------------------------------------------------------------
def _always_leaves(stmts):
    """every path through the statements ends with `return` or `raise` (nothing falls off the end)"""
    if not stmts:
        return False
    s = stmts[-1]
    if isinstance(s, (ast.Return, ast.Raise)):
        return True
    if isinstance(s, ast.If):
        return _always_leaves(s.body) and _always_leaves(s.orelse)
    if isinstance(s, ast.Try):
        return _always_leaves(s.body + s.orelse) and all(_always_leaves(h.body) for h in s.handlers)
    return False


def tail_inlined(mod, fn):
    """(copy of the FunctionDef `fn`, names of the helpers looked through): every statement `return helper(arguments)` of `fn` that
    is the last statement of an if / elif / else branch (or of the function), whose callee is a plain module level function that did
    not exist when this reader was written (py2v.KNOWN_FUNCTIONS) and whose arguments are names or constants, is replaced by the
    helper's statements, its parameters replaced by the arguments. Returning what the helper returns (or raising what it raises)
    IS running its statements in place when: every path of the helper ends with return / raise; the arguments are evaluated
    without side effect (a name, a constant); a parameter the helper assigns to was given a NAME (the caller's variable of that
    name is then assigned instead - nothing of the caller runs after a tail call); the helper has no nested function, lambda,
    comprehension scope games (global / nonlocal), yield or decorator. Anything else is left as written (the reader then fails
    closed as before); a tree without such helpers is returned unchanged."""
    known = getattr(py2v, "KNOWN_FUNCTIONS", set())
    helpers = {n.name: n for n in mod.body if isinstance(n, ast.FunctionDef)}
    used = []

    def body_of(call):
        if not (isinstance(call, ast.Call) and isinstance(call.func, ast.Name)):
            return None
        h = helpers.get(call.func.id)
        if h is None or h.name in known or h is fn or h.decorator_list:
            return None
        a = h.args
        if a.vararg or a.kwarg or a.posonlyargs:
            return None
        params = [p.arg for p in a.args] + [p.arg for p in a.kwonlyargs]
        defaults = dict(zip([p.arg for p in a.args][len(a.args) - len(a.defaults):], a.defaults))
        defaults.update({p.arg: d for p, d in zip(a.kwonlyargs, a.kw_defaults) if d is not None})
        if len(call.args) > len(a.args) or any(isinstance(x, ast.Starred) for x in call.args):
            return None
        env = dict(zip([p.arg for p in a.args], call.args))
        for k in call.keywords:
            if k.arg is None or k.arg not in params or k.arg in env:
                return None
            env[k.arg] = k.value
        for p in params:
            if p not in env:
                if p not in defaults:
                    return None
                env[p] = defaults[p]
        if not all(isinstance(v, (ast.Name, ast.Constant)) for v in env.values()):
            return None
        body = strip_doc(h.body)
        for n in [m for b in body for m in ast.walk(b)]:
            if isinstance(n, (ast.Global, ast.Nonlocal, ast.Yield, ast.YieldFrom, ast.Await, ast.FunctionDef, ast.AsyncFunctionDef, ast.Lambda, ast.ClassDef)):
                return None
            if isinstance(n, ast.Name) and isinstance(n.ctx, (ast.Store, ast.Del)) and n.id in env and not isinstance(env[n.id], ast.Name):
                return None
        if not _always_leaves(body):
            return None
        # a local of the helper that is not a parameter must not be read before the helper binds it (it could then see the caller's
        # variable of the same name): the helper itself would raise UnboundLocalError there, so this cannot change a working tree

        class T(ast.NodeTransformer):
            def visit_Name(self, n):
                if n.id in env:
                    v = env[n.id]
                    if isinstance(v, ast.Name):
                        return ast.copy_location(ast.Name(id=v.id, ctx=n.ctx), n)
                    return copy.deepcopy(v)
                return n
        used.append(h.name)
        return [T().visit(copy.deepcopy(s)) for s in body]

    def block(stmts, tail):
        out = []
        for i, s in enumerate(stmts):
            last = tail and i == len(stmts) - 1
            if isinstance(s, ast.Return) and last:
                b = body_of(s.value)
                if b is not None:
                    out.extend(block(b, True))
                    continue
            if isinstance(s, ast.If) and last:
                s = copy.copy(s)
                s.body = block(s.body, True)
                s.orelse = block(s.orelse, True) if s.orelse else s.orelse
            out.append(s)
        return out
    new = copy.copy(fn)
    new.body = block(list(fn.body), True)
    if not used:
        return fn, []
    return ast.fix_missing_locations(new), used


def open_las_branches(repo):
    mod = parse(repo, "laspy/lib.py")
    f, _ = tail_inlined(mod, find_func(mod, "open_las"))       # `return _open_for_reading(source, closefd, ..)` is read as that helper's statements
    chain = None
    for s in strip_doc(f.body):
        if isinstance(s, ast.If) and ast.unparse(s.test) == "mode == 'r'":
            chain = s
        elif MENTIONS_CLOSE.search(ast.unparse(s)):
            raise Untranslatable("open_las closes something outside the mode branches")
    if chain is None:
        raise Untranslatable("open_las: `if mode == 'r'` chain not found")
    out = {}
    node = chain
    while True:
        t = ast.unparse(node.test)
        mm = re.fullmatch(r"mode == '([rwa])'", t)
        if not mm:
            raise Untranslatable(f"open_las: unexpected branch test {t}")
        out[mm.group(1)] = node.body
        if len(node.orelse) == 1 and isinstance(node.orelse[0], ast.If):
            node = node.orelse[0]
        else:
            if any(MENTIONS_CLOSE.search(ast.unparse(s)) for s in node.orelse):
                raise Untranslatable("open_las: close in the final else")
            break
    if set(out) != {"r", "w", "a"}:
        raise Untranslatable(f"open_las: branches {sorted(out)}")
    return out


def analyse_branch(repo, body, cls_name, rel):
    """-> dict(pre_assert, ctor_closefd, handlers=[(class, acts)])"""
    res = {"pre_assert": "false"}
    trys = [s for s in body if isinstance(s, ast.Try)]
    if len(trys) != 1 or body[-1] is not trys[0]:
        raise Untranslatable("branch is not `...; try: return X(stream, ...) except ...`")
    tr = trys[0]
    binder, disp = dispatch(parse(repo, "laspy/lib.py"), body[:-1], "stream")
    for s in body[:-1]:
        txt = ast.unparse(s)
        if s is not binder and (MENTIONS_CLOSE.search(txt) or "stream" in txt.replace("data stream", "")):
            raise Untranslatable(f"statement touching the stream before the try: {txt[:80]}")
    for s in body[:-1]:
        for n in ast.walk(s):
            if isinstance(n, ast.Name) and n.id in ("closefd", "source") and isinstance(n.ctx, (ast.Store, ast.Del)):
                raise Untranslatable(f"`{n.id}` is rebound before the try")
    if disp[0][0] is None or ast.unparse(disp[0][0]) != "isinstance(source, (str, Path))":
        raise Untranslatable("source dispatch (`if isinstance(source, (str, Path))`) not found")
    for t, pre, v in disp:
        if any(MENTIONS_CLOSE.search(ast.unparse(p)) for p in pre):
            raise Untranslatable("the source dispatch closes something")
    # the final else: the caller's own object
    t, pre, v = disp[-1]
    if t is not None or ast.unparse(v) != "source":
        raise Untranslatable("the caller's stream is not passed on as it is (`stream = source`)")
    for s in pre:
        if ast.unparse(s) == "assert source.seekable()":
            res["pre_assert"] = "true"
        else:
            raise Untranslatable(f"statement before `stream = source`: {ast.unparse(s)[:80]}")
    if tr.orelse or tr.finalbody:
        raise Untranslatable("try with else/finally")
    if len(tr.body) != 1 or not isinstance(tr.body[0], ast.Return) or not isinstance(tr.body[0].value, ast.Call):
        raise Untranslatable("try body is not a single `return X(...)`")
    call = tr.body[0].value
    if not (isinstance(call.func, ast.Name) and call.func.id == cls_name):
        raise Untranslatable(f"constructor {ast.unparse(call.func)} (expected {cls_name})")
    if not call.args or ast.unparse(call.args[0]) != "stream":
        raise Untranslatable("constructor's first argument is not `stream`")
    kw = {k.arg: k.value for k in call.keywords}
    if None in kw:
        raise Untranslatable("**kwargs in the constructor call")
    if "closefd" in kw:
        res["ctor_closefd"] = bool_expr(kw["closefd"], {"closefd": "closefd"})
    else:
        res["ctor_closefd"] = ctor_default_closefd(repo, rel, cls_name)
    handlers = []
    tr_close = CloseTr({"closefd": "closefd"}, {"stream.close()": "ActSrc", "source.close()": "ActSrc"})
    for h in tr.handlers:
        if h.type is None:
            c = "CatchAll"
        else:
            t = ast.unparse(h.type)
            c = {"BaseException": "CatchAll", "Exception": "CatchException", "LaspyException": "CatchLaspy",
                 "errors.LaspyException": "CatchLaspy"}.get(t)
            if c is None:
                raise Untranslatable(f"except clause catching {t}")
        hb = list(h.body)
        if not hb or not (isinstance(hb[-1], ast.Raise) and hb[-1].exc is None):
            raise Untranslatable("handler does not end with a bare raise")
        handlers.append(f"({c}, {tr_close.block(hb[:-1])})")
    res["handlers"] = "[" + "; ".join(handlers) + "]"
    return res


def gen_ownership(repo):
    o = Out("laspy/lib.py open_las/read_las; LasReader/LasWriter/LasAppender __init__/close/__exit__; point readers' close; "
            "LasData._write_to; LasHeader._prefetch_header_data/read_evlrs/read_from (AST skeletons)")
    o.text += TYPES

    # ---------------- open_las ----------------
    cache = {}

    def branches():
        if "b" not in cache:
            br = open_las_branches(repo)
            cache["b"] = {g: analyse_branch(repo, br[p], cls, rel) for p, g, cls, rel in MODES}
        return cache["b"]

    def pre():
        b = branches()
        return ("(* an `assert source.seekable()` sits before the try: its failure is not seen by any handler *)\n"
                "Definition gen_open_pre_assert_seekable (m : omode) : bool := "
                + match_modes("m", {g: b[g]["pre_assert"] for g in b}) + ".\n")
    o.add("gen_open_pre_assert_seekable", pre)

    def ctorcf():
        b = branches()
        return ("(* the closefd value open_las gives to the constructor *)\n"
                "Definition gen_open_ctor_closefd (m : omode) (closefd : bool) : bool := "
                + match_modes("m", {g: b[g]["ctor_closefd"] for g in b}) + ".\n")
    o.add("gen_open_ctor_closefd", ctorcf)

    def handlers():
        b = branches()
        return ("(* except clauses around the constructor, in order: class caught, close actions of the body; each ends with `raise` *)\n"
                "Definition gen_open_handlers (m : omode) (closefd : bool) : list (catch_class * list cact) := "
                + match_modes("m", {g: b[g]["handlers"] for g in b}) + ".\n")
    o.add("gen_open_handlers", handlers)

    # ---------------- read_las ----------------
    def read_las():
        f = find_func(parse(repo, "laspy/lib.py"), "read_las")
        body = strip_doc(f.body)
        if len(body) != 1 or not isinstance(body[0], ast.With) or len(body[0].items) != 1:
            raise Untranslatable("read_las is not a single with statement")
        w = body[0]
        call = w.items[0].context_expr
        if not (isinstance(call, ast.Call) and ast.unparse(call.func) == "open_las" and call.args
                and ast.unparse(call.args[0]) == "source"):
            raise Untranslatable("read_las does not open `source` with open_las")
        kw = {k.arg: k.value for k in call.keywords}
        if "mode" in kw or len(call.args) > 1:
            raise Untranslatable("read_las passes a mode")
        var = ast.unparse(w.items[0].optional_vars) if w.items[0].optional_vars is not None else None
        if len(w.body) != 1 or ast.unparse(w.body[0]) != f"return {var}.read()":
            raise Untranslatable("read_las body is not `return reader.read()`")
        e = bool_expr(kw["closefd"], {"closefd": "closefd"}) if "closefd" in kw else "true"
        return f"Definition gen_read_las_closefd (closefd : bool) : bool := {e}.\n"
    o.add("gen_read_las_closefd", read_las)

    # ---------------- the three handle classes ----------------
    def init_cf():
        vals = {}
        for p, g, cls_name, rel in MODES:
            f = find_func(find_class(parse(repo, rel), cls_name), "__init__")
            found = [s for s in ast.walk(f) if isinstance(s, ast.Assign) and any(ast.unparse(t) == "self.closefd" for t in s.targets)]
            if len(found) != 1 or found[0] not in f.body:
                raise Untranslatable(f"{cls_name}.__init__: `self.closefd = ...` not found exactly once at top level")
            vals[g] = bool_expr(found[0].value, {"closefd": "closefd"})
        return ("(* what __init__ stores in self.closefd *)\n"
                "Definition gen_init_closefd (m : omode) (closefd : bool) : bool := " + match_modes("m", vals) + ".\n")
    o.add("gen_init_closefd", init_cf)

    def closed_flag(cls, cls_name):
        """the attribute (spelt `self.<name>`) that says the object was closed before, or None: __init__ stores False in it once, at
        top level; close() stores True in it, outside any `if` (so that a first close that got to releasing the stream has set it),
        and nothing else of the class stores anything in it"""
        init = find_func(cls, "__init__")
        cands = [ast.unparse(x.targets[0]) for x in init.body if isinstance(x, ast.Assign) and len(x.targets) == 1 and _is_const(x.value, False)
                 and isinstance(x.targets[0], ast.Attribute) and ast.unparse(x.targets[0].value) == "self"]
        close = find_func(cls, "close")
        for flag in cands:
            ok, set_in_close = True, False
            for fn in [n for n in cls.body if isinstance(n, (ast.FunctionDef, ast.AsyncFunctionDef))]:
                under_if = {id(m) for n in ast.walk(fn) if isinstance(n, ast.If) for b in n.body + n.orelse for m in ast.walk(b)}
                for n in ast.walk(fn):
                    stores = [t for t in (n.targets if isinstance(n, ast.Assign) else [n.target] if isinstance(n, (ast.AugAssign, ast.AnnAssign)) else [])
                              if ast.unparse(t) == flag]
                    if not stores:
                        continue
                    if fn is init and isinstance(n, ast.Assign) and _is_const(n.value, False) and n in init.body:
                        continue
                    if fn is close and isinstance(n, ast.Assign) and _is_const(n.value, True):
                        set_in_close = set_in_close or id(n) not in under_if
                        continue
                    ok = False
            if ok and set_in_close and flag in [ast.unparse(n) for n in ast.walk(close) if isinstance(n, ast.Attribute) and isinstance(n.ctx, ast.Load)]:
                return flag
        return None

    def close_of(rel, cls_name, name, conds, closes, again=False):
        def thunk():
            cls = find_class(parse(repo, rel), cls_name)
            f = find_func(cls, "close")
            if len(f.args.args) != 1:
                raise Untranslatable(f"{cls_name}.close takes arguments")
            flag = closed_flag(cls, cls_name) if again else None
            first = dict(conds)
            if flag is not None:
                first[flag] = "false"           # the object was not closed before
            t, faults = CloseTr(first, closes).block2(f.body, True)
            if "ActLazyPS" in closes.values():
                # an action that may raise (the point source is built on the way) must be the last statement the method executes:
                # the model runs nothing after it
                def tail_ok(stmts, tail):
                    stmts = strip_doc(stmts)
                    for i, st in enumerate(stmts):
                        last = tail and i == len(stmts) - 1
                        if isinstance(st, ast.If):
                            if not (tail_ok(st.body, last) and tail_ok(st.orelse, last)):
                                return False
                        elif isinstance(st, ast.Try):
                            if any(closes.get(ast.unparse(x)) == "ActLazyPS" for x in ast.walk(st) if isinstance(x, ast.Expr)):
                                return False
                        elif closes.get(ast.unparse(st)) == "ActLazyPS" and not last:
                            return False
                    return True
                if not tail_ok(f.body, True):
                    raise Untranslatable(f"{cls_name}.close: statements may run after `self.point_source.close()`, which can raise")
            out = (f"Definition {name} (closefd has_ps src_some : bool) : list cact := {t}.\n"
                   f"(* the statements of {cls_name}.close that may use the stream and raise, with the close actions run all the same *)\n"
                   f"Definition {name}_faults (closefd has_ps src_some : bool) : list fault_point := [" + "; ".join(faults) + "].\n")
            if again:
                second = dict(conds)
                if flag is not None:
                    second[flag] = "true"
                t2, faults2 = CloseTr(second, closes).block2(f.body, True)
                out += (f"(* {cls_name}.close called AGAIN on an object that was closed before"
                        + (f" (its flag `{flag}`, False since __init__, was set by the first close)" if flag else " (the class keeps no flag that says so: the same method runs again)") + " *)\n"
                        f"Definition {name}_again (closefd has_ps src_some : bool) : list cact := {t2}.\n"
                        f"Definition {name}_again_faults (closefd has_ps src_some : bool) : list fault_point := [" + "; ".join(faults2) + "].\n")
            return out
        return thunk

    o.add("gen_close_reader", close_of(
        "laspy/lasreader.py", "LasReader", "gen_close_reader",
        {"self.closefd": "closefd", "self._point_source is not None": "has_ps", "self._point_source is None": "(negb has_ps)",
         "self._source is not None": "src_some"},
        {"self._point_source.close()": "ActPS", "self._source.close()": "ActSrc", "self.point_source.close()": "ActLazyPS"}, again=True))
    o.add("gen_close_writer", close_of(
        "laspy/laswriter.py", "LasWriter", "gen_close_writer",
        {"self.closefd": "closefd"}, {"self.dest.close()": "ActSrc"}, again=True))
    o.add("gen_close_appender", close_of(
        "laspy/lasappender.py", "LasAppender", "gen_close_appender",
        {"self.closefd": "closefd"}, {"self.dest.close()": "ActSrc"}, again=True))

    def use_after_close():
        """what write_points / append_points do FIRST on an object whose close() has run: the method starts with
        `if self.<flag>: raise X(..)` where close() stores True in that flag outside any `if` -> Some (class of X); otherwise None
        (the method goes on to the stream: not modelled). A reader has no such method."""
        vals = {"MR": "None"}
        for g, cls_name, rel, meth in (("MW", "LasWriter", "laspy/laswriter.py", "write_points"), ("MA", "LasAppender", "laspy/lasappender.py", "append_points")):
            cls = find_class(parse(repo, rel), cls_name)
            body = strip_doc(find_func(cls, meth).body)
            close = find_func(cls, "close")
            under_if = {id(m) for n in ast.walk(close) if isinstance(n, ast.If) for b in n.body + n.orelse for m in ast.walk(b)}
            set_true = {ast.unparse(n.targets[0]) for n in ast.walk(close) if isinstance(n, ast.Assign) and len(n.targets) == 1
                        and _is_const(n.value, True) and id(n) not in under_if}
            vals[g] = "None"
            if body and isinstance(body[0], ast.If) and not body[0].orelse and ast.unparse(body[0].test) in set_true \
                    and len(body[0].body) == 1 and isinstance(body[0].body[0], ast.Raise) and body[0].body[0].exc is not None:
                e = body[0].body[0].exc
                nm = ast.unparse(e.func if isinstance(e, ast.Call) else e)
                vals[g] = "(Some XLaspy)" if nm in ("LaspyException", "errors.LaspyException") else "(Some XOther)"
        return ("(* write_points / append_points on an object that was closed: refused at once with this exception (None: no such guard) *)\n"
                "Definition gen_use_after_close (m : omode) : option exn := " + match_modes("m", vals) + ".\n")
    o.add("gen_use_after_close", use_after_close)
    ps_conds = {"self._source is not None": "src_some", "self.source is not None": "src_some",
                "self._source is None": "(negb src_some)", "self.source is None": "(negb src_some)"}
    ps_closes = {"self._source.close()": "ActSrc", "self.source.close()": "ActSrc"}
    o.add("gen_close_uncompressed", close_of("laspy/lasreader.py", "UncompressedPointReader", "gen_close_uncompressed", ps_conds, ps_closes))
    o.add("gen_close_empty", close_of("laspy/lasreader.py", "EmptyPointReader", "gen_close_empty", ps_conds, ps_closes))

    def exits():
        for p, g, cls_name, rel in MODES:
            cls = find_class(parse(repo, rel), cls_name)
            f = find_func(cls, "__exit__")
            body = strip_doc(f.body)
            if [ast.unparse(s) for s in body] != ["self.close()"]:
                raise Untranslatable(f"{cls_name}.__exit__ is not `self.close()`")
            e = find_func(cls, "__enter__")
            if [ast.unparse(s) for s in strip_doc(e.body)] != ["return self"]:
                raise Untranslatable(f"{cls_name}.__enter__ is not `return self`")
        return ("(* __exit__ is `self.close()` (returns None: the exception of the with-body propagates); __enter__ returns self *)\n"
                "Definition gen_exit_closes (m : omode) : bool := true.\n")
    o.add("gen_exit_closes", exits)

    # ---------------- nothing else lets go of a stream ----------------
    def only_close():
        """every function of the modules a stream handed to laspy travels through: a call of `.close()` / `.__exit__()` / `.detach()`
        or a `with` statement appears only in the functions analysed above (or on an object the function has just created)"""
        files = ["laspy/lib.py", "laspy/lasreader.py", "laspy/laswriter.py", "laspy/lasappender.py", "laspy/lasdata.py", "laspy/header.py",
                 "laspy/_pointreader.py", "laspy/_pointwriter.py", "laspy/_pointappender.py", "laspy/vlrs/vlrlist.py", "laspy/vlrs/vlr.py",
                 "laspy/vlrs/known.py", "laspy/point/record.py"]
        analysed = {"laspy/lib.py:open_las", "laspy/lib.py:read_las",
                    "laspy/lasreader.py:LasReader.close", "laspy/lasreader.py:LasReader.__exit__",
                    "laspy/lasreader.py:UncompressedPointReader.close", "laspy/lasreader.py:EmptyPointReader.close",
                    "laspy/laswriter.py:LasWriter.close", "laspy/laswriter.py:LasWriter.__exit__",
                    "laspy/lasappender.py:LasAppender.close", "laspy/lasappender.py:LasAppender.__exit__",
                    "laspy/lasdata.py:LasData._write_to"}
        fresh = ("open", "io.BytesIO", "BytesIO", "io.StringIO", "tempfile.TemporaryFile", "np.errstate", "numpy.errstate",
                 "warnings.catch_warnings", "contextlib.suppress")
        bad = []
        # new module level helpers of lib.py that open_las ends with (`return _open_for_reading(..)`) were analysed as part of open_las
        # (tail_inlined) - provided nothing else refers to them: every mention of their name is the callee of such a tail call
        lib = parse(repo, "laspy/lib.py")
        ol = find_func(lib, "open_las")
        _, looked_through = tail_inlined(lib, ol)
        for hname in sorted(set(looked_through)):
            tails = {id(n.value.func) for n in ast.walk(ol) if isinstance(n, ast.Return) and isinstance(n.value, ast.Call)
                     and isinstance(n.value.func, ast.Name) and n.value.func.id == hname}
            for rel in files:
                if not os.path.exists(os.path.join(repo, rel)):
                    continue
                for n in ast.walk(lib if rel == "laspy/lib.py" else parse(repo, rel)):
                    if (isinstance(n, ast.Name) and n.id == hname and id(n) not in tails) or (isinstance(n, ast.Attribute) and n.attr == hname) \
                            or (isinstance(n, ast.alias) and hname in (n.name, n.asname)):
                        bad.append(f"{rel}: helper {hname} of open_las is used elsewhere (line {getattr(n, 'lineno', '?')})")
            analysed.add(f"laspy/lib.py:{hname}")

        def visit(rel, node, qual):
            for c in ast.iter_child_nodes(node):
                if isinstance(c, (ast.FunctionDef, ast.AsyncFunctionDef, ast.ClassDef)):
                    visit(rel, c, (qual + "." if qual else "") + c.name)
                    continue
                if isinstance(c, ast.Call) and isinstance(c.func, ast.Attribute) and c.func.attr in ("close", "__exit__", "detach", "__del__"):
                    if f"{rel}:{qual}" not in analysed:
                        bad.append(f"{rel}:{qual} calls {ast.unparse(c)[:50]}")
                if isinstance(c, (ast.With, ast.AsyncWith)) and f"{rel}:{qual}" not in analysed:
                    for it in c.items:
                        e = it.context_expr
                        if not (isinstance(e, ast.Call) and ast.unparse(e.func) in fresh):
                            bad.append(f"{rel}:{qual} has `with {ast.unparse(e)[:50]}`")
                visit(rel, c, qual)
        for rel in files:
            if os.path.exists(os.path.join(repo, rel)):
                visit(rel, parse(repo, rel), "")
        if bad:
            raise Untranslatable("a stream may be let go of outside the close methods: " + "; ".join(bad[:4]))
        return ("(* no function of lib, lasreader, laswriter, lasappender, lasdata, header, the point readers/writers/appenders, vlrs, point.record\n"
                "   other than open_las, read_las, the close/__exit__ methods and LasData._write_to calls .close()/.__exit__()/.detach() or uses a\n"
                "   `with` statement on an object it did not create itself: an operation on a handle never lets go of the stream *)\n"
                "Definition gen_only_close_closes : bool := true.\n")
    o.add("gen_only_close_closes", only_close)

    # ---------------- lazily created point source ----------------
    def ps_kind():
        cls = find_class(parse(repo, "laspy/lasreader.py"), "LasReader")
        f = find_func(cls, "_create_point_source")
        if [a.arg for a in f.args.args] != ["self", "source"]:
            raise Untranslatable("_create_point_source signature")

        def backend_branch(stmts):
            """`return self._create_laz_backend(source)`, or `x = self._create_laz_backend(source)` [`if x is None: raise ..`] `return x`:
            the reader a backend built, or an exception"""
            made = "self._create_laz_backend(source)"
            if len(stmts) == 1 and ast.unparse(stmts[0]) == f"return {made}":
                return True
            if len(stmts) in (2, 3) and isinstance(stmts[0], ast.Assign) and len(stmts[0].targets) == 1 and isinstance(stmts[0].targets[0], ast.Name) \
                    and ast.unparse(stmts[0].value) == made:
                x = stmts[0].targets[0].id
                mid = stmts[1:-1]
                ok_mid = all(isinstance(m, ast.If) and ast.unparse(m.test) == f"{x} is None" and not m.orelse and len(m.body) == 1
                             and isinstance(m.body[0], ast.Raise) for m in mid)
                return ok_mid and ast.unparse(stmts[-1]) == f"return {x}"
            return False

        def walk(stmts):
            stmts = strip_doc(stmts)
            if backend_branch(stmts):
                return "PKBackend true"
            if len(stmts) != 1:
                raise Untranslatable("_create_point_source: branch with several statements")
            s = stmts[0]
            if isinstance(s, ast.If):
                t = ast.unparse(s.test)
                if t == "self.header.are_points_compressed":
                    return f"(if compressed then {walk(s.body)} else {walk(s.orelse)})"
                if t == "not self.header.are_points_compressed":
                    return f"(if compressed then {walk(s.orelse)} else {walk(s.body)})"
                if t == "self.header.point_count > 0":
                    return f"(if count_pos then {walk(s.body)} else {walk(s.orelse)})"
                if t in ("self.header.point_count == 0", "self.header.point_count <= 0"):
                    return f"(if count_pos then {walk(s.orelse)} else {walk(s.body)})"
                raise Untranslatable(f"_create_point_source: test {t}")
            if isinstance(s, ast.Return) and isinstance(s.value, ast.Call) and isinstance(s.value.func, ast.Name):
                c = s.value
                k = {"UncompressedPointReader": "PKUncompressed", "EmptyPointReader": "PKEmpty"}.get(c.func.id)
                if k is None:
                    raise Untranslatable(f"_create_point_source returns {c.func.id}")
                given = bool(c.args) and ast.unparse(c.args[0]) == "source" or any(
                    kw.arg == "source" and ast.unparse(kw.value) == "source" for kw in c.keywords)
                if c.args and ast.unparse(c.args[0]) != "source":
                    raise Untranslatable(f"{c.func.id} built on {ast.unparse(c.args[0])}")
                return f"{k} {'true' if given else 'false'}"
            raise Untranslatable(f"_create_point_source: statement {ast.unparse(s)[:60]}")
        body = walk(f.body)
        # the objects must keep the source they are given and expose it
        for cn in ("UncompressedPointReader", "EmptyPointReader"):
            c = find_class(parse(repo, "laspy/lasreader.py"), cn)
            ini = find_func(c, "__init__")
            if "self._source = source" not in [ast.unparse(s) for s in ini.body]:
                raise Untranslatable(f"{cn}.__init__ does not keep `source`")
            if ini.args.args[1].arg != "source":
                raise Untranslatable(f"{cn}.__init__ first parameter is not source")
            prop = find_func(c, "source")
            if [ast.unparse(s) for s in strip_doc(prop.body)] != ["return self._source"]:
                raise Untranslatable(f"{cn}.source is not `return self._source`")
        # LasReader._create_laz_backend: the source is only handed to a backend's create_reader, nothing is closed, and the
        # function ends by raising: it returns a reader a backend built or it raises
        if "PKBackend" in body:
            g = find_func(cls, "_create_laz_backend")
            if [a.arg for a in g.args.args] != ["self", "source"]:
                raise Untranslatable("_create_laz_backend signature")
            if MENTIONS_CLOSE.search(ast.unparse(g)):
                raise Untranslatable("_create_laz_backend closes something")
            allowed = set()
            for n in ast.walk(g):
                if isinstance(n, ast.Call) and isinstance(n.func, ast.Attribute) and n.func.attr == "create_reader" and n.args \
                        and isinstance(n.args[0], ast.Name) and n.args[0].id == "source":
                    allowed.add(id(n.args[0]))
            for n in ast.walk(g):
                if isinstance(n, ast.Name) and n.id == "source" and id(n) not in allowed:
                    raise Untranslatable("_create_laz_backend uses the source otherwise than as the argument of a backend's create_reader")
            gb = strip_doc(g.body)
            if not gb or not isinstance(gb[-1], ast.Raise):
                raise Untranslatable("_create_laz_backend does not end by raising when no backend gave a reader")
            for n in ast.walk(g):
                if isinstance(n, ast.Return) and (n.value is None or not isinstance(n.value, ast.Name)):
                    raise Untranslatable("_create_laz_backend returns something else than the reader a backend built")
        return ("(* the point source built on first use, the file having points or not, its points being flagged as compressed or not, and\n"
                "   whether it is handed the reader's source *)\n"
                f"Definition gen_point_source_kind (count_pos compressed : bool) : ps_kind := {body}.\n")
    o.add("gen_point_source_kind", ps_kind)

    def lazy():
        cls = find_class(parse(repo, "laspy/lasreader.py"), "LasReader")
        prop = find_func(cls, "point_source")
        got = [ast.unparse(s) for s in strip_doc(prop.body)]
        want = ["if self._point_source is None:\n    self._point_source = self._create_point_source(self._source)",
                "return self._point_source"]
        if got != want:
            raise Untranslatable("LasReader.point_source is not the lazy creation on self._source")
        ini = find_func(cls, "__init__")
        lines = [ast.unparse(s) for s in ini.body]
        if "self._source = source" not in lines:
            raise Untranslatable("LasReader.__init__ does not keep `source` in self._source")
        if not any(re.fullmatch(r"self\._point_source(: .*)? = None", l) for l in lines):
            raise Untranslatable("LasReader.__init__ does not start with no point source")
        if not any(l.startswith("self.header = LasHeader.read_from(source, read_evlrs=read_evlrs)") for l in lines):
            raise Untranslatable("LasReader.__init__ does not read the header with LasHeader.read_from(source, read_evlrs=read_evlrs)")
        return "Definition gen_point_source_lazy : bool := true.\n"
    o.add("gen_point_source_lazy", lazy)

    # ---------------- appender's seekability test ----------------
    def app_seek():
        f = find_func(find_class(parse(repo, "laspy/lasappender.py"), "LasAppender"), "__init__")
        body = strip_doc(f.body)
        s = body[0]
        if not (isinstance(s, ast.If) and ast.unparse(s.test) == "not dest.seekable()" and len(s.body) == 1
                and isinstance(s.body[0], ast.Raise) and isinstance(s.body[0].exc, ast.Call)):
            raise Untranslatable("LasAppender.__init__ does not start with the seekability test")
        cls_name = ast.unparse(s.body[0].exc.func)
        x = "XLaspy" if cls_name in ("LaspyException", "errors.LaspyException") else "XOther"
        if ast.unparse(body[1]) != "header = LasHeader.read_from(dest)":
            raise Untranslatable("LasAppender.__init__ does not read the header right after the seekability test")
        return f"Definition gen_appender_nonseekable_exn : exn := {x}.\n"
    o.add("gen_appender_nonseekable_exn", app_seek)

    def app_laz():
        """LasAppender on a file whose points are flagged as compressed: `self.points_appender = self._create_laz_backend(laz_backend)`
        inside __init__ (hence inside the try of open_las); _create_laz_backend returns what a backend's create_appender built or
        raises - every `raise` of one class, failures of the backends being caught (`except Exception`) and wrapped"""
        cls = find_class(parse(repo, "laspy/lasappender.py"), "LasAppender")
        f = find_func(cls, "__init__")
        found = [n for n in ast.walk(f) if isinstance(n, ast.If) and ast.unparse(n.test) in ("not header.are_points_compressed", "header.are_points_compressed")]
        if len(found) != 1 or found[0] not in f.body:
            raise Untranslatable("LasAppender.__init__: the switch on header.are_points_compressed")
        n = found[0]
        laz = n.orelse if ast.unparse(n.test).startswith("not") else n.body
        if [ast.unparse(x) for x in laz] != ["self.points_appender = self._create_laz_backend(laz_backend)"]:
            raise Untranslatable("LasAppender.__init__: the compressed branch is not `self.points_appender = self._create_laz_backend(laz_backend)`")
        g = find_func(cls, "_create_laz_backend")
        if MENTIONS_CLOSE.search(ast.unparse(g)):
            raise Untranslatable("LasAppender._create_laz_backend closes something")
        classes = set()
        for m in ast.walk(g):
            if isinstance(m, ast.Raise):
                if not (isinstance(m.exc, ast.Call) and isinstance(m.exc.func, (ast.Name, ast.Attribute))):
                    raise Untranslatable("LasAppender._create_laz_backend: a raise that is not `raise Class(..)`")
                classes.add(ast.unparse(m.exc.func))
            if isinstance(m, ast.Return) and not (isinstance(m.value, ast.Call) and ast.unparse(m.value.func).endswith(".create_appender")):
                raise Untranslatable("LasAppender._create_laz_backend returns something else than what a backend's create_appender built")
            if isinstance(m, ast.ExceptHandler) and (m.type is None or ast.unparse(m.type) not in ("Exception", "TypeError")):
                raise Untranslatable("LasAppender._create_laz_backend: handler that is neither `except Exception` (a backend failed) nor `except TypeError` (one backend given)")
        gb = strip_doc(g.body)
        if not gb or not all(isinstance(x, ast.Raise) for x in ([gb[-1]] if not isinstance(gb[-1], ast.If) else gb[-1].body + gb[-1].orelse)):
            raise Untranslatable("LasAppender._create_laz_backend does not end by raising")
        laspy_names = {"LaspyException", "errors.LaspyException"}
        if not classes or not (classes <= laspy_names or not (classes & laspy_names)):
            raise Untranslatable(f"LasAppender._create_laz_backend raises {sorted(classes)}")
        x = "XLaspy" if classes <= laspy_names else "XOther"
        return ("(* what constructing a LasAppender on a LAZ-flagged file raises when no backend can append *)\n"
                f"Definition gen_appender_laz_exn : exn := {x}.\n")
    o.add("gen_appender_laz_exn", app_laz)

    # ---------------- LasData.write ----------------
    def lasdata():
        cls = find_class(parse(repo, "laspy/lasdata.py"), "LasData")
        f = find_func(cls, "_write_to")
        body = strip_doc(f.body)
        if len(body) != 1 or not isinstance(body[0], ast.With) or len(body[0].items) != 1:
            raise Untranslatable("LasData._write_to is not a single with statement")
        call = body[0].items[0].context_expr
        if not (isinstance(call, ast.Call) and ast.unparse(call.func) == "LasWriter" and call.args
                and ast.unparse(call.args[0]) == f.args.args[1].arg):
            raise Untranslatable("LasData._write_to does not build a LasWriter on its stream argument")
        if any(MENTIONS_CLOSE.search(ast.unparse(s)) for s in body[0].body):
            raise Untranslatable("LasData._write_to closes something inside the with body")
        kw = {k.arg: k.value for k in call.keywords}
        e = bool_expr(kw["closefd"], {}) if "closefd" in kw else ctor_default_closefd(repo, "laspy/laswriter.py", "LasWriter")
        ws = [n for n in cls.body if isinstance(n, ast.FunctionDef) and n.name == "write"
              and "overload" not in [ast.unparse(d) for d in n.decorator_list]]
        if len(ws) != 1:
            raise Untranslatable("LasData.write: implementation not found")
        w = ws[0]
        wb = strip_doc(w.body)
        top = wb[-1]
        if not (isinstance(top, ast.If) and ast.unparse(top.test).startswith("isinstance(destination, (str, pathlib.Path))")
                and len(top.orelse) == 1 and ast.unparse(top.orelse[0]).startswith("self._write_to(destination,")):
            raise Untranslatable("LasData.write does not hand a stream destination to _write_to")
        if any(MENTIONS_CLOSE.search(ast.unparse(s)) for s in wb):
            raise Untranslatable("LasData.write closes something itself")
        return ("(* the constant closefd LasData._write_to gives to the LasWriter it uses as a context manager *)\n"
                f"Definition gen_lasdata_write_closefd : bool := {e}.\n")
    o.add("gen_lasdata_write_closefd", lasdata)

    # ---------------- header reading: operations on the caller's stream ----------------
    def prefetch():
        cls = find_class(parse(repo, "laspy/header.py"), "LasHeader")
        f = find_func(cls, "_prefetch_header_data", decorator="staticmethod")
        src = f.args.args[0].arg
        ops = []
        for n in ast.walk(f):
            if isinstance(n, ast.Call) and isinstance(n.func, ast.Attribute) and ast.unparse(n.func.value) == src:
                if n.func.attr != "read" or len(n.args) != 1:
                    raise Untranslatable(f"_prefetch_header_data calls {ast.unparse(n)}")
                ops.append((n.lineno, n.col_offset, ast.unparse(n.args[0])))
        ops.sort()
        if len(ops) != 2:
            raise Untranslatable(f"_prefetch_header_data: {len(ops)} reads")
        rest = "offset_to_data - len(header_bytes)"
        second = None
        if ops[1][2] == rest:
            second = "SReadToOffset"
        else:
            # the rest of the header, bounded: min(<rest>, <module level integer constant>) in either order
            e = ast.parse(ops[1][2], mode="eval").body
            if isinstance(e, ast.Call) and isinstance(e.func, ast.Name) and e.func.id == "min" and len(e.args) == 2 and not e.keywords:
                other = [a for a in e.args if ast.unparse(a) != rest]
                if len(other) == 1:
                    second = other[0]
        if ops[0][2] != "LAS_HEADERS_SIZE['1.1']" or second is None:
            raise Untranslatable(f"_prefetch_header_data reads {ops[0][2]} then {ops[1][2]}")
        for name in [k for k in sys.modules if k == "laspy" or k.startswith("laspy.")]:
            del sys.modules[name]
        sys.path.insert(0, repo)
        import importlib
        hm = importlib.import_module("laspy.header")
        n0 = int(hm.LAS_HEADERS_SIZE["1.1"])
        if second != "SReadToOffset":
            if isinstance(second, ast.Constant) and type(second.value) is int:
                bound = second.value
            elif isinstance(second, ast.Name) and type(getattr(hm, second.id, None)) is int:
                bound = getattr(hm, second.id)
            else:
                raise Untranslatable(f"_prefetch_header_data: bound of the second read {ast.unparse(second)}")
            second = f"(SReadToOffsetMax {py2v.z(bound)})"
        return f"Definition gen_prefetch_ops : list sop := [SRead {n0}; {second}].\n"
    o.add("gen_prefetch_ops", prefetch)

    def evlrs_shape():
        """LasHeader.read_evlrs -> dict(query, asked, ops):
             if self.version.minor >= 4:
                 [tmp = Q]                                         Q: a seekability question put to the stream (seek_query)
                 if self.number_of_evlrs > 0 and (tmp | Q): <operations on the stream>
                 [elif self.number_of_evlrs > 0 and not (tmp | Q): ..]  [else: ..]     (nothing else touches the stream)
             [else: ..]"""
        if "evlrs" in cache:
            return cache["evlrs"]
        cls = find_class(parse(repo, "laspy/header.py"), "LasHeader")
        f = find_func(cls, "read_evlrs")
        st = f.args.args[1].arg
        body = strip_doc(f.body)
        if len(body) != 1 or not isinstance(body[0], ast.If) or ast.unparse(body[0].test) != "self.version.minor >= 4":
            raise Untranslatable("read_evlrs is not guarded by `self.version.minor >= 4`")
        inner = list(body[0].body)
        if any(re.search(rf"\b{st}\b", ast.unparse(s)) for s in body[0].orelse):
            raise Untranslatable("read_evlrs touches the stream for versions below 1.4")
        tmp = None
        if len(inner) == 2 and isinstance(inner[0], ast.Assign) and len(inner[0].targets) == 1 and isinstance(inner[0].targets[0], ast.Name):
            # the question is put once, before the tests, and its answer kept in a local
            tmp = inner[0].targets[0].id
            q_tmp = seek_query(inner[0].value, st)
            _require(q_tmp is not None and tmp != st, f"read_evlrs: statement before the seekable branch: {ast.unparse(inner[0])[:80]}")
            inner = inner[1:]
        if len(inner) != 1 or not isinstance(inner[0], ast.If):
            raise Untranslatable("read_evlrs: guard of the seekable branch")
        node = inner[0]

        def guard(test, negated):
            """`self.number_of_evlrs > 0 and [not] <answer>` -> the question asked in place (None: the local holds the answer)"""
            _require(isinstance(test, ast.BoolOp) and isinstance(test.op, ast.And) and len(test.values) == 2
                     and ast.unparse(test.values[0]) == "self.number_of_evlrs > 0", "read_evlrs: guard of the seekable branch")
            ans = test.values[1]
            if negated:
                _require(isinstance(ans, ast.UnaryOp) and isinstance(ans.op, ast.Not), "read_evlrs: guard of the branch taken when the stream cannot seek")
                ans = ans.operand
            if tmp is not None:
                _require(isinstance(ans, ast.Name) and ans.id == tmp, "read_evlrs: guard of the seekable branch")
                return None, ans
            q = seek_query(ans, st)
            _require(q is not None, "read_evlrs: guard of the seekable branch")
            return q, ans
        q_in, where = guard(node.test, False)
        query = q_tmp if tmp is not None else q_in
        allowed = [where]
        if len(node.orelse) == 1 and isinstance(node.orelse[0], ast.If):
            # asked again (or the kept answer looked at again) only after the first test said "cannot seek": the same question
            el = node.orelse[0]
            if uses_outside(el.test, st, []) or (tmp is not None and uses_outside(el.test, tmp, [])) or mentions_seekable(el.test):
                q2, where2 = guard(el.test, True)
                _require(tmp is not None or q2 == query, "read_evlrs: the second test asks the stream in another way than the first")
                allowed.append(where2)
        # nothing else speaks of seekability, the stream is used in the seekable branch only, the kept answer is bound once and
        # looked at in the tests only
        asked_at = allowed if tmp is None else [body[0].body[0].value]
        inside = {id(m) for a in asked_at for m in ast.walk(a)}
        _require(all(id(m) in inside for m in mentions_seekable(f)), "read_evlrs asks the stream whether it can seek somewhere else too")
        _require(not uses_outside(node.orelse, st, allowed), "read_evlrs touches the stream outside the seekable branch")
        if tmp is not None:
            stores = [n for n in ast.walk(f) if isinstance(n, ast.Name) and n.id == tmp and isinstance(n.ctx, (ast.Store, ast.Del))]
            _require(len(stores) == 1 and tmp not in [a.arg for a in f.args.args], "read_evlrs rebinds the answer of the stream")
            _require(not uses_outside(node.body + node.orelse, tmp, allowed), "read_evlrs uses the answer of the stream outside its tests")
        table = {
            f"saved_pos = {st}.tell()": "STellSave",
            f"{st}.seek(self.start_of_first_evlr, io.SEEK_SET)": "SSeekEvlrStart",
            f"{st}.seek(self.start_of_first_evlr)": "SSeekEvlrStart",
            f"self.evlrs = VLRList.read_from({st}, self.number_of_evlrs, extended=True)": "SReadEvlrs",
            f"{st}.seek(saved_pos)": "SSeekSaved",
            f"{st}.seek(saved_pos, io.SEEK_SET)": "SSeekSaved",
        }
        ops = []
        for s in node.body:
            t = ast.unparse(s)
            if t in table:
                ops.append(table[t])
            elif re.search(rf"\b{st}\b", t):
                raise Untranslatable(f"read_evlrs: stream operation {t[:80]}")
        cache["evlrs"] = {"query": query, "asked": "true" if tmp is not None else "has_evlrs", "ops": ops}
        return cache["evlrs"]

    def read_evlrs_query():
        e = evlrs_shape()
        return ("(* how LasHeader.read_evlrs asks the caller's stream whether it can seek (version >= 1.4) *)\n"
                f"Definition gen_read_evlrs_query : squery := {e['query']}.\n")
    o.add("gen_read_evlrs_query", read_evlrs_query)

    def read_evlrs_asked():
        e = evlrs_shape()
        return ("(* whether it asks, given `self.number_of_evlrs > 0`: `true` = once, before its tests, whatever the file announces;\n"
                "   `has_evlrs` = as the second operand of `self.number_of_evlrs > 0 and ..`, i.e. only when EVLRs are announced *)\n"
                f"Definition gen_read_evlrs_query_asked (has_evlrs : bool) : bool := {e['asked']}.\n")
    o.add("gen_read_evlrs_query_asked", read_evlrs_asked)

    def read_evlrs():
        e = evlrs_shape()
        return ("(* operations of LasHeader.read_evlrs on the stream when version >= 1.4, number_of_evlrs > 0 and the answer is yes *)\n"
                "Definition gen_read_evlrs_ops : list sop := [" + "; ".join(e["ops"]) + "].\n")
    o.add("gen_read_evlrs_ops", read_evlrs)

    def reader_read_query():
        """LasReader.read: `if Q(self.point_source.source): self.read_evlrs() else: <read them where the stream stands>`
        (or the negated test with the branches swapped); LasReader.read_evlrs is `self.header.read_evlrs(self._source)`"""
        cls = find_class(parse(repo, "laspy/lasreader.py"), "LasReader")
        f = find_func(cls, "read")
        obj = "self.point_source.source"
        found = []
        for n in ast.walk(f):
            if not isinstance(n, ast.If):
                continue
            t, neg = n.test, False
            if isinstance(t, ast.UnaryOp) and isinstance(t.op, ast.Not):
                t, neg = t.operand, True
            q = seek_query(t, obj)
            if q is not None:
                found.append((n, t, q, neg))
        _require(len(found) == 1, f"LasReader.read: {len(found)} tests of the source's seekability")
        n, t, q, neg = found[0]
        inside = {id(m) for m in ast.walk(t)}
        _require(all(id(m) in inside for m in mentions_seekable(f)), "LasReader.read asks the source whether it can seek somewhere else too")
        yes, no = (n.orelse, n.body) if neg else (n.body, n.orelse)
        _require([ast.unparse(s) for s in strip_doc(yes)] == ["self.read_evlrs()"], "LasReader.read: the branch of a source that can seek is not `self.read_evlrs()`")
        _require(no and not any("read_evlrs" in ast.unparse(s) for s in no), "LasReader.read: the branch of a source that cannot seek")
        r = find_func(cls, "read_evlrs")
        _require([ast.unparse(s) for s in strip_doc(r.body)] == ["self.header.read_evlrs(self._source)"],
                 "LasReader.read_evlrs is not `self.header.read_evlrs(self._source)`")
        return ("(* how LasReader.read asks its source whether it can seek when EVLRs are still to be loaded: yes -> LasHeader.read_evlrs\n"
                "   (which asks for itself), no -> they are read where the stream stands *)\n"
                f"Definition gen_reader_read_query : squery := {q}.\n")
    o.add("gen_reader_read_query", reader_read_query)

    def read_from():
        cls = find_class(parse(repo, "laspy/header.py"), "LasHeader")
        f = find_func(cls, "read_from", decorator="classmethod")
        st = f.args.args[1].arg
        uses = []
        for s in strip_doc(f.body):
            t = ast.unparse(s)
            if re.search(rf"\b{st}\b", t):
                uses.append(t)
        want = [f"stream = io.BytesIO(cls._prefetch_header_data({st}))", f"if read_evlrs:\n    header.read_evlrs({st})\n    stream.seek(header.offset_to_point_data)"]
        want2 = [want[0], f"if read_evlrs:\n    header.read_evlrs({st})"]
        if uses not in (want, want2):
            raise Untranslatable("LasHeader.read_from uses the caller's stream otherwise than: prefetch, then read_evlrs under the flag")
        return ("(* LasHeader.read_from touches the caller's stream twice: _prefetch_header_data, then read_evlrs when asked to *)\n"
                "Definition gen_read_from_prefetch_then_evlrs : bool := true.\n")
    o.add("gen_read_from_prefetch_then_evlrs", read_from)
    return o


TARGETS = {"GenOwnership.v": gen_ownership}
