"""Translator plugin for property C17 (access paths): the constants of LasHeader._prefetch_header_data and the
call shapes of the code the hand-written stream model (coq/Model/Access.v) follows, read from the AST of
laspy/header.py, laspy/lib.py, laspy/lasreader.py, laspy/lasmmap.py -> coq/Gen/GenAccess.v.
Fail-closed: a statement that is not of the expected shape is an Untranslatable (the check then reports the
generated definition as missing and the obligations that use it no longer build)."""
import ast
import copy

import py2v
from py2v import Out, Untranslatable, find_class, find_func, parse


def _norm(node):
    return ast.unparse(node).replace("\n", " ")


def _int(node, env=None):
    """evaluate a tiny constant int expression (literals, +, names from env)"""
    if isinstance(node, ast.Constant) and isinstance(node.value, int) and not isinstance(node.value, bool):
        return node.value
    if isinstance(node, ast.BinOp) and isinstance(node.op, ast.Add):
        return _int(node.left, env) + _int(node.right, env)
    if isinstance(node, ast.Name) and env and node.id in env:
        return env[node.id]
    raise Untranslatable(f"not a constant int: {_norm(node)}")


def _calls(fn, text):
    """all ast.Call nodes of fn whose callee unparse equals text, in source order"""
    out = [n for n in ast.walk(fn) if isinstance(n, ast.Call) and _norm(n.func) == text]
    out.sort(key=lambda n: (n.lineno, n.col_offset))
    return out


def _require(cond, what):
    if not cond:
        raise Untranslatable(what)


def _strip_doc(body):
    body = list(body)
    if body and isinstance(body[0], ast.Expr) and isinstance(body[0].value, ast.Constant) and isinstance(body[0].value.value, str):
        body = body[1:]
    return body


def _subst(node, env):
    """copy of node in which every loaded name bound in env is replaced by its (pure) expression"""
    class T(ast.NodeTransformer):
        def visit_Name(self, n):
            if isinstance(n.ctx, ast.Load) and n.id in env:
                return copy.deepcopy(env[n.id])
            return n
    return T().visit(copy.deepcopy(node))


def _chain_assign(node, target):
    """`if t1: ..; target = e1 elif t2: ..; target = e2 else: ..; target = e3` -> [(t1, pre1, e1), (t2, pre2, e2), (None, pre3, e3)]"""
    out = []
    while True:
        last = node.body[-1]
        _require(isinstance(last, ast.Assign) and [_norm(t) for t in last.targets] == [target], f"branch does not end with `{target} = ..`")
        out.append((node.test, node.body[:-1], last.value))
        if len(node.orelse) == 1 and isinstance(node.orelse[0], ast.If):
            node = node.orelse[0]
            continue
        _require(node.orelse, f"`{target}` is not bound on every path")
        last = node.orelse[-1]
        _require(isinstance(last, ast.Assign) and [_norm(t) for t in last.targets] == [target], f"else branch does not end with `{target} = ..`")
        out.append((None, node.orelse[:-1], last.value))
        return out


def _chain_return(stmts):
    """`if t1: ..; return e1` [`elif`/fall through] .. `..; return e3` -> the same decision list"""
    out = []
    stmts = _strip_doc(stmts)
    while True:
        _require(stmts, "helper falls off its end")
        s = stmts[0]
        if isinstance(s, ast.If) and s.body and isinstance(s.body[-1], ast.Return) and s.body[-1].value is not None:
            out.append((s.test, s.body[:-1], s.body[-1].value))
            if s.orelse:
                _require(len(stmts) == 1, "statements after an if/else of returns")
                stmts = s.orelse
            else:
                stmts = stmts[1:]
            continue
        last = stmts[-1]
        _require(isinstance(last, ast.Return) and last.value is not None, "helper does not end with `return ..`")
        out.append((None, stmts[:-1], last.value))
        return out


def _dispatch(mod, body, target):
    """the decision list [(test | None, statements before, value)] by which the statements `body` bind `target`: either an
    if/elif/else chain of assignments, or `target = helper(simple arguments)` with a module level helper made of returns
    (looked through: its parameters are replaced by the arguments)"""
    binders = [s for s in body if any(isinstance(n, ast.Name) and n.id == target and isinstance(n.ctx, ast.Store) for n in ast.walk(s))]
    _require(len(binders) == 1, f"`{target}` is bound by {len(binders)} statements")
    s = binders[0]
    if isinstance(s, ast.If):
        return _chain_assign(s, target)
    _require(isinstance(s, ast.Assign) and [_norm(t) for t in s.targets] == [target] and isinstance(s.value, ast.Call)
             and isinstance(s.value.func, ast.Name), f"`{target}` is neither bound by an if chain nor by a helper call: {_norm(s)[:80]}")
    call = s.value
    defs = [n for n in mod.body if isinstance(n, ast.FunctionDef) and n.name == call.func.id]
    _require(len(defs) == 1 and not defs[0].decorator_list, f"helper {call.func.id} is not a plain module level function")
    h = defs[0]
    a = h.args
    _require(not (a.vararg or a.kwarg or a.posonlyargs or a.kwonlyargs or a.defaults), f"helper {h.name}: signature not understood")
    params = [p.arg for p in a.args]
    _require(not any(isinstance(x, ast.Starred) for x in call.args) and all(k.arg for k in call.keywords), f"helper {h.name}: star arguments")
    env = dict(zip(params, call.args))
    for k in call.keywords:
        _require(k.arg in params and k.arg not in env, f"helper {h.name}: argument {k.arg}")
        env[k.arg] = k.value
    _require(sorted(env) == sorted(params) and len(call.args) <= len(params), f"helper {h.name}: arguments do not match the parameters")
    _require(all(isinstance(v, (ast.Name, ast.Constant)) for v in env.values()), f"helper {h.name}: an argument is not a name or a constant")
    for n in [m for b in h.body for m in ast.walk(b)]:
        _require(not isinstance(n, (ast.Global, ast.Nonlocal, ast.Yield, ast.YieldFrom, ast.Await, ast.FunctionDef, ast.Lambda)), f"helper {h.name}: {type(n).__name__}")
        _require(not (isinstance(n, ast.Name) and isinstance(n.ctx, (ast.Store, ast.Del)) and n.id in params), f"helper {h.name} rebinds a parameter")
    return [(None if t is None else _subst(t, env), [_subst(p, env) for p in pre], _subst(v, env)) for t, pre, v in _chain_return(h.body)]


# ---------------------------------------------------------------------------------------------------------------
# tail calls of new helpers: `return helper(names / constants)` read as the helper's statements
# ---------------------------------------------------------------------------------------------------------------
def _always_leaves(stmts):
    """every path through the statements ends with `return` or `raise` (nothing falls off the end)"""
    if not stmts:
        return False
    s = stmts[-1]
    if isinstance(s, (ast.Return, ast.Raise)):
        return True
    if isinstance(s, ast.If):
        return _always_leaves(s.body) and _always_leaves(s.orelse)
    if isinstance(s, ast.Try):
        return _always_leaves(s.body + s.orelse) and all(_always_leaves(h.body) for h in s.handlers)
    return False


def tail_inlined(mod, fn):
    """(copy of the FunctionDef `fn`, names of the helpers looked through): every statement `return helper(arguments)` of `fn` that
    is the last statement of an if / elif / else branch (or of the function), whose callee is a plain module level function that did
    not exist when this reader was written (py2v.KNOWN_FUNCTIONS) and whose arguments are names or constants, is replaced by the
    helper's statements, its parameters replaced by the arguments. Returning what the helper returns (or raising what it raises)
    IS running its statements in place when: every path of the helper ends with return / raise; the arguments are evaluated
    without side effect (a name, a constant); a parameter the helper assigns to was given a NAME (the caller's variable of that
    name is then assigned instead - nothing of the caller runs after a tail call); the helper has no nested function, lambda,
    comprehension scope games (global / nonlocal), yield or decorator. Anything else is left as written (the reader then fails
    closed as before); a tree without such helpers is returned unchanged."""
    known = getattr(py2v, "KNOWN_FUNCTIONS", set())
    helpers = {n.name: n for n in mod.body if isinstance(n, ast.FunctionDef)}
    used = []

    def body_of(call):
        if not (isinstance(call, ast.Call) and isinstance(call.func, ast.Name)):
            return None
        h = helpers.get(call.func.id)
        if h is None or h.name in known or h is fn or h.decorator_list:
            return None
        a = h.args
        if a.vararg or a.kwarg or a.posonlyargs:
            return None
        params = [p.arg for p in a.args] + [p.arg for p in a.kwonlyargs]
        defaults = dict(zip([p.arg for p in a.args][len(a.args) - len(a.defaults):], a.defaults))
        defaults.update({p.arg: d for p, d in zip(a.kwonlyargs, a.kw_defaults) if d is not None})
        if len(call.args) > len(a.args) or any(isinstance(x, ast.Starred) for x in call.args):
            return None
        env = dict(zip([p.arg for p in a.args], call.args))
        for k in call.keywords:
            if k.arg is None or k.arg not in params or k.arg in env:
                return None
            env[k.arg] = k.value
        for p in params:
            if p not in env:
                if p not in defaults:
                    return None
                env[p] = defaults[p]
        if not all(isinstance(v, (ast.Name, ast.Constant)) for v in env.values()):
            return None
        body = _strip_doc(h.body)
        for n in [m for b in body for m in ast.walk(b)]:
            if isinstance(n, (ast.Global, ast.Nonlocal, ast.Yield, ast.YieldFrom, ast.Await, ast.FunctionDef, ast.AsyncFunctionDef, ast.Lambda, ast.ClassDef)):
                return None
            if isinstance(n, ast.Name) and isinstance(n.ctx, (ast.Store, ast.Del)) and n.id in env and not isinstance(env[n.id], ast.Name):
                return None
        if not _always_leaves(body):
            return None
        # a local of the helper that is not a parameter must not be read before the helper binds it (it could then see the caller's
        # variable of the same name): the helper itself would raise UnboundLocalError there, so this cannot change a working tree

        class T(ast.NodeTransformer):
            def visit_Name(self, n):
                if n.id in env:
                    v = env[n.id]
                    if isinstance(v, ast.Name):
                        return ast.copy_location(ast.Name(id=v.id, ctx=n.ctx), n)
                    return copy.deepcopy(v)
                return n
        used.append(h.name)
        return [T().visit(copy.deepcopy(s)) for s in body]

    def block(stmts, tail):
        out = []
        for i, s in enumerate(stmts):
            last = tail and i == len(stmts) - 1
            if isinstance(s, ast.Return) and last:
                b = body_of(s.value)
                if b is not None:
                    out.extend(block(b, True))
                    continue
            if isinstance(s, ast.If) and last:
                s = copy.copy(s)
                s.body = block(s.body, True)
                s.orelse = block(s.orelse, True) if s.orelse else s.orelse
            out.append(s)
        return out
    new = copy.copy(fn)
    new.body = block(list(fn.body), True)
    if not used:
        return fn, []
    return ast.fix_missing_locations(new), used


def gen(repo):
    o = Out("laspy/header.py LasHeader._prefetch_header_data / read_evlrs / read_from (and where the point format is decided), laspy/lib.py open_las, "
            "laspy/lasreader.py LasReader.read / _create_point_source, UncompressedPointReader.read_n_points, "
            "laspy/lasmmap.py LasMMAP.__init__")
    hmod = parse(repo, "laspy/header.py")
    hcls = find_class(hmod, "LasHeader")

    def header_sizes():
        for n in hmod.body:
            if isinstance(n, ast.Assign) and _norm(n.targets[0]) == "LAS_HEADERS_SIZE" and isinstance(n.value, ast.Dict):
                return {k.value: _int(v) for k, v in zip(n.value.keys, n.value.values)}
        raise Untranslatable("LAS_HEADERS_SIZE dict literal not found")

    def prefetch():
        f = find_func(hcls, "_prefetch_header_data", decorator="staticmethod")
        _require([a.arg for a in f.args.args] == ["source"], "_prefetch_header_data(source)")
        reads = _calls(f, "source.read")
        _require(len(reads) == 2, f"_prefetch_header_data makes {len(reads)} source.read calls, expected 2")
        _require(not [n for n in ast.walk(f) if isinstance(n, ast.Call) and _norm(n.func).startswith("source.")
                      and _norm(n.func) != "source.read"], "_prefetch_header_data calls something else than source.read")
        body = [s for s in f.body if not (isinstance(s, ast.Expr) and isinstance(s.value, ast.Constant))]
        # header_bytes = source.read(LAS_HEADERS_SIZE['1.1'])
        s0 = body[0]
        _require(isinstance(s0, ast.Assign) and _norm(s0.targets[0]) == "header_bytes" and s0.value is reads[0],
                 "first statement is not header_bytes = source.read(..)")
        arg = reads[0].args[0]
        _require(isinstance(arg, ast.Subscript) and _norm(arg.value) == "LAS_HEADERS_SIZE"
                 and isinstance(arg.slice, ast.Constant), "first read size is not LAS_HEADERS_SIZE[<version>]")
        first = header_sizes()[arg.slice.value]
        src = _norm(f)
        for needed in ("file_sig = header_bytes[:len(LAS_FILE_SIGNATURE)]", "if not file_sig:", "if file_sig != LAS_FILE_SIGNATURE:",
                       f"if len(header_bytes) < {_norm(arg)}:", "return header_bytes + rest"):
            _require(needed in src, f"_prefetch_header_data lacks `{needed}`")
        # offset_to_data = int.from_bytes(header_bytes[96:96 + 4], byteorder='little', signed=False)
        off = [s for s in body if isinstance(s, ast.Assign) and _norm(s.targets[0]) == "offset_to_data"]
        _require(len(off) == 1 and isinstance(off[0].value, ast.Call) and _norm(off[0].value.func) == "int.from_bytes",
                 "offset_to_data = int.from_bytes(..)")
        call = off[0].value
        kw = {k.arg: _norm(k.value) for k in call.keywords}
        _require(kw == {"byteorder": "'little'", "signed": "False"}, f"from_bytes keywords {kw}")
        sl = call.args[0]
        _require(isinstance(sl, ast.Subscript) and _norm(sl.value) == "header_bytes" and isinstance(sl.slice, ast.Slice)
                 and sl.slice.step is None, "offset slice of header_bytes")
        lo, hi = _int(sl.slice.lower), _int(sl.slice.upper)
        _require(0 <= lo < hi <= first, "offset slice bounds")
        # rest = source.read(offset_to_data - len(header_bytes))
        _require(_norm(reads[1]) == "source.read(offset_to_data - len(header_bytes))", "second read is not the rest of the header")
        sig = [n for n in hmod.body if isinstance(n, ast.Assign) and _norm(n.targets[0]) == "LAS_FILE_SIGNATURE"]
        _require(len(sig) == 1 and isinstance(sig[0].value, ast.Constant) and isinstance(sig[0].value.value, bytes), "LAS_FILE_SIGNATURE")
        sigb = "; ".join(str(b) for b in sig[0].value.value)
        return (f"Definition prefetch_first_read : Z := {first}.\n"
                f"Definition prefetch_offset_pos : Z := {lo}.\n"
                f"Definition prefetch_offset_width : Z := {hi - lo}.\n"
                f"Definition prefetch_reads : Z := {len(reads)}.\n"
                f"Definition file_signature : list Z := [{sigb}].\n")
    o.add("prefetch", prefetch)

    ASK = "getattr({0}, 'seekable', lambda: False)()"      # a source without the method counts as not seekable, and is not asked

    def hdr_read_evlrs():
        f = find_func(hcls, "read_evlrs")
        _require([a.arg for a in f.args.args] == ["self", "stream"], "read_evlrs(self, stream)")
        body = [s for s in f.body if not (isinstance(s, ast.Expr) and isinstance(s.value, ast.Constant))]
        _require(len(body) == 1 and isinstance(body[0], ast.If) and _norm(body[0].test) == "self.version.minor >= 4", "outer version test")
        top = body[0]
        _require(_norm(top.orelse[0]) == "self.evlrs = None" and len(top.orelse) == 1, "below 1.4: evlrs = None")
        # the capability is asked once, whatever the number of EVLRs, and only through getattr with a default
        _require(len(top.body) == 2 and _norm(top.body[0]) == "seekable = " + ASK.format("stream"), "seekable = getattr(stream, 'seekable', lambda: False)()")
        i1 = top.body[1]
        _require(isinstance(i1, ast.If) and _norm(i1.test) == "self.number_of_evlrs > 0 and seekable", "seekable branch test")
        want = ["saved_pos = stream.tell()", "stream.seek(self.start_of_first_evlr, io.SEEK_SET)",
                "self.evlrs = VLRList.read_from(stream, self.number_of_evlrs, extended=True)", "stream.seek(saved_pos)"]
        _require([_norm(s) for s in i1.body] == want, f"seekable branch body {[_norm(s) for s in i1.body]}")
        i2 = i1.orelse[0]
        _require(len(i1.orelse) == 1 and isinstance(i2, ast.If) and _norm(i2.test) == "self.number_of_evlrs > 0 and (not seekable)"
                 and [_norm(s) for s in i2.body] == ["self.evlrs = None"], "non seekable branch")
        _require([_norm(s) for s in i2.orelse] == ["self.evlrs = VLRList()"], "no EVLR branch")
        # nothing else of the stream is used: tell, seek (twice), VLRList.read_from, and the getattr
        uses = sorted(_norm(n) for n in ast.walk(f) if isinstance(n, ast.Attribute) and isinstance(n.value, ast.Name) and n.value.id == "stream")
        _require(uses == ["stream.seek", "stream.seek", "stream.tell"], f"read_evlrs uses {uses} of the stream")
        return "Definition gen_hdr_read_evlrs_shape : bool := true.\n"
    o.add("hdr_read_evlrs", hdr_read_evlrs)

    def read_from():
        f = find_func(hcls, "read_from", decorator="classmethod")
        src = _norm(f)
        _require("stream = io.BytesIO(cls._prefetch_header_data(original_stream))" in src, "read_from parses a BytesIO of the prefetched bytes")
        uses = [n for n in ast.walk(f) if isinstance(n, ast.Name) and n.id == "original_stream"]
        _require(len(uses) == 2, f"original_stream is used {len(uses)} times in read_from (prefetch and read_evlrs expected)")
        tail = f.body[-2]
        _require(isinstance(tail, ast.If) and _norm(tail.test) == "read_evlrs" and _norm(tail.body[0]) == "header.read_evlrs(original_stream)",
                 "read_from ends with `if read_evlrs: header.read_evlrs(original_stream)`")
        init = find_func(hcls, "__init__")
        _require("self.evlrs: Optional[VLRList] = None" in _norm(init), "a new header has evlrs = None")
        return "Definition gen_read_from_shape : bool := true.\n"
    o.add("read_from", read_from)

    def format_shape():
        """the point format is a function of the header and of the VLRs: LasHeader.read_from builds it from the format id, the point
        size and `header._vlrs.get('ExtraBytesVlr')` and stores it BEFORE `if read_evlrs:`, whose body is the loading of the EVLRs (and
        the rewinding of the local buffer) and is followed by `return header` only; the EVLRs are never looked at in read_from; and the
        code that loads EVLRs once the header is parsed (LasHeader.read_evlrs, LasReader.read / read_evlrs, LasMMAP.__init__) stores
        nothing but the EVLR list and calls nothing but what it calls today (no method that could rebuild the point format)"""
        f = find_func(hcls, "read_from", decorator="classmethod")
        body = _strip_doc(f.body)
        _require(_norm(body[-1]) == "return header", "read_from ends with `return header`")
        tail = body[-2]
        _require(isinstance(tail, ast.If) and _norm(tail.test) == "read_evlrs" and not tail.orelse
                 and [_norm(x) for x in tail.body] in (["header.read_evlrs(original_stream)", "stream.seek(header.offset_to_point_data)"],
                                                        ["header.read_evlrs(original_stream)"]),
                 "read_from: `if read_evlrs:` does something else than load the EVLRs (and rewind the local buffer), or is not the last statement before `return header`")
        # a NEW private helper of the class (not among py2v.KNOWN_FUNCTIONS) called as a statement of read_from with `header` given
        # for its parameter `header` - `cls._resolve_point_format(header, ..)` - is looked through: its statements count as statements
        # of read_from at the place of the call (what the other arguments are does not matter for what is checked here)
        known = getattr(py2v, "KNOWN_FUNCTIONS", set())
        looked = {}
        for i, x in enumerate(body):
            c = x.value if isinstance(x, ast.Expr) else None
            if not (isinstance(c, ast.Call) and isinstance(c.func, ast.Attribute) and _norm(c.func.value) in ("cls", "LasHeader") and c.func.attr not in known):
                continue
            hs = [n for n in hcls.body if isinstance(n, ast.FunctionDef) and n.name == c.func.attr]
            if len(hs) != 1:
                continue
            decs = [_norm(d) for d in hs[0].decorator_list]
            if decs not in (["staticmethod"], ["classmethod"]) or hs[0].args.vararg or hs[0].args.kwarg:
                continue
            params = [a.arg for a in hs[0].args.args][1 if decs == ["classmethod"] else 0:]
            bound = dict(zip(params, [_norm(a) for a in c.args]))
            bound.update({k.arg: _norm(k.value) for k in c.keywords if k.arg})
            if bound.get("header") == "header" and not any(isinstance(n, ast.Name) and n.id == "header" and isinstance(n.ctx, ast.Store) for n in ast.walk(hs[0])):
                looked[i] = hs[0]
        scope = [f] + list(looked.values())
        stores = [i for i, x in enumerate(body) if isinstance(x, ast.Assign) and [_norm(t) for t in x.targets] == ["header._point_format"]
                  and _norm(x.value) == "point_format"]
        stores += [i for i, h in looked.items() for x in _strip_doc(h.body)
                   if isinstance(x, ast.Assign) and [_norm(t) for t in x.targets] == ["header._point_format"] and _norm(x.value) == "point_format"]
        _require(len(stores) == 1 and stores[0] < len(body) - 2,
                 "read_from: `header._point_format = point_format` once, before the EVLRs are loaded")
        all_stores = [n for g in scope for n in ast.walk(g) if isinstance(n, ast.Attribute) and n.attr in ("_point_format", "point_format") and isinstance(n.ctx, ast.Store)]
        _require(len(all_stores) == 1, "read_from stores the point format more than once")
        _require(any("header._vlrs.get('ExtraBytesVlr')" in _norm(g) for g in scope), "read_from: the extra dimensions come from the Extra Bytes record of the VLRs")
        for g in scope:
            for n in ast.walk(g):
                if isinstance(n, ast.Attribute) and n.attr in ("evlrs", "_evlrs"):
                    raise Untranslatable(f"read_from looks at the EVLRs: {_norm(n)}")
        rmod = parse(repo, "laspy/lasreader.py")
        rcls = find_class(rmod, "LasReader")
        mcls = find_class(parse(repo, "laspy/lasmmap.py"), "LasMMAP")
        allowed = {
            "LasHeader.read_evlrs": (find_func(hcls, "read_evlrs"),
                                     {"VLRList", "VLRList.read_from", "getattr", "getattr(stream, 'seekable', lambda: False)", "stream.seek", "stream.tell"},
                                     {"self.evlrs"}),
            "LasReader.read": (find_func(rcls, "read"),
                               {"LasData", "LocalReader", "VLRList", "VLRList.read_from", "deepcopy", "errors.LaspyException", "getattr",
                                "getattr(self.point_source.source, 'seekable', lambda: False)", "isinstance", "len",
                                "self.point_source.read_chunk_table_only", "self.point_source.source.read", "self.read_evlrs", "self.read_points",
                                "self.source.read_raw_bytes"},
                               {"self.evlrs", "self.header.evlrs", "self.source"}),
            "LasReader.read_evlrs": (find_func(rcls, "read_evlrs"), {"self.header.read_evlrs"}, set()),
            "LasMMAP.__init__": (find_func(mcls, "__init__"),
                                 {"LasHeader.read_from", "VLRList", "VLRList.read_from", "ValueError", "fileref.fileno", "m.seek", "mmap.mmap", "open",
                                  "record.PackedPointRecord.from_buffer", "self.mmap.seek", "super", "super().__init__"},
                                 {"header.evlrs", "self.fileref", "self.mmap"}),
        }
        for name, (fn, calls, attr_stores) in allowed.items():
            got = {_norm(n.func) for n in ast.walk(fn) if isinstance(n, ast.Call)}
            _require(got <= calls, f"{name} calls {sorted(got - calls)}: not among the calls known to leave the point format alone")
            st = {_norm(n) for n in ast.walk(fn) if isinstance(n, ast.Attribute) and isinstance(n.ctx, ast.Store)}
            _require(st <= attr_stores, f"{name} stores {sorted(st - attr_stores)}")
        # LasReader.evlrs is the header's list (so that `self.evlrs = ..` stores nothing else)
        ev = [n for n in rcls.body if isinstance(n, ast.FunctionDef) and n.name == "evlrs"]
        _require(sorted(_norm(x) for fn in ev for x in _strip_doc(fn.body)) == ["return self.header.evlrs", "self.header.evlrs = evlrs"],
                 "LasReader.evlrs is not a property over header.evlrs")
        return ("(* header.point_format is built from the format id, the point size and the VLRs, before any EVLR is loaded; nothing that loads\n"
                "   EVLRs afterwards stores or calls anything but the EVLR list *)\n"
                "Definition gen_format_from_vlrs_only : bool := true.\n")
    o.add("format_shape", format_shape)

    def vlr_reads():
        vmod = parse(repo, "laspy/vlrs/vlrlist.py")
        f = find_func(find_class(vmod, "VLRList"), "read_from", decorator="classmethod")
        params = [a.arg for a in f.args.args]
        _require(len(params) == 4 and params[3] == "extended", f"VLRList.read_from{tuple(params)}")
        st = params[1]
        # every use of the stream is `<st>.read(..)` or `read_string(<st>, ..)`: one sequential read each
        reads = set()
        for n in ast.walk(f):
            if isinstance(n, ast.Call) and _norm(n.func) == f"{st}.read":
                reads.add(id(n.func.value))
            elif isinstance(n, ast.Call) and _norm(n.func) == "read_string" and n.args and _norm(n.args[0]) == st:
                reads.add(id(n.args[0]))
        for n in ast.walk(f):
            if isinstance(n, ast.Name) and n.id == st:
                _require(id(n) in reads, f"VLRList.read_from uses {st} otherwise than {st}.read(..) / read_string({st}, ..)")

        def flag(test, ext):
            """value of a test over the known flag `extended` (None: not understood)"""
            if isinstance(test, ast.Name) and test.id == "extended":
                return ext
            if isinstance(test, ast.UnaryOp) and isinstance(test.op, ast.Not):
                v = flag(test.operand, ext)
                return None if v is None else not v
            return None

        def expr(n, ext):
            """number of reads made by evaluating n (every sub-expression is evaluated exactly once, conditional
            expressions are resolved on the flag)"""
            if id(n) in reads:
                return 1
            if isinstance(n, ast.IfExp):
                v = flag(n.test, ext)
                if v is None:
                    _require(not any(id(m) in reads for m in ast.walk(n)), f"a read under a condition that is not understood: {_norm(n.test)}")
                    return 0
                return expr(n.body if v else n.orelse, ext)
            if isinstance(n, (ast.BoolOp, ast.Lambda, ast.ListComp, ast.SetComp, ast.DictComp, ast.GeneratorExp)):
                _require(not any(id(m) in reads for m in ast.walk(n)), f"a read that is not executed exactly once: {_norm(n)[:60]}")
                return 0
            return sum(expr(c, ext) for c in ast.iter_child_nodes(n))

        def block(stmts, ext):
            total = 0
            for s in stmts:
                if isinstance(s, ast.If):
                    v = flag(s.test, ext)
                    if v is None:
                        _require(not any(id(m) in reads for m in ast.walk(s)), f"a read under a condition that is not understood: {_norm(s.test)}")
                        continue
                    total += block(s.body if v else s.orelse, ext)
                elif isinstance(s, (ast.Assign, ast.AnnAssign, ast.AugAssign, ast.Expr)):
                    total += expr(s, ext)
                else:
                    _require(not any(id(m) in reads for m in ast.walk(s)), f"a read inside {_norm(s)[:60]}")
            return total

        loops = [s for s in f.body if isinstance(s, ast.For)]
        _require(len(loops) == 1 and _norm(loops[0].iter) == f"range({params[2]})" and not loops[0].orelse,
                 "one loop over range(num_to_read)")
        for s in f.body:
            _require(s is loops[0] or not any(id(m) in reads for m in ast.walk(s)), "a read outside the loop over the records")
        per = {ext: block(loops[0].body, ext) for ext in (True, False)}
        _require(per[True] == per[False], f"number of reads per record depends on extended: {per}")
        return f"Definition vlr_reads_per_record : Z := {per[True]}.\n"
    o.add("vlr_reads", vlr_reads)

    def open_las():
        lmod = parse(repo, "laspy/lib.py")
        f, _ = tail_inlined(lmod, find_func(lmod, "open_las"))      # `return _open_for_reading(source, closefd, ..)`: that helper's statements
        top = [s for s in f.body if isinstance(s, ast.If)]
        _require(len(top) == 1 and _norm(top[0].test) == "mode == 'r'", "open_las: mode == 'r' branch first")
        disp = _dispatch(lmod, [s for s in top[0].body if not isinstance(s, ast.Try)], "stream")
        _require(all(not pre for _, pre, _ in disp) and len(disp) == 3, "source normalisation chain")
        got = [(None if t is None else _norm(t), _norm(v)) for t, _, v in disp]
        _require(got[0] == ("isinstance(source, (str, Path))", "open(source, mode='rb', closefd=closefd)"),
                 f"path sources are opened in 'rb' mode: {got[0]}")
        _require(got[1] == ("isinstance(source, bytes)", "io.BytesIO(source)"), f"bytes sources are wrapped in a BytesIO: {got[1]}")
        _require(got[2] == (None, "source"), f"any other source is used as it is: {got[2]}")
        src = _norm(top[0])
        _require("return LasReader(stream, closefd=closefd, laz_backend=laz_backend, read_evlrs=read_evlrs, decompression_selection=decompression_selection)" in src,
                 "LasReader gets the stream and read_evlrs")
        rd = find_func(find_class(parse(repo, "laspy/lasreader.py"), "LasReader"), "__init__")
        _require("self.header = LasHeader.read_from(source, read_evlrs=read_evlrs)" in _norm(rd), "LasReader.__init__ reads the header with read_evlrs")
        _require(len([n for n in ast.walk(rd) if isinstance(n, ast.Call) and _norm(n.func).startswith("source.")]) == 0,
                 "LasReader.__init__ calls a method of source")
        return ('Definition source_normalisation : list (string * string) :=\n'
                '  [("path", "open rb"); ("bytes", "BytesIO"); ("other", "as is")]%string.\n')
    o.add("open_las", open_las)

    def _default_of(fn, name):
        a = fn.args
        pos = a.posonlyargs + a.args
        defs = dict(zip([x.arg for x in pos[len(pos) - len(a.defaults):]], a.defaults))
        for x, d in zip(a.kwonlyargs, a.kw_defaults):
            if d is not None:
                defs[x.arg] = d
        _require(name in defs, f"{fn.name}: parameter {name} has no default")
        d = defs[name]
        _require(isinstance(d, ast.Constant) and isinstance(d.value, bool), f"{fn.name}: the default of {name} is not a boolean constant: {_norm(d)}")
        return d.value

    def _never_rebound(fn, name):
        for n in ast.walk(fn):
            _require(not (isinstance(n, ast.Name) and n.id == name and isinstance(n.ctx, (ast.Store, ast.Del))), f"{fn.name} rebinds {name}")
            _require(not (isinstance(n, ast.arg) and n.arg == name and n is not next(x for x in fn.args.args + fn.args.kwonlyargs if x.arg == name)),
                     f"{fn.name}: {name} is shadowed")
            _require(not isinstance(n, (ast.Global, ast.Nonlocal)), f"{fn.name}: global/nonlocal")

    def open_defaults():
        """what read_evlrs is when the caller does not say: the same constant for every kind of source, by laspy.open,
        by laspy.read and by LasReader(...)"""
        lmod = parse(repo, "laspy/lib.py")
        f, _ = tail_inlined(lmod, find_func(lmod, "open_las"))
        d_open = _default_of(f, "read_evlrs")
        _never_rebound(f, "read_evlrs")
        rd = find_func(find_class(parse(repo, "laspy/lasreader.py"), "LasReader"), "__init__")
        d_reader = _default_of(rd, "read_evlrs")
        _never_rebound(rd, "read_evlrs")
        _require(d_open == d_reader, f"laspy.open defaults to read_evlrs={d_open}, LasReader to {d_reader}")
        r = find_func(lmod, "read_las")
        calls = _calls(r, "open_las")
        _require(len(calls) == 1 and [_norm(a) for a in calls[0].args] == ["source"]
                 and sorted((k.arg, _norm(k.value)) for k in calls[0].keywords)
                 == [("closefd", "closefd"), ("decompression_selection", "decompression_selection"), ("laz_backend", "laz_backend")],
                 "read_las opens the source with open_las(source, closefd=, laz_backend=, decompression_selection=) and nothing else")
        body = _strip_doc(r.body)
        _require(len(body) == 1 and isinstance(body[0], ast.With) and len(body[0].items) == 1 and body[0].items[0].context_expr is calls[0]
                 and _norm(body[0].items[0].optional_vars) == "reader" and [_norm(x) for x in body[0].body] == ["return reader.read()"],
                 "read_las is `with open_las(..) as reader: return reader.read()`")
        return f"Definition open_read_evlrs_default : bool := {'true' if d_open else 'false'}.\n"
    o.add("open_defaults", open_defaults)

    def read_points():
        rmod = parse(repo, "laspy/lasreader.py")
        f = find_func(find_class(rmod, "LasReader"), "read_points")
        # the source is reached through self.point_source.read_n_points(n) only: one call, nothing else of the source
        own = [_norm(n) for n in ast.walk(f) if isinstance(n, ast.Attribute) and _norm(n.value) == "self"
               and n.attr in ("point_source", "_point_source", "_source", "read_evlrs", "seek", "read")]
        _require(own == ["self.point_source"], f"read_points uses {own}")
        through = [_norm(n) for n in ast.walk(f) if isinstance(n, ast.Attribute) and _norm(n.value) == "self.point_source"]
        _require(through == ["self.point_source.read_n_points"] and len(_calls(f, "self.point_source.read_n_points")) == 1,
                 f"read_points uses {through} of the point source")
        src = _norm(f)
        # each piece in one of its equivalent spellings (a temporary for the bytes handed to from_buffer, a conditional expression
        # for the clamp, the augmented assignment spelled out)
        tmp = [ast.unparse(a.targets[0]) for a in ast.walk(f) if isinstance(a, ast.Assign) and len(a.targets) == 1
               and isinstance(a.targets[0], ast.Name) and _norm(a.value) == "self.point_source.read_n_points(n)"]
        for needed in (("points_left = self.header.point_count - self.points_read",), ("if points_left <= 0:",),
                       ("n = min(n, points_left)", "n = points_left if n < 0 else min(n, points_left)"),
                       ("record.PackedPointRecord.from_buffer(self.point_source.read_n_points(n), self.header.point_format)",)
                       + tuple(f"record.PackedPointRecord.from_buffer({t}, self.header.point_format)" for t in tmp),
                       ("self.points_read += n", "self.points_read = self.points_read + n")):
            _require(any(x in src for x in needed), f"read_points lacks `{needed[0]}`")
        it = find_func(find_class(rmod, "PointChunkIterator"), "__next__")

        def next_shape(body):
            """`v = self.reader.read_points(self.points_per_iteration)` followed by either branch order of the emptiness test"""
            body = _strip_doc(body)
            if len(body) != 3 or not isinstance(body[0], ast.Assign) or len(body[0].targets) != 1 or not isinstance(body[0].targets[0], ast.Name) \
                    or _norm(body[0].value) != "self.reader.read_points(self.points_per_iteration)" or not isinstance(body[1], ast.If) or body[1].orelse:
                return False
            v = body[0].targets[0].id
            t, inner, last = _norm(body[1].test), [_norm(x) for x in body[1].body], _norm(body[2])
            return (t == f"not {v}" and inner == ["raise StopIteration"] and last == f"return {v}") \
                or (t == v and inner == [f"return {v}"] and last == "raise StopIteration")
        _require(next_shape(it.body) or [_norm(x) for x in _strip_doc(it.body)] == ["points = self.reader.read_points(self.points_per_iteration)",
                                                             "if not points: raise StopIteration", "return points"]
                 or [_norm(x).replace("\n", " ") for x in _strip_doc(it.body)][0] == "points = self.reader.read_points(self.points_per_iteration)"
                 and len(_strip_doc(it.body)) == 3 and isinstance(it.body[-2], ast.If) and _norm(it.body[-2].test) == "not points"
                 and [_norm(x) for x in it.body[-2].body] == ["raise StopIteration"] and not it.body[-2].orelse and _norm(it.body[-1]) == "return points",
                 "PointChunkIterator.__next__: read_points(k), stop at the first empty record")
        return "Definition gen_read_points_shape : bool := true.\n"
    o.add("read_points", read_points)

    def reader_read():
        rmod = parse(repo, "laspy/lasreader.py")
        cls = find_class(rmod, "LasReader")
        f = find_func(cls, "read")
        body = [s for s in f.body if not (isinstance(s, ast.Expr) and isinstance(s.value, ast.Constant))]
        _require(_norm(body[0]) == "points = self.read_points(-1)", "read() starts with read_points(-1)")
        _require(len(body) == 4, f"read() has {len(body)} statements, 4 expected (points, shall_read_evlr, if, return)")
        _require(_norm(body[1]) == "shall_read_evlr = self.header.version.minor >= 4 and self.header.number_of_evlrs > 0 and (self.evlrs is None)",
                 "shall_read_evlr")
        i = body[2]
        _require(isinstance(i, ast.If) and _norm(i.test) == "shall_read_evlr", "if shall_read_evlr")
        inner = [s for s in i.body if isinstance(s, ast.If)]
        _require(len(inner) == 1 and _norm(inner[0].test) == ASK.format("self.point_source.source") and
                 [_norm(s) for s in inner[0].body] == ["self.read_evlrs()"], "seekable: self.read_evlrs()")
        comp = [s for s in inner[0].orelse if isinstance(s, ast.If)]
        _require(len(comp) == 1 and _norm(comp[0].test) == "self.header.are_points_compressed", "compressed switch in the sequential branch")
        seq = [s for s in comp[0].orelse if not (isinstance(s, ast.Expr) and isinstance(s.value, ast.Constant))]
        # the bytes between the last point and the first EVLR are read and dropped, then the EVLRs are read where the source stands:
        #   gap = <expression of the header>; while gap > 0: skipped = source.read(gap); if not skipped: break; gap -= len(skipped)
        _require(len(seq) == 3, f"sequential EVLR branch has {len(seq)} statements, 3 expected (gap, skipping loop, read_from)")
        g, w, rd = seq
        _require(isinstance(g, ast.Assign) and [_norm(t) for t in g.targets] == ["gap"], "gap = ..")
        names = {"self.header.start_of_first_evlr": "evstart", "self.header.offset_to_point_data": "offset",
                 "self.header.point_count": "count", "self.header.point_format.size": "psize"}

        def zexpr(n):
            if isinstance(n, ast.BinOp) and isinstance(n.op, (ast.Add, ast.Sub, ast.Mult)):
                return f"({zexpr(n.left)} {({ast.Add: '+', ast.Sub: '-', ast.Mult: '*'})[type(n.op)]} {zexpr(n.right)})"
            if isinstance(n, ast.Constant) and isinstance(n.value, int) and not isinstance(n.value, bool):
                return py2v.z(n.value)
            if _norm(n) in names:
                return names[_norm(n)]
            raise Untranslatable(f"gap before the EVLRs: `{_norm(n)}` is not a field of the header the model knows")
        gap = zexpr(g.value)
        _require(isinstance(w, ast.While) and _norm(w.test) == "gap > 0" and not w.orelse and len(w.body) == 3, "while gap > 0: three statements")
        a, b, c = w.body
        _require(_norm(a) == "skipped = self.point_source.source.read(gap)", "skipped = source.read(gap)")
        _require(isinstance(b, ast.If) and _norm(b.test) == "not skipped" and len(b.body) == 1 and isinstance(b.body[0], ast.Break) and not b.orelse,
                 "if not skipped: break")
        _require(_norm(c) == "gap -= len(skipped)", "gap -= len(skipped)")
        _require(_norm(rd) == "self.header.evlrs = VLRList.read_from(self.point_source.source, self.header.number_of_evlrs, extended=True)",
                 "sequential EVLR read once the gap is skipped")
        _require(len(i.orelse) == 1 and isinstance(i.orelse[0], ast.If)
                 and _norm(i.orelse[0].test) == "self.header.version.minor >= 4 and self.evlrs is None"
                 and [_norm(s) for s in i.orelse[0].body] == ["self.evlrs = VLRList()"] and not i.orelse[0].orelse,
                 "nothing to load on a 1.4 file: an empty list")
        _require(_norm(body[-1]) == "return LasData(header=deepcopy(self.header), points=points)",
                 "read() returns the records with (a copy of) the reader's header")
        re = find_func(cls, "read_evlrs")
        _require([_norm(s) for s in re.body] == ["self.header.read_evlrs(self._source)"], "LasReader.read_evlrs delegates to the header")
        cps = find_func(cls, "_create_point_source")
        s = _norm(cps)
        _require("if self.header.point_count > 0:" in s and "return UncompressedPointReader(source, self.header)" in s
                 and "return EmptyPointReader(source)" in s, "_create_point_source")
        return ("(* LasReader.read, source that cannot seek: the bytes to skip between the last point and the first EVLR *)\n"
                f"Definition gen_evlr_gap (evstart offset count psize : Z) : Z := {gap}.\n\n"
                "Definition gen_reader_read_shape : bool := true.\n")
    o.add("reader_read", reader_read)

    def point_readers():
        rmod = parse(repo, "laspy/lasreader.py")
        u = find_func(find_class(rmod, "UncompressedPointReader"), "read_n_points")
        tr = [s for s in u.body if isinstance(s, ast.Try)]
        _require(len(tr) == 1 and [_norm(s) for s in tr[0].body] == ["readinto = self.source.readinto"], "try: readinto = self.source.readinto")
        h = tr[0].handlers
        _require(len(h) == 1 and _norm(h[0].type) == "AttributeError"
                 and [_norm(s) for s in h[0].body] == ["data = bytearray(self.source.read(n * self.header.point_format.size))"], "no readinto: read(n * size)")
        want = ["data = bytearray(n * self.header.point_format.size)", "num_read = readinto(data)"]
        _require([_norm(s) for s in tr[0].orelse][:2] == want, "readinto a buffer of n * size bytes")
        _require("data = data[:num_read]" in _norm(tr[0].orelse[2]), "short readinto is cut")
        e = find_class(rmod, "EmptyPointReader")
        _require([_norm(s) for s in find_func(e, "read_n_points").body] == ["return bytearray()"], "EmptyPointReader.read_n_points")
        _require([_norm(s) for s in find_func(e, "source", decorator="property").body] == ["return self._source"], "EmptyPointReader.source")
        return "Definition gen_point_readers_shape : bool := true.\n"
    o.add("point_readers", point_readers)

    def reader_vlrs():
        """a LasReader leaves the VLRs of an UNCOMPRESSED file as LasHeader.read_from read them: in the class LasReader every mention of the
        header's VLR list (`...header.vlrs` / `...header._vlrs`) is in `_create_laz_backend` (reached from `_create_point_source` under
        `if self.header.are_points_compressed:` only) or inside the body of an `if` whose test is a conjunction with the conjunct
        `self.header.are_points_compressed`; and no other method of the header that could drop records is called"""
        rmod = parse(repo, "laspy/lasreader.py")
        cls = find_class(rmod, "LasReader")
        guard = "self.header.are_points_compressed"

        def guarded_nodes(fn):
            ok = set()
            for n in ast.walk(fn):
                if isinstance(n, ast.If):
                    t = n.test
                    conj = [_norm(v) for v in t.values] if isinstance(t, ast.BoolOp) and isinstance(t.op, ast.And) else [_norm(t)]
                    if guard in conj:
                        for b in n.body:
                            ok.update(id(m) for m in ast.walk(b))
            return ok
        for fn in [n for n in cls.body if isinstance(n, (ast.FunctionDef, ast.AsyncFunctionDef))]:
            ok = guarded_nodes(fn)
            for n in ast.walk(fn):
                if isinstance(n, ast.Attribute) and n.attr in ("vlrs", "_vlrs") and "header" in _norm(n.value):
                    _require(fn.name == "_create_laz_backend" or id(n) in ok,
                             f"LasReader.{fn.name} touches the VLRs of the header outside `if {guard} and ..`: {_norm(n)}")
                if isinstance(n, ast.Call) and isinstance(n.func, ast.Attribute) and _norm(n.func.value) in ("self.header", "header") \
                        and n.func.attr not in ("read_evlrs",):
                    raise Untranslatable(f"LasReader.{fn.name} calls a method of the header: {_norm(n.func)}")
        cps = find_func(cls, "_create_point_source")
        calls = [n for n in ast.walk(cps) if isinstance(n, ast.Call) and _norm(n.func) == "self._create_laz_backend"]
        ok = guarded_nodes(cps)
        _require(calls and all(id(c) in ok for c in calls), f"_create_laz_backend is called outside `if {guard}:`")
        others = [fn.name for fn in cls.body if isinstance(fn, ast.FunctionDef) and fn.name != "_create_point_source"
                  for n in ast.walk(fn) if isinstance(n, ast.Attribute) and n.attr == "_create_laz_backend"]
        _require(not others, f"_create_laz_backend is used by {others}")
        return ("(* LasReader touches the VLR list of the header only for files whose points are compressed (the laszip record is hidden);\n"
                "   the VLRs of an uncompressed file are what LasHeader.read_from read, with or without points *)\n"
                "Definition gen_reader_keeps_vlrs_uncompressed : bool := true.\n")
    o.add("reader_vlrs", reader_vlrs)

    def lasmmap():
        mmod = parse(repo, "laspy/lasmmap.py")
        f = find_func(find_class(mmod, "LasMMAP"), "__init__")
        s = _norm(f)
        for needed in ("header = LasHeader.read_from(m)", "m.seek(header.start_of_first_evlr, io.SEEK_SET)",
                       "header.evlrs = VLRList.read_from(m, header.number_of_evlrs, extended=True)", "header.evlrs = VLRList()",
                       "record.PackedPointRecord.from_buffer(m, header.point_format, count=header.point_count, offset=header.offset_to_point_data)",
                       "raise ValueError('Cannot mmap a compressed LAZ file')", "access=mmap.ACCESS_WRITE"):
            _require(needed in s, f"LasMMAP.__init__ lacks `{needed}`")
        pmod = parse(repo, "laspy/point/record.py")
        fb = find_func(find_class(pmod, "PackedPointRecord"), "from_buffer", decorator="classmethod")
        _require("data = np.frombuffer(buffer, dtype=points_dtype, offset=offset, count=count)" in _norm(fb), "from_buffer is np.frombuffer(offset, count)")
        return "Definition gen_mmap_shape : bool := true.\n"
    o.add("lasmmap", lasmmap)

    def record_assign():
        """record[name] = values writes INTO the array the record has (for a memory map: the mapped file); the array is
        replaced (by a longer copy) only when the value has more elements than the record"""
        pmod = parse(repo, "laspy/point/record.py")
        cls = find_class(pmod, "PackedPointRecord")
        g = find_func(cls, "_append_zeros_if_too_small")
        _require([_norm(x) for x in _strip_doc(g.body)] == ["if len(value) > len(self.array): self.resize(len(value))"]
                 or (len(_strip_doc(g.body)) == 1 and isinstance(_strip_doc(g.body)[0], ast.If)
                     and _norm(_strip_doc(g.body)[0].test) == "len(value) > len(self.array)"
                     and [_norm(x) for x in _strip_doc(g.body)[0].body] == ["self.resize(len(value))"] and not _strip_doc(g.body)[0].orelse),
                 "_append_zeros_if_too_small resizes only when the value is longer than the record")
        f = find_func(cls, "__setitem__")
        tr = [x for x in f.body if isinstance(x, ast.Try)]
        _require(len(tr) == 1 and len(tr[0].body) == 1 and isinstance(tr[0].body[0], ast.If) and _norm(tr[0].body[0].test) == "isinstance(key, str)"
                 and [_norm(x) for x in tr[0].body[0].body] == ["self[key][:] = value"] and [_norm(x) for x in tr[0].body[0].orelse] == ["self.array[key] = value"],
                 "record[name] = value is `self[name][:] = value` (in place)")
        before = [_norm(x) for x in f.body[f.body.index(tr[0]) - 2:f.body.index(tr[0])]]
        _require(before == ["previous_array = self.array", "self._append_zeros_if_too_small(value)"], f"before the assignment: {before}")
        stores = [_norm(n) for n in ast.walk(f) if isinstance(n, ast.Attribute) and _norm(n) == "self.array" and isinstance(n.ctx, ast.Store)]
        _require(len(stores) == 1, "__setitem__ rebinds self.array otherwise than to restore it after a refused assignment")
        return "Definition gen_record_assign_shape : bool := true.\n"
    o.add("record_assign", record_assign)
    return o


TARGETS = {"GenAccess.v": gen}
