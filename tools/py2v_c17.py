"""Translator plugin for property C17 (access paths): the constants of LasHeader._prefetch_header_data and the
call shapes of the code the hand-written stream model (coq/Model/Access.v) follows, read from the AST of
laspy/header.py, laspy/lib.py, laspy/lasreader.py, laspy/lasmmap.py -> coq/Gen/GenAccess.v.
Fail-closed: a statement that is not of the expected shape is an Untranslatable (the check then reports the
generated definition as missing and the obligations that use it no longer build)."""
import ast

import py2v
from py2v import Out, Untranslatable, find_class, find_func, parse


def _norm(node):
    return ast.unparse(node).replace("\n", " ")


def _int(node, env=None):
    """evaluate a tiny constant int expression (literals, +, names from env)"""
    if isinstance(node, ast.Constant) and isinstance(node.value, int) and not isinstance(node.value, bool):
        return node.value
    if isinstance(node, ast.BinOp) and isinstance(node.op, ast.Add):
        return _int(node.left, env) + _int(node.right, env)
    if isinstance(node, ast.Name) and env and node.id in env:
        return env[node.id]
    raise Untranslatable(f"not a constant int: {_norm(node)}")


def _calls(fn, text):
    """all ast.Call nodes of fn whose callee unparse equals text, in source order"""
    out = [n for n in ast.walk(fn) if isinstance(n, ast.Call) and _norm(n.func) == text]
    out.sort(key=lambda n: (n.lineno, n.col_offset))
    return out


def _require(cond, what):
    if not cond:
        raise Untranslatable(what)


def gen(repo):
    o = Out("laspy/header.py LasHeader._prefetch_header_data / read_evlrs / read_from, laspy/lib.py open_las, "
            "laspy/lasreader.py LasReader.read / _create_point_source, UncompressedPointReader.read_n_points, "
            "laspy/lasmmap.py LasMMAP.__init__")
    hmod = parse(repo, "laspy/header.py")
    hcls = find_class(hmod, "LasHeader")

    def header_sizes():
        for n in hmod.body:
            if isinstance(n, ast.Assign) and _norm(n.targets[0]) == "LAS_HEADERS_SIZE" and isinstance(n.value, ast.Dict):
                return {k.value: _int(v) for k, v in zip(n.value.keys, n.value.values)}
        raise Untranslatable("LAS_HEADERS_SIZE dict literal not found")

    def prefetch():
        f = find_func(hcls, "_prefetch_header_data", decorator="staticmethod")
        _require([a.arg for a in f.args.args] == ["source"], "_prefetch_header_data(source)")
        reads = _calls(f, "source.read")
        _require(len(reads) == 2, f"_prefetch_header_data makes {len(reads)} source.read calls, expected 2")
        _require(not [n for n in ast.walk(f) if isinstance(n, ast.Call) and _norm(n.func).startswith("source.")
                      and _norm(n.func) != "source.read"], "_prefetch_header_data calls something else than source.read")
        body = [s for s in f.body if not (isinstance(s, ast.Expr) and isinstance(s.value, ast.Constant))]
        # header_bytes = source.read(LAS_HEADERS_SIZE['1.1'])
        s0 = body[0]
        _require(isinstance(s0, ast.Assign) and _norm(s0.targets[0]) == "header_bytes" and s0.value is reads[0],
                 "first statement is not header_bytes = source.read(..)")
        arg = reads[0].args[0]
        _require(isinstance(arg, ast.Subscript) and _norm(arg.value) == "LAS_HEADERS_SIZE"
                 and isinstance(arg.slice, ast.Constant), "first read size is not LAS_HEADERS_SIZE[<version>]")
        first = header_sizes()[arg.slice.value]
        src = _norm(f)
        for needed in ("file_sig = header_bytes[:len(LAS_FILE_SIGNATURE)]", "if not file_sig:", "if file_sig != LAS_FILE_SIGNATURE:",
                       f"if len(header_bytes) < {_norm(arg)}:", "return header_bytes + rest"):
            _require(needed in src, f"_prefetch_header_data lacks `{needed}`")
        # offset_to_data = int.from_bytes(header_bytes[96:96 + 4], byteorder='little', signed=False)
        off = [s for s in body if isinstance(s, ast.Assign) and _norm(s.targets[0]) == "offset_to_data"]
        _require(len(off) == 1 and isinstance(off[0].value, ast.Call) and _norm(off[0].value.func) == "int.from_bytes",
                 "offset_to_data = int.from_bytes(..)")
        call = off[0].value
        kw = {k.arg: _norm(k.value) for k in call.keywords}
        _require(kw == {"byteorder": "'little'", "signed": "False"}, f"from_bytes keywords {kw}")
        sl = call.args[0]
        _require(isinstance(sl, ast.Subscript) and _norm(sl.value) == "header_bytes" and isinstance(sl.slice, ast.Slice)
                 and sl.slice.step is None, "offset slice of header_bytes")
        lo, hi = _int(sl.slice.lower), _int(sl.slice.upper)
        _require(0 <= lo < hi <= first, "offset slice bounds")
        # rest = source.read(offset_to_data - len(header_bytes))
        _require(_norm(reads[1]) == "source.read(offset_to_data - len(header_bytes))", "second read is not the rest of the header")
        sig = [n for n in hmod.body if isinstance(n, ast.Assign) and _norm(n.targets[0]) == "LAS_FILE_SIGNATURE"]
        _require(len(sig) == 1 and isinstance(sig[0].value, ast.Constant) and isinstance(sig[0].value.value, bytes), "LAS_FILE_SIGNATURE")
        sigb = "; ".join(str(b) for b in sig[0].value.value)
        return (f"Definition prefetch_first_read : Z := {first}.\n"
                f"Definition prefetch_offset_pos : Z := {lo}.\n"
                f"Definition prefetch_offset_width : Z := {hi - lo}.\n"
                f"Definition prefetch_reads : Z := {len(reads)}.\n"
                f"Definition file_signature : list Z := [{sigb}].\n")
    o.add("prefetch", prefetch)

    def hdr_read_evlrs():
        f = find_func(hcls, "read_evlrs")
        _require([a.arg for a in f.args.args] == ["self", "stream"], "read_evlrs(self, stream)")
        body = [s for s in f.body if not (isinstance(s, ast.Expr) and isinstance(s.value, ast.Constant))]
        _require(len(body) == 1 and isinstance(body[0], ast.If) and _norm(body[0].test) == "self.version.minor >= 4", "outer version test")
        top = body[0]
        _require(_norm(top.orelse[0]) == "self.evlrs = None" and len(top.orelse) == 1, "below 1.4: evlrs = None")
        i1 = top.body[0]
        _require(len(top.body) == 1 and isinstance(i1, ast.If) and _norm(i1.test) == "self.number_of_evlrs > 0 and stream.seekable()", "seekable branch test")
        want = ["saved_pos = stream.tell()", "stream.seek(self.start_of_first_evlr, io.SEEK_SET)",
                "self.evlrs = VLRList.read_from(stream, self.number_of_evlrs, extended=True)", "stream.seek(saved_pos)"]
        _require([_norm(s) for s in i1.body] == want, f"seekable branch body {[_norm(s) for s in i1.body]}")
        i2 = i1.orelse[0]
        _require(len(i1.orelse) == 1 and isinstance(i2, ast.If) and _norm(i2.test) == "self.number_of_evlrs > 0 and (not stream.seekable())"
                 and [_norm(s) for s in i2.body] == ["self.evlrs = None"], "non seekable branch")
        _require([_norm(s) for s in i2.orelse] == ["self.evlrs = VLRList()"], "no EVLR branch")
        return "Definition gen_hdr_read_evlrs_shape : bool := true.\n"
    o.add("hdr_read_evlrs", hdr_read_evlrs)

    def read_from():
        f = find_func(hcls, "read_from", decorator="classmethod")
        src = _norm(f)
        _require("stream = io.BytesIO(cls._prefetch_header_data(original_stream))" in src, "read_from parses a BytesIO of the prefetched bytes")
        uses = [n for n in ast.walk(f) if isinstance(n, ast.Name) and n.id == "original_stream"]
        _require(len(uses) == 2, f"original_stream is used {len(uses)} times in read_from (prefetch and read_evlrs expected)")
        tail = f.body[-2]
        _require(isinstance(tail, ast.If) and _norm(tail.test) == "read_evlrs" and _norm(tail.body[0]) == "header.read_evlrs(original_stream)",
                 "read_from ends with `if read_evlrs: header.read_evlrs(original_stream)`")
        init = find_func(hcls, "__init__")
        _require("self.evlrs: Optional[VLRList] = None" in _norm(init), "a new header has evlrs = None")
        return "Definition gen_read_from_shape : bool := true.\n"
    o.add("read_from", read_from)

    def vlr_reads():
        vmod = parse(repo, "laspy/vlrs/vlrlist.py")
        f = find_func(find_class(vmod, "VLRList"), "read_from", decorator="classmethod")
        direct = len(_calls(f, "data_stream.read"))
        strings = len([n for n in _calls(f, "read_string") if _norm(n.args[0]) == "data_stream"])
        others = [n for n in ast.walk(f) if isinstance(n, ast.Call) and isinstance(n.func, ast.Attribute)
                  and _norm(n.func.value) == "data_stream" and n.func.attr != "read"]
        _require(not others, "VLRList.read_from calls something else than data_stream.read")
        # two of the direct reads are alternatives (record length, extended or not): one is executed
        _require("if extended:" in _norm(f), "extended switch")
        return f"Definition vlr_reads_per_record : Z := {direct - 1 + strings}.\n"
    o.add("vlr_reads", vlr_reads)

    def open_las():
        lmod = parse(repo, "laspy/lib.py")
        f = find_func(lmod, "open_las")
        top = [s for s in f.body if isinstance(s, ast.If)]
        _require(len(top) == 1 and _norm(top[0].test) == "mode == 'r'", "open_las: mode == 'r' branch first")
        ifs = [s for s in top[0].body if isinstance(s, ast.If) and "isinstance(source" in _norm(s.test)]
        _require(len(ifs) == 1, "source normalisation chain")
        a = ifs[0]
        _require(_norm(a.test) == "isinstance(source, (str, Path))" and _norm(a.body[0]) == "stream = open(source, mode='rb', closefd=closefd)",
                 "path sources are opened in 'rb' mode")
        b = a.orelse[0]
        _require(isinstance(b, ast.If) and _norm(b.test) == "isinstance(source, bytes)" and _norm(b.body[0]) == "stream = io.BytesIO(source)",
                 "bytes sources are wrapped in a BytesIO")
        _require([_norm(s) for s in b.orelse] == ["stream = source"], "any other source is used as it is")
        src = _norm(top[0])
        _require("return LasReader(stream, closefd=closefd, laz_backend=laz_backend, read_evlrs=read_evlrs, decompression_selection=decompression_selection)" in src,
                 "LasReader gets the stream and read_evlrs")
        rd = find_func(find_class(parse(repo, "laspy/lasreader.py"), "LasReader"), "__init__")
        _require("self.header = LasHeader.read_from(source, read_evlrs=read_evlrs)" in _norm(rd), "LasReader.__init__ reads the header with read_evlrs")
        _require(len([n for n in ast.walk(rd) if isinstance(n, ast.Call) and _norm(n.func).startswith("source.")]) == 0,
                 "LasReader.__init__ calls a method of source")
        return ('Definition source_normalisation : list (string * string) :=\n'
                '  [("path", "open rb"); ("bytes", "BytesIO"); ("other", "as is")]%string.\n')
    o.add("open_las", open_las)

    def reader_read():
        rmod = parse(repo, "laspy/lasreader.py")
        cls = find_class(rmod, "LasReader")
        f = find_func(cls, "read")
        body = [s for s in f.body if not (isinstance(s, ast.Expr) and isinstance(s.value, ast.Constant))]
        _require(_norm(body[0]) == "points = self.read_points(-1)", "read() starts with read_points(-1)")
        _require(_norm(body[2]) == "shall_read_evlr = self.header.version.minor >= 4 and self.header.number_of_evlrs > 0 and (self.evlrs is None)",
                 "shall_read_evlr")
        i = body[3]
        _require(isinstance(i, ast.If) and _norm(i.test) == "shall_read_evlr", "if shall_read_evlr")
        inner = [s for s in i.body if isinstance(s, ast.If)]
        _require(len(inner) == 1 and _norm(inner[0].test) == "self.point_source.source.seekable()" and
                 [_norm(s) for s in inner[0].body] == ["self.read_evlrs()"], "seekable: self.read_evlrs()")
        comp = [s for s in inner[0].orelse if isinstance(s, ast.If)]
        _require(len(comp) == 1 and _norm(comp[0].test) == "self.header.are_points_compressed", "compressed switch in the sequential branch")
        seq = [s for s in comp[0].orelse if not (isinstance(s, ast.Expr) and isinstance(s.value, ast.Constant))]
        _require([_norm(s) for s in seq] == ["self.header.evlrs = VLRList.read_from(self.point_source.source, self.header.number_of_evlrs, extended=True)"],
                 "sequential EVLR read right after the last point")
        _require(len(i.orelse) == 1 and isinstance(i.orelse[0], ast.If)
                 and _norm(i.orelse[0].test) == "self.header.version.minor >= 4 and self.evlrs is None"
                 and [_norm(s) for s in i.orelse[0].body] == ["self.evlrs = VLRList()"] and not i.orelse[0].orelse,
                 "nothing to load on a 1.4 file: an empty list")
        _require(_norm(body[-1]) == "return las_data", "read() returns las_data")
        re = find_func(cls, "read_evlrs")
        _require([_norm(s) for s in re.body] == ["self.header.read_evlrs(self._source)"], "LasReader.read_evlrs delegates to the header")
        cps = find_func(cls, "_create_point_source")
        s = _norm(cps)
        _require("if self.header.point_count > 0:" in s and "return UncompressedPointReader(source, self.header)" in s
                 and "return EmptyPointReader(source)" in s, "_create_point_source")
        return "Definition gen_reader_read_shape : bool := true.\n"
    o.add("reader_read", reader_read)

    def point_readers():
        rmod = parse(repo, "laspy/lasreader.py")
        u = find_func(find_class(rmod, "UncompressedPointReader"), "read_n_points")
        tr = [s for s in u.body if isinstance(s, ast.Try)]
        _require(len(tr) == 1 and [_norm(s) for s in tr[0].body] == ["readinto = self.source.readinto"], "try: readinto = self.source.readinto")
        h = tr[0].handlers
        _require(len(h) == 1 and _norm(h[0].type) == "AttributeError"
                 and [_norm(s) for s in h[0].body] == ["data = bytearray(self.source.read(n * self.header.point_format.size))"], "no readinto: read(n * size)")
        want = ["data = bytearray(n * self.header.point_format.size)", "num_read = readinto(data)"]
        _require([_norm(s) for s in tr[0].orelse][:2] == want, "readinto a buffer of n * size bytes")
        _require("data = data[:num_read]" in _norm(tr[0].orelse[2]), "short readinto is cut")
        e = find_class(rmod, "EmptyPointReader")
        _require([_norm(s) for s in find_func(e, "read_n_points").body] == ["return bytearray()"], "EmptyPointReader.read_n_points")
        _require([_norm(s) for s in find_func(e, "source", decorator="property").body] == ["return self._source"], "EmptyPointReader.source")
        return "Definition gen_point_readers_shape : bool := true.\n"
    o.add("point_readers", point_readers)

    def lasmmap():
        mmod = parse(repo, "laspy/lasmmap.py")
        f = find_func(find_class(mmod, "LasMMAP"), "__init__")
        s = _norm(f)
        for needed in ("header = LasHeader.read_from(m)", "m.seek(header.start_of_first_evlr, io.SEEK_SET)",
                       "header.evlrs = VLRList.read_from(m, header.number_of_evlrs, extended=True)", "header.evlrs = VLRList()",
                       "record.PackedPointRecord.from_buffer(m, header.point_format, count=header.point_count, offset=header.offset_to_point_data)",
                       "raise ValueError('Cannot mmap a compressed LAZ file')", "access=mmap.ACCESS_WRITE"):
            _require(needed in s, f"LasMMAP.__init__ lacks `{needed}`")
        pmod = parse(repo, "laspy/point/record.py")
        fb = find_func(find_class(pmod, "PackedPointRecord"), "from_buffer", decorator="classmethod")
        _require("data = np.frombuffer(buffer, dtype=points_dtype, offset=offset, count=count)" in _norm(fb), "from_buffer is np.frombuffer(offset, count)")
        return "Definition gen_mmap_shape : bool := true.\n"
    o.add("lasmmap", lasmmap)
    return o


TARGETS = {"GenAccess.v": gen}
