# exec'd by tools/mkmanifest.py: per property, what rounds 3 and 4 of the blind-mutant loop added (appended to the claim text)
ADDED = {
 "C01": "Rounds 3-4: an aliasing model (Model/DataAlias.v: a heap of header and point-format objects, LasData objects holding addresses) with a separation "
        "invariant - an operation on one live object leaves every other one and the file it writes unchanged, a derived object (las[...], convert, read) is a "
        "copy, a chunked stream equals the one-shot file of the header AS IT WAS AT OPEN; harness: several live LasData derived from each other with a "
        "structural sharing probe (np.shares_memory / object identity) whose findings are perturbed through the caller and judged by round trip.",
 "C02": "Rounds 3-4: Model/RecordPlace.v - record i is the bytes at offset + i x length whatever follows the records, the appender's start position "
        "(translated from LasAppender.__init__) is offset + n x length, appended record j is record n+j, in-place (mmap) edits change only that record; a "
        "'session' direction runs the independent decoder on files produced by every writing route (LasData.write, chunked LasWriter, LasAppender on "
        "originals with trailing bytes / waveform packets / gaps, mmap edits, reader-to-writer copy); caller-owned descriptor arrays re-used after the call.",
 "C03": "Rounds 3-4: the binary64 formula X*scale+offset is now INSIDE the model (Model/F64Bits.v: IEEE-754 bit codec over the Gallina round-to-nearest-even "
        "binary64 of C11; ap64) and ap_ok is PROVED for it on the domain good_scaling (positive finite scale, finite offset, finite images of the int32 ends): "
        "C03_extrema_binary64 / C03_grow_app_binary64 state the extrema theorems for ap64 without the ap_ok hypothesis (refuted outside the domain by witnesses); "
        "ap64 is compared bit for bit with numpy and with the mins/maxs LasHeader.grow/update produce on every run. Model/LasMulti.v: for ANY interleaving of "
        "the operations of several writers built from ONE header object each writer ends in the state its own operations lead to (C03_interleave, "
        "C03_ensemble); harness ensembles of 2-4 writers / appenders / LasData sharing a header object and records; every (version, format) pair with return "
        "numbers over the whole storable range; statistics recomputed from the raw bytes.",
 "C06": "Rounds 3-4: faulted append sessions (Proofs/FaultAppendProofs.v: C06_faulted_append - a chunk whose low-level write stored nothing is not counted and "
        "the next write goes to the same position, so the session's file is the file of the accepted chunks); C06_append_equiv_binary64 (the theorem for the "
        "binary64 formula ap64, no ap_ok hypothesis); oracle lasio.raw_stats_problems recomputes count, extrema bit patterns, 5/15-bin histogram, EVLR pointer "
        "and the length equation straight from the bytes (the one-shot writer shares the header code, so equality with it is not enough); originals with "
        "non-ASCII header strings / VLR / EVLR descriptions under strict and lenient encoding_errors; originals with unused bytes before their EVLRs.",
 "C19": "Rounds 3-4: fault sequences beyond plain crashes (Proofs/FaultProofs.v, FaultAppendProofs.v: C19_fault_safe, C19_fault_final, "
        "C19_fault_safe_append) - sessions in which chunk writes FAIL (nothing stored: the session goes on in any way; torn: only close/__exit__ follows): every "
        "crash image including the final file is refused or read as a prefix of the ACCEPTED points; every read runs under a timer (non-termination is a "
        "failing input); all truncation lengths 0 .. offset_to_point_data + 2 records and the last 2 records .. end for files WITH VLRs of every version.",
 "C04": "Rounds 3-4: Model/WriterAlias.v - the writer holds its OWN header values taken at open, the caller's world (header fields, VLR list, a heap of "
        "format objects) is edited between the operations: caller edits are irrelevant to the file, refusals leave no trace, a mutated format OBJECT is "
        "refused like a different one, an equal format VALUE is accepted, a with-block left by an exception writes the file of the accepted calls; harness: "
        "sessions through every entry point interleaved with ~40 in-place/re-binding edits of the caller's objects, judged against deepcopy(header) at open.",
 "C05": "Round 4: Model/CursorBytes.v - with stride = the header's record length every call returns exactly the bytes of the records the cursor names "
        "(C05_bytes, C05_bytes_bounds) and any other stride already fails on the first read of two records (C05_stride_necessary); the reference point "
        "array is cut from the raw bytes by struct parsing; foreign files by byte surgery (undocumented extra bytes, VLR documenting fewer / all / none).",
 "C07": "Round 4: Model/HeaderObj.v - the auxiliary state a header object carries (EVLR list vs counter, VLR list, attached points, origin) never reaches "
        "the bytes: every field is written from its own value (C07_aux_state_irrelevant, C07_field_own_value, C07_field_independent); a struct parser at the "
        "ASPRS offsets judges written bytes field by field; ten file-API scenarios (chunked copy with/without write_evlrs, appender, convert ...).",
 "C08": "Rounds 3-4: read_file_from (forward-only source) and append_file in Model/Known.v - any bytes between points and EVLRs or behind them still read "
        "back both lists, forward-only and seeking sources agree at any start position, an append session leaves exactly the file LasWriter would write for "
        "the list held at close; 23 reading routes x 13 writing routes + convert + append sessions that edit only the EVLR list.",
 "C09": "Rounds 3-4: a record model (Model/SubFieldRec.v): chains of slices of views, whole-dimension assignment with growth/broadcast, copy_fields_from onto "
        "any prior content, and WORLDS of several live objects that are views or copies of each other (chunks of one reader, selections, mmap, copies): an "
        "assignment on A changes B exactly where B views the addressed points and nowhere else (C09_world_*).",
 "C11": "Rounds 3-4: open writer/appender sessions interleaved with in-place and replacing edits of the caller's header and record scaling (the file carries "
        "what the writer's OWN arrays held at open: C11_session_*), assigned values that are views of the same or another record on the same/other grid "
        "(C11_assign_view_value, C11_view_grid), and the composed binary64 bound is now PROVED over the Gallina binary64 model: |present(store v) - v| <= s/2 + "
        "2^-53(3|v-o| + 7|X|s + |o|) + 5(1+s)2^-1075 (C11_roundtrip_float_bound, C11_store_float_bound).",
 "C13": "Rounds 3-4: selections (numpy index rule, IndexError atomic) and a WORLD of live objects (current LasData + others created by las[...], copies, "
        "readers, writers): every live object satisfies the invariant after any world history and an add/remove on one leaves the others untouched "
        "(C13_all_live_objects, C13_other_objects_untouched); names re-used with twin element types of equal size; every written file parsed with struct.",
 "C15": "Round 4: box bounds generated AT and AROUND grid steps in the float sense ((k+f)*scale+offset for f near 0, 0.5, 1; quotients landing just below "
        "an integer; three ways of writing the bound, +-2 ulps) with stored points exactly on the neighbouring steps, judged by the exact half-step oracle.",
 "C16": "Round 4: the HTTP double sits UNDER laspy's own transport code (requests_retry_session, Session, adapter, urllib3 pool and Retry all run); a model of "
        "the retry policy and of what the transport keeps between sends (extracted: gen_retry, gen_transport_kept = nothing): attempts bounded, transient "
        "faults masked, exhausted retries raise, no history of sends blocks a later one (C16_transport_*, C16_history_*; a slot pool that leaks on exceptions "
        "is refuted by a witness); histories of > 32 .. 4096 transport failures followed by healthy queries, each in a fresh interpreter.",
 "C18": "Rounds 3-4: stream FAULTS in the model and harness - the k-th read/readinto/seek/tell/write/flush/truncate of a session raises (eleven exception "
        "classes, once or from then on) in open, body operations, close/__exit__, laspy.read, LasData.write: closed <-> closefd at every moment laspy lets go "
        "of the stream (C18_open_fault, C18_op_fault_*, C18_close_fault, C18_read_las_fault); static obligation that only open_las/read_las/close/__exit__ "
        "close a stream (gen_only_close_closes); closefd left out / positional / through each constructor.",
 "C20": "Round 4: Model/GlobalEncPy.v - the assigned OBJECT ranges over every representation (Python bool/int, GpsTimeType, numpy bool_/int8..uint64, 0-d "
        "arrays, truthy values with zero low bits): read-back, other bits and the field staying a plain int (C20_flag_any_value, C20_value_representation, "
        "C20_history_any_values); header write/read after every assignment.",
}
