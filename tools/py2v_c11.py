"""py2v plugin for C11: the arithmetic shapes of coordinate scaling -> coq/Gen/GenScaling.v.

What is regenerated from the source on every run (fail closed: a construct that is not understood
omits the definition, and every theorem about it stops compiling):

 * `ScaledArrayView._apply_scale/_remove_scale` (dims.py) and `scale_dimension/unscale_dimension`
   (record.py) as terms over an abstract arithmetic (add sub mul div round) - the model instantiates
   them with exact rationals and with binary64;
 * the range tests guarding the float -> int32 stores of `ScaledArrayView.__setitem__` and
   `apply_new_scaling` (the condition of `if not np.all(<cond>): raise OverflowError`), as a boolean
   over Z, together with the checks that the tested value is the one stored, and that the test comes
   before the store;
 * which scale/offset index each of x, y, z uses in `ScaleAwarePointRecord.__getitem__` and in
   `apply_new_scaling`;
 * whether `LasData.__setattr__` (x, y, z) and the `LasData.xyz` setter make the record take the header's scale/offset
   arrays before storing, and the axis order of the xyz setter;
 * the limits of the integer type the coordinates are stored in (running module);
 * the binary operators of the scaled views (`ArrayView.__add__/__sub__/__mul__/__truediv__`) as arithmetic terms, and that no
   in-place operator is defined on them (`las.x += d` is `las.x = las.x + d`).
"""
import ast
import importlib
import sys

import py2v
from py2v import Untranslatable

BIN = {ast.Add: "add", ast.Sub: "sub", ast.Mult: "mul", ast.Div: "div"}
IDENT_CALLS = {"np.array", "np.asarray", "numpy.array", "numpy.asarray"}
ROUND_CALLS = {"np.round", "numpy.round", "np.rint", "numpy.rint", "np.around"}


def arith(e, names):
    """Python arithmetic expression -> Gallina term over (add sub mul div round); names: python text -> Gallina name."""
    txt = ast.unparse(e)
    if txt in names:
        return names[txt]
    if isinstance(e, ast.BinOp) and type(e.op) in BIN:
        return f"({BIN[type(e.op)]} {arith(e.left, names)} {arith(e.right, names)})"
    if isinstance(e, ast.Call) and not e.keywords and len(e.args) == 1:
        f = ast.unparse(e.func)
        if f in IDENT_CALLS:
            return arith(e.args[0], names)
        if f in ROUND_CALLS:
            return f"(round {arith(e.args[0], names)})"
    raise Untranslatable(f"arithmetic expression {txt}")


def single_return(fn):
    body = [s for s in fn.body if not (isinstance(s, ast.Expr) and isinstance(s.value, ast.Constant))]
    if len(body) != 1 or not isinstance(body[0], ast.Return):
        raise Untranslatable(f"{fn.name}: body is not a single return")
    return body[0].value


CMP = {ast.GtE: ">=?", ast.LtE: "<=?", ast.Gt: ">?", ast.Lt: "<?"}


def cond(e, names):
    """boolean condition over Z: comparisons joined by & / and"""
    if isinstance(e, ast.BinOp) and isinstance(e.op, ast.BitAnd):
        return f"({cond(e.left, names)} && {cond(e.right, names)})"
    if isinstance(e, ast.BoolOp) and isinstance(e.op, ast.And):
        return "(" + " && ".join(cond(v, names) for v in e.values) + ")"
    if isinstance(e, ast.Compare) and len(e.ops) == 1 and type(e.ops[0]) in CMP:
        l, r = ast.unparse(e.left), ast.unparse(e.comparators[0])
        if l in names and r in names:
            return f"({names[l]} {CMP[type(e.ops[0])]} {names[r]})"
    raise Untranslatable(f"range condition {ast.unparse(e)}")


def overflow_guard(stmts, var):
    """index and condition of `if not np.all(<cond>): raise OverflowError(...)` in a statement list"""
    for i, s in enumerate(stmts):
        if (isinstance(s, ast.If) and isinstance(s.test, ast.UnaryOp) and isinstance(s.test.op, ast.Not)
                and isinstance(s.test.operand, ast.Call) and ast.unparse(s.test.operand.func) in ("np.all", "numpy.all")
                and len(s.test.operand.args) == 1 and not s.orelse
                and len(s.body) == 1 and isinstance(s.body[0], ast.Raise)
                and isinstance(s.body[0].exc, ast.Call) and ast.unparse(s.body[0].exc.func) == "OverflowError"):
            return i, s.test.operand.args[0]
    raise Untranslatable(f"no `if not np.all(...): raise OverflowError` guarding {var}")


def flat(stmts):
    """statements with `with` blocks opened (they only set numpy's error state)"""
    out = []
    for s in stmts:
        if isinstance(s, ast.With):
            out.extend(flat(s.body))
        else:
            out.append(s)
    return out


def const_seq(e):
    """a tuple / list display of constants -> their values, else None"""
    if isinstance(e, (ast.Tuple, ast.List)) and all(isinstance(x, ast.Constant) for x in e.elts):
        return [x.value for x in e.elts]
    return None


class _Subst(ast.NodeTransformer):
    """loop variables replaced by the constants they take; then `getattr(obj, 'name')` is `obj.name` and a constant index into a
    display of constants is the constant"""

    def __init__(self, env):
        self.env = env

    def visit_Name(self, node):
        if isinstance(node.ctx, ast.Load) and node.id in self.env:
            return ast.copy_location(ast.Constant(self.env[node.id]), node)
        if node.id in self.env:
            raise Untranslatable(f"comprehension variable {node.id} is assigned inside the element")
        return node

    def visit_Call(self, node):
        self.generic_visit(node)
        if (isinstance(node.func, ast.Name) and node.func.id == "getattr" and len(node.args) == 2 and not node.keywords
                and isinstance(node.args[1], ast.Constant) and isinstance(node.args[1].value, str) and node.args[1].value.isidentifier()):
            return ast.copy_location(ast.Attribute(value=node.args[0], attr=node.args[1].value, ctx=ast.Load()), node)
        return node

    def visit_Subscript(self, node):
        self.generic_visit(node)
        seq = const_seq(node.value)
        if seq is not None and isinstance(node.slice, ast.Constant) and isinstance(node.slice.value, int) and 0 <= node.slice.value < len(seq):
            return ast.copy_location(ast.Constant(seq[node.slice.value]), node)
        return node


def unroll(comp):
    """the elements of a list comprehension with ONE generator over constants - a display of constants, enumerate(display),
    zip(display, ...), range(n) - and no condition, written out (the element expression with the loop variables substituted).
    Anything else is not understood."""
    import copy
    if not (isinstance(comp, ast.ListComp) and len(comp.generators) == 1):
        raise Untranslatable(f"not a comprehension with one generator: {ast.unparse(comp)[:80]}")
    g = comp.generators[0]
    if g.ifs or g.is_async:
        raise Untranslatable("comprehension with a condition")
    it = g.iter
    rows = None
    seq = const_seq(it)
    if seq is not None:
        rows = [(v,) for v in seq]
    elif isinstance(it, ast.Call) and isinstance(it.func, ast.Name) and not it.keywords:
        args = [const_seq(a) for a in it.args]
        if it.func.id == "enumerate" and len(args) == 1 and args[0] is not None:
            rows = list(enumerate(args[0]))
        elif it.func.id == "zip" and args and all(a is not None for a in args) and len({len(a) for a in args}) == 1:
            rows = list(zip(*args))
        elif it.func.id == "range" and len(it.args) == 1 and isinstance(it.args[0], ast.Constant) and isinstance(it.args[0].value, int):
            rows = [(i,) for i in range(it.args[0].value)]
    if rows is None or len(rows) > 16:
        raise Untranslatable(f"comprehension over {ast.unparse(it)[:60]}")
    if isinstance(g.target, ast.Name):
        names = [g.target.id]
        rows = [r if len(r) == 1 else (r,) for r in rows]
    elif isinstance(g.target, ast.Tuple) and all(isinstance(e, ast.Name) for e in g.target.elts):
        names = [e.id for e in g.target.elts]
    else:
        raise Untranslatable(f"comprehension target {ast.unparse(g.target)}")
    out = []
    for r in rows:
        if len(r) != len(names) or not all(isinstance(v, (int, str)) for v in r):
            raise Untranslatable("comprehension rows do not match its target")
        out.append(ast.fix_missing_locations(_Subst(dict(zip(names, r))).visit(copy.deepcopy(comp.elt))))
    return out


def gen_scaling(repo):
    o = py2v.Out("laspy/point/dims.py (ScaledArrayView), laspy/point/record.py (scale/unscale_dimension, apply_new_scaling, "
                 "ScaleAwarePointRecord.__getitem__), numpy limits of the running module")
    dims = py2v.parse(repo, "laspy/point/dims.py")
    rec = py2v.parse(repo, "laspy/point/record.py")
    o.text += ("Section GenScaling.\nContext {T R : Type} (add sub mul div : T -> T -> T) (round : T -> R).\n\n")

    def view_fn(pyname, gname):
        def t():
            cls = py2v.find_class(dims, "ScaledArrayView")
            fn = py2v.find_func(cls, pyname)
            if [a.arg for a in fn.args.args] != ["self", "value"]:
                raise Untranslatable(f"{pyname} parameters")
            term = arith(single_return(fn), {"value": "value", "self.scale": "scale", "self.offset": "offset"})
            return f"(* ScaledArrayView.{pyname} *)\nDefinition {gname} (value scale offset : T) := {term}.\n"
        return t
    o.add("_apply_scale", view_fn("_apply_scale", "gen_apply_scale"))
    o.add("_remove_scale", view_fn("_remove_scale", "gen_remove_scale"))

    def rec_fn(pyname, gname):
        def t():
            fn = py2v.find_func(rec, pyname)
            if [a.arg for a in fn.args.args] != ["array_dim", "scale", "offset"]:
                raise Untranslatable(f"{pyname} parameters")
            term = arith(single_return(fn), {"array_dim": "value", "scale": "scale", "offset": "offset"})
            return f"(* record.{pyname} *)\nDefinition {gname} (value scale offset : T) := {term}.\n"
        return t
    o.add("scale_dimension", rec_fn("scale_dimension", "gen_scale_dimension"))
    o.add("unscale_dimension", rec_fn("unscale_dimension", "gen_unscale_dimension"))

    def setitem_unscaled():
        cls = py2v.find_class(dims, "ScaledArrayView")
        fn = py2v.find_func(cls, "__setitem__")
        stmts = flat(fn.body)
        # the one-dimensional path: the `else` branch of the multi-element test assigns unscaled
        found = None
        for s in stmts:
            if isinstance(s, ast.If) and s.orelse:
                for a in s.orelse:
                    if isinstance(a, ast.Assign) and ast.unparse(a.targets[0]) == "unscaled":
                        found = a.value
        if found is None:
            for s in stmts:
                if isinstance(s, ast.Assign) and ast.unparse(s.targets[0]) == "unscaled":
                    found = s.value
        if found is None:
            raise Untranslatable("__setitem__: no assignment to `unscaled`")
        if ast.unparse(found) == "self._remove_scale(value)":
            return "(* ScaledArrayView.__setitem__: unscaled = self._remove_scale(value) *)\nDefinition gen_setitem_unscaled := gen_remove_scale.\n"
        term = arith(found, {"value": "value", "self.scale": "scale", "self.offset": "offset"})
        return f"(* ScaledArrayView.__setitem__: unscaled *)\nDefinition gen_setitem_unscaled (value scale offset : T) := {term}.\n"
    o.add("setitem_unscaled", setitem_unscaled)

    def rescale_axis():
        fn = py2v.find_func(rec, "apply_new_scaling")
        if [a.arg for a in fn.args.args] != ["record", "scales", "offsets"]:
            raise Untranslatable("apply_new_scaling parameters")
        stmts = flat(fn.body)
        lst = None
        for s in stmts:
            if isinstance(s, ast.Assign) and ast.unparse(s.targets[0]) == "new_coords":
                if isinstance(s.value, ast.List):
                    lst = s.value.elts
                elif isinstance(s.value, ast.ListComp):     # the three calls produced by a comprehension over constants
                    lst = unroll(s.value)
        if lst is None or len(lst) != 3:
            raise Untranslatable("apply_new_scaling: new_coords is not a list of three")
        rows = []
        callee = None
        for e in lst:
            if not (isinstance(e, ast.Call) and isinstance(e.func, ast.Name) and len(e.args) == 3 and not e.keywords):
                raise Untranslatable(f"apply_new_scaling element {ast.unparse(e)}")
            callee = callee or e.func.id
            if e.func.id != callee or callee != "unscale_dimension":
                raise Untranslatable(f"apply_new_scaling calls {e.func.id}")
            a0 = ast.unparse(e.args[0])
            for pre in ("np.asarray(", "np.array("):
                if a0.startswith(pre) and a0.endswith(")"):
                    a0 = a0[len(pre):-1]
            if a0 not in ("record.x", "record.y", "record.z"):
                raise Untranslatable(f"apply_new_scaling source {a0}")
            idx = []
            for a, nm in ((e.args[1], "scales"), (e.args[2], "offsets")):
                if not (isinstance(a, ast.Subscript) and ast.unparse(a.value) == nm and isinstance(a.slice, ast.Constant)
                        and isinstance(a.slice.value, int)):
                    raise Untranslatable(f"apply_new_scaling argument {ast.unparse(a)}")
                idx.append(a.slice.value)
            rows.append(("xyz".index(a0[-1]), idx[0], idx[1]))
        # the store: record["X"], record["Y"], record["Z"] = new_coords, after the guard
        gi, _ = guard_of_rescale(stmts)
        store = [i for i, s in enumerate(stmts) if isinstance(s, ast.Assign)
                 and ast.unparse(s.targets[0]) in ("(record['X'], record['Y'], record['Z'])", "record['X'], record['Y'], record['Z']")
                 and ast.unparse(s.value) == "new_coords"]
        if not store or store[0] < gi:
            raise Untranslatable("apply_new_scaling: X, Y, Z are not stored from new_coords after the range test")
        txt = "(* apply_new_scaling: stored axis k is computed from record.<axis a> with scales[i], offsets[j]: (a, i, j) *)\n"
        txt += "Definition gen_rescale_axes : list (nat * nat * nat) := [" + "; ".join(f"({a}%nat, {i}%nat, {j}%nat)" for a, i, j in rows) + "].\n"
        txt += "Definition gen_rescale_unscaled := gen_unscale_dimension.\n"
        return txt

    INPLACE = ("__iadd__", "__isub__", "__imul__", "__itruediv__", "__ifloordiv__", "__imod__", "__ipow__", "__imatmul__",
               "__iand__", "__ior__", "__ixor__", "__ilshift__", "__irshift__")
    BINOPS = (("__add__", "gen_view_add"), ("__sub__", "gen_view_sub"), ("__mul__", "gen_view_mul"), ("__truediv__", "gen_view_truediv"))

    def class_names(cls):
        """names bound in a class body: methods and plain assignments"""
        out = set()
        for s in cls.body:
            if isinstance(s, (ast.FunctionDef, ast.AsyncFunctionDef)):
                out.add(s.name)
            elif isinstance(s, ast.Assign):
                out.update(ast.unparse(t) for t in s.targets)
            elif isinstance(s, ast.AnnAssign):
                out.add(ast.unparse(s.target))
        return out

    def view_binops():
        """`las.x += d` (and -=, *=, /=): neither ArrayView nor ScaledArrayView defines an in-place operator, so Python evaluates
        the binary operator of the view - `np.array(self) <op> other`, plain floating point on the presented coordinates - and
        assigns the result back through the route the view was obtained by (whose __setitem__ makes the range test)"""
        base = py2v.find_class(dims, "ArrayView")
        view = py2v.find_class(dims, "ScaledArrayView")
        if [ast.unparse(b) for b in view.bases] != ["ArrayView"]:
            raise Untranslatable(f"ScaledArrayView bases {[ast.unparse(b) for b in view.bases]}")
        if [ast.unparse(b) for b in base.bases] not in (["abc.ABC"], ["ABC"]):
            raise Untranslatable(f"ArrayView bases {[ast.unparse(b) for b in base.bases]}")
        for cls in (base, view):
            bad = sorted(class_names(cls) & set(INPLACE))
            if bad:
                raise Untranslatable(f"{cls.name} defines the in-place operator(s) {bad}")
            if class_names(cls) & {"__getattr__", "__getattribute__"}:
                raise Untranslatable(f"{cls.name} defines __getattribute__/__getattr__")
        txt = ""
        for py, g in BINOPS:
            if py in class_names(view):
                raise Untranslatable(f"ScaledArrayView overrides {py}")
            fn = py2v.find_func(base, py)
            if [a.arg for a in fn.args.args] != ["self", "other"]:
                raise Untranslatable(f"ArrayView.{py} parameters")
            term = arith(single_return(fn), {"self": "value", "other": "other"})
            txt += f"(* ArrayView.{py}: {ast.unparse(single_return(fn))} *)\nDefinition {g} (value other : T) := {term}.\n"
        return txt
    o.add("view_binops", view_binops)

    def guard_of_rescale(stmts):
        for i, s in enumerate(stmts):
            if isinstance(s, ast.For) and ast.unparse(s.iter).replace(" ", "") == "zip(('X','Y','Z'),new_coords)" \
                    and ast.unparse(s.target).replace(" ", "") in ("(name,new_coord)", "name,new_coord"):
                body = flat(s.body)
                _, c = overflow_guard(body, "new_coord")
                info = [b for b in body if isinstance(b, ast.Assign) and ast.unparse(b.targets[0]) == "info"]
                if not info or ast.unparse(info[0].value) != "np.iinfo(record.array[name].dtype)":
                    raise Untranslatable("apply_new_scaling: info is not np.iinfo(record.array[name].dtype)")
                return i, c
        raise Untranslatable("apply_new_scaling: no range test over zip(('X','Y','Z'), new_coords)")
    o.add("rescale_axes", rescale_axis)
    o.text += "End GenScaling.\n\n"

    def setitem_fits():
        cls = py2v.find_class(dims, "ScaledArrayView")
        fn = py2v.find_func(cls, "__setitem__")
        stmts = flat(fn.body)
        gi, c = overflow_guard(stmts, "unscaled")
        store = [i for i, s in enumerate(stmts) if isinstance(s, ast.Assign) and ast.unparse(s.targets[0]) == "self.array[key]"]
        if len(store) != 1 or store[0] < gi or ast.unparse(stmts[store[0]].value) != "unscaled":
            raise Untranslatable("__setitem__: self.array[key] = unscaled does not follow the range test")
        info = [s for s in stmts if isinstance(s, ast.Try)]
        if not info or ast.unparse(info[0].body[0]) != "info = np.iinfo(self.array.dtype)":
            raise Untranslatable("__setitem__: info is not np.iinfo(self.array.dtype)")
        term = cond(c, {"unscaled": "unscaled", "info.min": "info_min", "info.max": "info_max"})
        return ("(* ScaledArrayView.__setitem__: the stored values pass this test, otherwise OverflowError *)\n"
                f"Definition gen_setitem_fits (unscaled info_min info_max : Z) : bool := {term}.\n")
    o.add("setitem_fits", setitem_fits)

    def rescale_fits():
        fn = py2v.find_func(rec, "apply_new_scaling")
        _, c = guard_of_rescale(flat(fn.body))
        term = cond(c, {"new_coord": "unscaled", "info.min": "info_min", "info.max": "info_max"})
        return ("(* apply_new_scaling: every new coordinate passes this test before anything is modified *)\n"
                f"Definition gen_rescale_fits (unscaled info_min info_max : Z) : bool := {term}.\n")
    o.add("rescale_fits", rescale_fits)

    def view_axes():
        cls = py2v.find_class(rec, "ScaleAwarePointRecord")
        fn = py2v.find_func(cls, "__getitem__")
        rows = {}

        def walk(stmts):
            for s in stmts:
                if isinstance(s, ast.If):
                    t = ast.unparse(s.test)
                    for ax in "xyz":
                        if t == f"item == '{ax}'":
                            if len(s.body) != 1 or not isinstance(s.body[0], ast.Return):
                                raise Untranslatable(f"__getitem__ branch {ax}")
                            call = s.body[0].value
                            if not (isinstance(call, ast.Call) and ast.unparse(call.func) == "ScaledArrayView" and len(call.args) == 3):
                                raise Untranslatable(f"__getitem__ branch {ax}: {ast.unparse(call)}")
                            a0 = ast.unparse(call.args[0])
                            if not (a0.startswith("self.array['") and a0.endswith("']") and a0[12:-2] in ("X", "Y", "Z")):
                                raise Untranslatable(f"__getitem__ branch {ax}: array {a0}")
                            idx = []
                            for a, nm in ((call.args[1], "self.scales"), (call.args[2], "self.offsets")):
                                if not (isinstance(a, ast.Subscript) and ast.unparse(a.value) == nm and isinstance(a.slice, ast.Constant)
                                        and isinstance(a.slice.value, int)):
                                    raise Untranslatable(f"__getitem__ branch {ax}: {ast.unparse(a)}")
                                idx.append(a.slice.value)
                            rows[ax] = ("XYZ".index(a0[12:-2]), idx[0], idx[1])
                    walk(s.orelse)
        walk(fn.body)
        if sorted(rows) != ["x", "y", "z"]:
            raise Untranslatable(f"__getitem__: branches found {sorted(rows)}")
        txt = "(* ScaleAwarePointRecord.__getitem__: view of axis a reads integer dimension k with scales[i], offsets[j]: row a = (k, i, j) *)\n"
        txt += "Definition gen_view_axes : list (nat * nat * nat) := [" + "; ".join(
            "({}%nat, {}%nat, {}%nat)".format(*rows[ax]) for ax in "xyz") + "].\n"
        return txt
    o.add("view_axes", view_axes)

    def view_inplace():
        view_binops()       # raises when an in-place operator is defined or a binary operator has another shape
        return ("(* neither ArrayView nor ScaledArrayView defines __iadd__ / __isub__ / __imul__ / __itruediv__ ...: an augmented assignment "
                "on a scaled view is the binary operator followed by the assignment *)\nDefinition gen_view_inplace_falls_back : bool := true.\n")
    o.add("view_inplace", view_inplace)

    lasdata = py2v.parse(repo, "laspy/lasdata.py")
    SYNC = ["self.points.offsets = self.header.offsets", "self.points.scales = self.header.scales"]

    def syncs_before(stmts, store_pred, what):
        """True when both sync statements precede the store, False when neither is there; anything else is not understood"""
        texts = [ast.unparse(s) for s in stmts]
        store = [i for i, s in enumerate(texts) if store_pred(s)]
        if len(store) != 1:
            raise Untranslatable(f"{what}: the coordinate store was not found")
        before = texts[:store[0]]
        if sorted(before) == sorted(SYNC):
            return "true"
        if not before and not any(x in texts for x in SYNC):
            return "false"
        # anything else before the store (a call of a helper, another assignment to the record's scaling, one of the two statements
        # only) is not understood as written: retried on the normal form (new helpers inlined), else the definition is omitted
        raise Untranslatable(f"{what}: the statements before the coordinate store are not exactly the two that take the header's scaling: {before}")

    def setattr_syncs():
        cls = py2v.find_class(lasdata, "LasData")
        fn = py2v.find_func(cls, "__setattr__")
        branch = None
        for s in fn.body:
            if isinstance(s, ast.If) and ast.unparse(s.test) == "key in ('x', 'y', 'z')":
                branch = s.body
        if branch is None:
            raise Untranslatable("LasData.__setattr__: no branch for key in ('x', 'y', 'z')")
        b = syncs_before(branch, lambda s: s == "self.points[key] = value", "LasData.__setattr__")
        return ("(* LasData.__setattr__, key in (x, y, z): the record takes the header's offsets and scales arrays before self.points[key] = value *)\n"
                f"Definition gen_setattr_syncs : bool := {b}.\n")
    o.add("setattr_syncs", setattr_syncs)

    def xyz_setter():
        cls = py2v.find_class(lasdata, "LasData")
        fn = py2v.find_func(cls, "xyz", "xyz.setter")
        stmts = [s for s in fn.body if not (isinstance(s, ast.Expr) and isinstance(s.value, ast.Constant))]
        def is_store(s):
            return (isinstance(s, ast.Assign) and isinstance(s.targets[0], ast.Subscript)
                    and ast.unparse(s.targets[0].value) == "self.points" and isinstance(s.targets[0].slice, ast.Tuple))
        store = [s for s in stmts if is_store(s)]
        if len(store) != 1 or ast.unparse(store[0].value) != "value":
            raise Untranslatable("LasData.xyz setter: no self.points[(...)] = value")
        key = store[0].targets[0].slice
        if not (isinstance(key, ast.Tuple) and all(isinstance(e, ast.Constant) and e.value in ("x", "y", "z") for e in key.elts)):
            raise Untranslatable(f"LasData.xyz setter: key {ast.unparse(key)}")
        axes = ["xyz".index(e.value) for e in key.elts]
        b = syncs_before(stmts, lambda s: s == ast.unparse(store[0]), "LasData.xyz setter")
        return ("(* LasData.xyz setter: column i of the value goes to axis gen_xyz_axes[i], in this order, through the record; "
                "whether the record first takes the header's arrays *)\n"
                f"Definition gen_xyz_syncs : bool := {b}.\n"
                "Definition gen_xyz_axes : list nat := [" + "; ".join(f"{a}%nat" for a in axes) + "].\n")
    o.add("xyz_setter", xyz_setter)

    def limits():
        sys.path.insert(0, repo)
        import numpy as np
        fmtmod = importlib.import_module("laspy.point.format")
        dimsmod = importlib.import_module("laspy.point.dims")
        seen = set()
        for f in sorted(dimsmod.POINT_FORMAT_DIMENSIONS.keys()):
            dt = fmtmod.PointFormat(f).dtype()
            for nm in ("X", "Y", "Z"):
                info = np.iinfo(dt[nm])
                seen.add((int(info.min), int(info.max)))
        if len(seen) != 1:
            raise Untranslatable(f"coordinate integer types differ: {sorted(seen)}")
        lo, hi = seen.pop()
        return ("(* np.iinfo of the X, Y, Z dimensions of every point format *)\n"
                f"Definition gen_coord_min : Z := {py2v.z(lo)}.\nDefinition gen_coord_max : Z := {py2v.z(hi)}.\n")
    o.add("coord_limits", limits)

    def writer_header():
        """LasWriter.__init__: what the writer keeps of the header it is given. `deepcopy(header)`: its own scale/offset arrays;
        the object itself or a shallow copy: the caller's arrays (an in-place edit of the caller's header shows in the writer)."""
        w = py2v.parse(repo, "laspy/laswriter.py")
        cls = py2v.find_class(w, "LasWriter")
        fn = py2v.find_func(cls, "__init__")
        assigns = [s for s in ast.walk(fn) if isinstance(s, ast.Assign) and any(ast.unparse(t) == "self.header" for t in s.targets)]
        if len(assigns) != 1:
            raise Untranslatable(f"LasWriter.__init__: {len(assigns)} assignments to self.header")
        rhs = ast.unparse(assigns[0].value)
        # nothing else may re-point the scaling arrays of the writer's header
        for s in ast.walk(fn):
            if isinstance(s, ast.Assign):
                for t in s.targets:
                    tt = ast.unparse(t)
                    if tt.startswith("self.header.") and any(k in tt for k in ("scale", "offset")):
                        raise Untranslatable(f"LasWriter.__init__ assigns {tt}")
        imports = {a.asname or a.name: (n.module, a.name) for n in ast.walk(w) if isinstance(n, ast.ImportFrom) for a in n.names}
        if rhs == "deepcopy(header)" and imports.get("deepcopy") == ("copy", "deepcopy"):
            b = "true"
        elif rhs == "copy.deepcopy(header)":
            b = "true"
        elif rhs in ("header", "copy(header)", "copy.copy(header)"):
            b = "false"
        else:
            raise Untranslatable(f"LasWriter.__init__: self.header = {rhs}")
        # write_points / close must use self.header's scaling
        wp = py2v.find_func(cls, "write_points")
        txt = ast.unparse(wp)
        if "points.change_scaling(scales=self.header.scales, offsets=self.header.offsets)" not in txt:
            raise Untranslatable("LasWriter.write_points: the record is not rescaled to self.header.scales / self.header.offsets")
        return ("(* LasWriter.__init__: self.header = deepcopy(header) - the writer has its own scale/offset arrays (false: it shares the caller's) *)\n"
                f"Definition gen_writer_copies_header : bool := {b}.\n")
    o.add("writer_header", writer_header)

    def record_setitem():
        """PackedPointRecord.__setitem__ with a dimension name: the value goes through the dimension's view
        (`self[key][:] = value`), whatever the value is; ScaledArrayView.__setitem__ takes a view value by its scaled values"""
        cls = py2v.find_class(rec, "PackedPointRecord")
        fn = py2v.find_func(cls, "__setitem__")
        found = None
        for s in ast.walk(fn):
            if isinstance(s, ast.If) and ast.unparse(s.test) == "isinstance(key, str)":
                found = s
        if found is None:
            raise Untranslatable("PackedPointRecord.__setitem__: no `if isinstance(key, str)`")
        body = [ast.unparse(x) for x in found.body]
        if body != ["self[key][:] = value"]:
            raise Untranslatable(f"PackedPointRecord.__setitem__: a named dimension is not assigned by self[key][:] = value but by {body}")
        vcls = py2v.find_class(dims, "ScaledArrayView")
        vfn = py2v.find_func(vcls, "__setitem__")
        conv = [s for s in vfn.body if isinstance(s, ast.If) and ast.unparse(s.test) == "isinstance(value, ScaledArrayView)"]
        if len(conv) != 1 or [ast.unparse(x) for x in conv[0].body] not in (["value = np.array(value)"], ["value = np.asarray(value)"],
                                                                            ["value = value.scaled_array()"]) or conv[0].orelse:
            raise Untranslatable("ScaledArrayView.__setitem__: a ScaledArrayView value is not taken by its scaled values")
        for s in ast.walk(vfn):
            if isinstance(s, ast.Attribute) and ast.unparse(s) == "value.array":
                raise Untranslatable("ScaledArrayView.__setitem__ reads value.array (the stored integers of the value)")
        sfn = py2v.find_func(py2v.find_class(rec, "ScaleAwarePointRecord"), "__setattr__")
        first = sfn.body[0]
        if not (isinstance(first, ast.If) and ast.unparse(first.test) == "key in ('x', 'y', 'z')"
                and [ast.unparse(x) for x in first.body] == ["self[key][:] = value"]):
            raise Untranslatable("ScaleAwarePointRecord.__setattr__: x, y, z are not assigned by self[key][:] = value")
        return ("(* PackedPointRecord.__setitem__(name) and ScaleAwarePointRecord.__setattr__(x|y|z): self[key][:] = value; "
                "ScaledArrayView.__setitem__ converts a view value to its scaled values *)\n"
                "Definition gen_assign_by_scaled_values : bool := true.\n")
    o.add("record_setitem", record_setitem)
    return o


TARGETS = {"GenScaling.v": gen_scaling}
