"""Translator plugin for property C08: the dispatch table and the record sizes of laspy/vlrs/known.py.

GenKnown.v is rebuilt from the running module on every run:
  * known_table: the classes vlr_factory iterates over (BaseKnownVLR.__subclasses__(), in that order) with their
    official user id (bytes) and their official record ids (which must be one contiguous range, else fail closed);
  * the sizes of the fixed-size entries the parsers cut the payload into (struct / ctypes sizes of the running module);
  * the shape of vlr_factory (AST): first class whose user id and record id match, from_raw inside try/except Exception
    returning the input record -- recognised, otherwise fail closed.
"""
import ast
import importlib
import sys

import py2v


def qs(x):
    return '"' + x + '"%string'


def zlist(bs):
    return "[" + "; ".join(str(int(b)) for b in bs) + "]"


def load(repo):
    sys.path.insert(0, repo)
    for m in [k for k in sys.modules if k == "laspy" or k.startswith("laspy.")]:
        del sys.modules[m]
    importlib.import_module("laspy")
    return importlib.import_module("laspy.vlrs.known")


def gen_known(repo):
    o = py2v.Out("laspy/vlrs/known.py (dispatch table and entry sizes of the running module, shape of vlr_factory)")
    known = load(repo)

    def table():
        rows = []
        for cls in known.BaseKnownVLR.__subclasses__():
            uid = cls.official_user_id()
            if not isinstance(uid, str):
                raise py2v.Untranslatable(f"{cls.__name__}.official_user_id() is not a str")
            ub = uid.encode("ascii")
            if 0 in ub or len(ub) > 16:
                raise py2v.Untranslatable(f"{cls.__name__}: user id {uid!r} does not fit the 16-byte field")
            ids = [int(i) for i in cls.official_record_ids()]
            if not ids or ids != list(range(ids[0], ids[-1] + 1)):
                raise py2v.Untranslatable(f"{cls.__name__}: official record ids are not one contiguous range")
            rows.append(f"({qs(cls.__name__)}, {zlist(ub)}, {ids[0]}, {ids[-1]})")
        return ("Definition known_table : list (string * list Z * Z * Z) := [\n  " + ";\n  ".join(rows) + "].\n")
    o.add("known_table", table)

    def sizes():
        import ctypes
        import struct
        st = known.ClassificationLookupVlr._lookup_struct
        if st.format != "<B15s":
            raise py2v.Untranslatable(f"lookup entry format {st.format!r} is not <B15s")
        vals = [
            ("lookup_entry_size", st.size),
            ("lookup_name_size", st.size - 1),
            ("eb_struct_size", known.ExtraBytesStruct.size()),
            ("wf_struct_size", known.WaveformPacketStruct.size()),
            ("gk_header_size", known.GeoKeysHeaderStructs.size()),
            ("gk_entry_size", known.GeoKeyEntryStruct.size()),
            ("double_size", ctypes.sizeof(ctypes.c_double)),
        ]
        # the key count is the last 16-bit little-endian field of the 8-byte directory header
        f = known.GeoKeysHeaderStructs._fields_
        if [n for n, _ in f][-1] != "number_of_keys" or any(ctypes.sizeof(t) != 2 for _, t in f):
            raise py2v.Untranslatable("GeoKeysHeaderStructs is not four uint16 ending with number_of_keys")
        if ctypes.sizeof(known.GeoKeyEntryStruct) != known.GeoKeyEntryStruct.size():
            raise py2v.Untranslatable("GeoKeyEntryStruct.size() differs from its ctypes size")
        return "".join(f"Definition {n} : nat := {int(v)}%nat.\n" for n, v in vals)
    o.add("sizes", sizes)

    def factory_shape():
        mod = py2v.parse(repo, "laspy/vlrs/known.py")
        fn = py2v.find_func(mod, "vlr_factory")
        loops = [n for n in fn.body if isinstance(n, ast.For)]
        if len(loops) != 1:
            raise py2v.Untranslatable("vlr_factory: expected one for loop")
        loop = loops[0]
        if len(loop.body) != 1 or not isinstance(loop.body[0], ast.If):
            raise py2v.Untranslatable("vlr_factory: loop body is not a single if")
        test = ast.unparse(loop.body[0].test).replace(" ", "")
        if test != "known_vlr.official_user_id()==user_idandvlr.record_idinknown_vlr.official_record_ids()":
            raise py2v.Untranslatable(f"vlr_factory: unexpected dispatch test {test}")
        body = loop.body[0].body
        if len(body) != 1 or not isinstance(body[0], ast.Try):
            raise py2v.Untranslatable("vlr_factory: dispatch is not a try statement")
        tr = body[0]
        ok = (len(tr.body) == 1 and isinstance(tr.body[0], ast.Return)
              and ast.unparse(tr.body[0].value) == "known_vlr.from_raw(vlr)"
              and len(tr.handlers) == 1 and ast.unparse(tr.handlers[0].type) == "Exception"
              and isinstance(tr.handlers[0].body[-1], ast.Return) and ast.unparse(tr.handlers[0].body[-1].value) == "vlr")
        if not ok:
            raise py2v.Untranslatable("vlr_factory: try/except shape not recognised")
        last = fn.body[-1]
        if not (isinstance(last, ast.Return) and ast.unparse(last.value) == "vlr"):
            raise py2v.Untranslatable("vlr_factory: does not end with 'return vlr'")
        src = ast.unparse(fn)
        if "__subclasses__()" not in src:
            raise py2v.Untranslatable("vlr_factory: does not iterate BaseKnownVLR.__subclasses__()")
        return ("(* vlr_factory: first class of known_table whose user id and record id match; from_raw under\n"
                "   try/except Exception -> the input record; no match -> the input record. *)\n"
                "Definition factory_first_match_with_fallback : bool := true.\n")
    o.add("vlr_factory", factory_shape)
    return o


TARGETS = {"GenKnown.v": gen_known}
