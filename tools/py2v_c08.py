"""Translator plugin for property C08: the dispatch table and the record sizes of laspy/vlrs/known.py.

GenKnown.v is rebuilt from the running module on every run:
  * known_table: the classes vlr_factory iterates over (BaseKnownVLR.__subclasses__(), in that order) with their
    official user id (bytes) and their official record ids (which must be one contiguous range, else fail closed);
  * the sizes of the fixed-size entries the parsers cut the payload into (struct / ctypes sizes of the running module);
  * the shape of vlr_factory (AST): first class whose user id and record id match, from_raw inside try/except Exception
    returning the input record -- recognised, otherwise fail closed.
  * the readers that LIST statements of a method (LasWriter.__init__ / write_evlrs, LasHeader.partial_reset) refuse a method
    that calls a helper which did not exist when they were written (tools/known_functions.json) and may touch what they list:
    tools/py2v.py then retries them on the normal form of the source (helpers inlined); a helper that provably has nothing
    to do with the header (neither its code, transitively, nor the call's arguments mention it) is looked through; a local
    bound once and handed to self.header once (`t = E; ..t..; self.header = t`) is read as self.header bound first;
    private helpers introduced since are links, not entry points, of the call graph that ends in _sync_extra_bytes_vlr.
"""
import ast
import importlib
import sys

import py2v


def qs(x):
    return '"' + x + '"%string'


def zlist(bs):
    return "[" + "; ".join(str(int(b)) for b in bs) + "]"


def load(repo):
    sys.path.insert(0, repo)
    for m in [k for k in sys.modules if k == "laspy" or k.startswith("laspy.")]:
        del sys.modules[m]
    importlib.import_module("laspy")
    return importlib.import_module("laspy.vlrs.known")


def gen_known(repo):
    o = py2v.Out("laspy/vlrs/known.py (dispatch table and entry sizes of the running module, shape of vlr_factory)")
    known = load(repo)

    def table():
        rows = []
        for cls in known.BaseKnownVLR.__subclasses__():
            uid = cls.official_user_id()
            if not isinstance(uid, str):
                raise py2v.Untranslatable(f"{cls.__name__}.official_user_id() is not a str")
            ub = uid.encode("ascii")
            if 0 in ub or len(ub) > 16:
                raise py2v.Untranslatable(f"{cls.__name__}: user id {uid!r} does not fit the 16-byte field")
            ids = [int(i) for i in cls.official_record_ids()]
            if not ids or ids != list(range(ids[0], ids[-1] + 1)):
                raise py2v.Untranslatable(f"{cls.__name__}: official record ids are not one contiguous range")
            rows.append(f"({qs(cls.__name__)}, {zlist(ub)}, {ids[0]}, {ids[-1]})")
        return ("Definition known_table : list (string * list Z * Z * Z) := [\n  " + ";\n  ".join(rows) + "].\n")
    o.add("known_table", table)

    def sizes():
        import ctypes
        import struct
        st = known.ClassificationLookupVlr._lookup_struct
        if st.format != "<B15s":
            raise py2v.Untranslatable(f"lookup entry format {st.format!r} is not <B15s")
        vals = [
            ("lookup_entry_size", st.size),
            ("lookup_name_size", st.size - 1),
            ("eb_struct_size", known.ExtraBytesStruct.size()),
            ("wf_struct_size", known.WaveformPacketStruct.size()),
            ("gk_header_size", known.GeoKeysHeaderStructs.size()),
            ("gk_entry_size", known.GeoKeyEntryStruct.size()),
            ("double_size", ctypes.sizeof(ctypes.c_double)),
        ]
        # the key count is the last 16-bit little-endian field of the 8-byte directory header
        f = known.GeoKeysHeaderStructs._fields_
        if [n for n, _ in f][-1] != "number_of_keys" or any(ctypes.sizeof(t) != 2 for _, t in f):
            raise py2v.Untranslatable("GeoKeysHeaderStructs is not four uint16 ending with number_of_keys")
        if ctypes.sizeof(known.GeoKeyEntryStruct) != known.GeoKeyEntryStruct.size():
            raise py2v.Untranslatable("GeoKeyEntryStruct.size() differs from its ctypes size")
        return "".join(f"Definition {n} : nat := {int(v)}%nat.\n" for n, v in vals)
    o.add("sizes", sizes)

    def factory_shape():
        mod = py2v.parse(repo, "laspy/vlrs/known.py")
        fn = py2v.find_func(mod, "vlr_factory")
        loops = [n for n in fn.body if isinstance(n, ast.For)]
        if len(loops) != 1:
            raise py2v.Untranslatable("vlr_factory: expected one for loop")
        loop = loops[0]
        # what is compared is the record's own user id and the classes in definition order, nothing derived from them
        pre = [ast.unparse(n).replace(" ", "") for n in fn.body[:fn.body.index(loop)]
               if not (isinstance(n, ast.Expr) and isinstance(n.value, ast.Constant) and isinstance(n.value.value, str))]
        if pre != ["user_id=vlr.user_id", "known_vlrs=BaseKnownVLR.__subclasses__()"]:
            raise py2v.Untranslatable(f"vlr_factory: unexpected statements before the loop: {pre}")
        if ast.unparse(loop.target) != "known_vlr" or ast.unparse(loop.iter) != "known_vlrs" or loop.orelse:
            raise py2v.Untranslatable("vlr_factory: unexpected loop header")
        if len(loop.body) != 1 or not isinstance(loop.body[0], ast.If):
            raise py2v.Untranslatable("vlr_factory: loop body is not a single if")
        test = ast.unparse(loop.body[0].test).replace(" ", "")
        if test != "known_vlr.official_user_id()==user_idandvlr.record_idinknown_vlr.official_record_ids()":
            raise py2v.Untranslatable(f"vlr_factory: unexpected dispatch test {test}")
        body = loop.body[0].body
        if len(body) != 1 or not isinstance(body[0], ast.Try):
            raise py2v.Untranslatable("vlr_factory: dispatch is not a try statement")
        tr = body[0]
        ok = (len(tr.body) == 1 and isinstance(tr.body[0], ast.Return)
              and ast.unparse(tr.body[0].value) == "known_vlr.from_raw(vlr)"
              and len(tr.handlers) == 1 and ast.unparse(tr.handlers[0].type) == "Exception"
              and isinstance(tr.handlers[0].body[-1], ast.Return) and ast.unparse(tr.handlers[0].body[-1].value) == "vlr")
        if not ok:
            raise py2v.Untranslatable("vlr_factory: try/except shape not recognised")
        last = fn.body[-1]
        if not (isinstance(last, ast.Return) and ast.unparse(last.value) == "vlr"):
            raise py2v.Untranslatable("vlr_factory: does not end with 'return vlr'")
        src = ast.unparse(fn)
        if "__subclasses__()" not in src:
            raise py2v.Untranslatable("vlr_factory: does not iterate BaseKnownVLR.__subclasses__()")
        return ("(* vlr_factory: first class of known_table whose user id and record id match; from_raw under\n"
                "   try/except Exception -> the input record; no match -> the input record. *)\n"
                "Definition factory_first_match_with_fallback : bool := true.\n")
    o.add("vlr_factory", factory_shape)

    # ---- the file around the lists: what the writer does to the header it is given ----
    def cs(x):
        return '"' + x.replace('"', '""') + '"%string'

    def simple_statements(fn):
        """every simple statement of the function, in source order (bodies of if/try/with/for included)"""
        out = []

        def walk(body):
            for n in body:
                if isinstance(n, (ast.Assign, ast.AugAssign, ast.AnnAssign, ast.Expr, ast.Delete, ast.Return, ast.Raise)):
                    if isinstance(n, ast.Expr) and isinstance(n.value, ast.Constant) and isinstance(n.value.value, str):
                        continue
                    out.append(n)
                for f in ("body", "orelse", "finalbody"):
                    if hasattr(n, f) and not isinstance(n, (ast.FunctionDef, ast.ClassDef, ast.Lambda)):
                        walk(getattr(n, f))
                for h in getattr(n, "handlers", []):
                    walk(h.body)
        walk(fn.body)
        return out

    # ---- helpers that did not exist when these readers were written (ROBUST2: methods split into private helpers) ----
    # A reader that LISTS the statements of a method would silently list fewer of them when some moved into a new helper.
    # It therefore refuses (Untranslatable) a method that calls such a helper - tools/py2v.py then retries the definition on
    # the NORMAL FORM of the source, where the helper is inlined - unless the helper provably has nothing to do with what
    # the reader lists (neither its code, transitively, nor the arguments of the call mention `needle`).
    def body_text(fn):
        return "\n".join(ast.unparse(n) for n in fn.body
                         if not (isinstance(n, ast.Expr) and isinstance(n.value, ast.Constant) and isinstance(n.value.value, str)))

    def new_helper_calls(fn, cls, mod, needle=None):
        """names of the functions called in fn that are defined in this class / module, did not exist when the readers were
        written (tools/known_functions.json) and may touch `needle` (None: any such call counts)"""
        defs = {n.name: n for n in mod.body if isinstance(n, ast.FunctionDef)}
        defs.update({n.name: n for n in cls.body if isinstance(n, ast.FunctionDef)})

        def callee(x):
            f = x.func
            if isinstance(f, ast.Attribute) and ast.unparse(f.value) in ("self", "cls", cls.name, "type(self)", "self.__class__"):
                return f.attr
            if isinstance(f, ast.Name):
                return f.id
            return None

        def touches(name, seen):
            """the code of helper `name`, and of the new helpers it calls, mentions the needle"""
            if name in seen:
                return False
            seen.add(name)
            d = defs[name]
            if needle is None or needle in body_text(d) or any(needle in a.arg for a in d.args.args if a.arg not in ("self", "cls")):
                return True
            return any(touches(c, seen) for c in (callee(x) for x in ast.walk(d) if isinstance(x, ast.Call))
                       if c in defs and c not in py2v.KNOWN_FUNCTIONS)
        out = []
        for x in ast.walk(fn):
            if isinstance(x, ast.Call):
                c = callee(x)
                if c in defs and c not in py2v.KNOWN_FUNCTIONS:
                    args = list(x.args) + [k.value for k in x.keywords]
                    if needle is None or any(needle in ast.unparse(a) for a in args) or touches(c, set()):
                        out.append(c)
        return sorted(set(out))

    def bound_late(fn, attr):
        """`t = E; <statements on t>; self.<attr> = t`  read as  `self.<attr> = E; <the statements on self.<attr>>`: the local t
        is bound once, handed to self.<attr> once, self.<attr> is not mentioned in between and t is not used afterwards (the
        object is the same one; between the two statements nobody else can see self.<attr>). Returns fn or a rewritten copy."""
        import copy
        target = f"self.{attr}"
        stmts = simple_statements(fn)
        binds = [n for n in stmts if isinstance(n, ast.Assign) and len(n.targets) == 1 and ast.unparse(n.targets[0]) == target
                 and isinstance(n.value, ast.Name)]
        if len(binds) != 1:
            return fn
        t = binds[0].value.id
        if t in {a.arg for a in fn.args.args + fn.args.kwonlyargs} or (fn.args.vararg and fn.args.vararg.arg == t) or (fn.args.kwarg and fn.args.kwarg.arg == t):
            return fn
        stores = [x for x in ast.walk(fn) if isinstance(x, ast.Name) and x.id == t and isinstance(x.ctx, (ast.Store, ast.Del))]
        first = [n for n in stmts if isinstance(n, ast.Assign) and len(n.targets) == 1 and isinstance(n.targets[0], ast.Name) and n.targets[0].id == t]
        if len(stores) != 1 or len(first) != 1:
            return fn
        i, j = stmts.index(first[0]), stmts.index(binds[0])
        if not i < j:
            return fn
        if any(target in ast.unparse(n) for n in stmts[i:j]):
            return fn
        if any(isinstance(x, ast.Name) and x.id == t for n in stmts[j + 1:] for x in ast.walk(n)):
            return fn
        # the two statements must be on the straight path of the function (not under a condition / loop / handler)
        if first[0] not in fn.body or binds[0] not in fn.body:
            return fn
        new = copy.deepcopy(fn)

        class R(ast.NodeTransformer):
            def visit_Name(self, node):
                if node.id == t:
                    return ast.copy_location(ast.Attribute(value=ast.Name(id="self", ctx=ast.Load()), attr=attr, ctx=node.ctx), node)
                return node
        new = ast.fix_missing_locations(R().visit(new))
        new.body = [n for n in new.body if not (isinstance(n, ast.Assign) and len(n.targets) == 1
                                                and ast.unparse(n.targets[0]) == target and ast.unparse(n.value) == target)]
        return new

    def partial_reset():
        mod = py2v.parse(repo, "laspy/header.py")
        fn = py2v.find_func(py2v.find_class(mod, "LasHeader"), "partial_reset")
        nh = new_helper_calls(fn, py2v.find_class(mod, "LasHeader"), mod)
        if nh:
            raise py2v.Untranslatable(f"LasHeader.partial_reset calls helpers that did not exist when this reader was written: {nh}")
        names = []
        for n in simple_statements(fn):
            if (isinstance(n, ast.Assign) and len(n.targets) == 1 and isinstance(n.targets[0], ast.Attribute)
                    and ast.unparse(n.targets[0].value) == "self" and isinstance(n.value, ast.Constant)
                    and type(n.value.value) is int and n.value.value == 0):
                names.append(n.targets[0].attr)
        return ("(* LasHeader.partial_reset: the attributes it sets to the literal 0 *)\n"
                "Definition partial_reset_zeroes : list string := [" + "; ".join(cs(x) for x in names) + "].\n")
    o.add("partial_reset", partial_reset)

    def is_doc(n):
        return isinstance(n, ast.Expr) and isinstance(n.value, ast.Constant) and isinstance(n.value.value, str)

    def is_log(n):
        """a logging call whose arguments only read (names, attributes, constants, f-strings, len/str/repr of those)"""
        if not (isinstance(n, ast.Expr) and isinstance(n.value, ast.Call)):
            return False
        f = n.value.func
        if not (isinstance(f, ast.Attribute) and isinstance(f.value, ast.Name) and f.value.id in ("logger", "logging", "log", "LOGGER")
                and f.attr in ("debug", "info", "warning", "error", "critical", "exception", "log")):
            return False
        for a in list(n.value.args) + [k.value for k in n.value.keywords]:
            for x in ast.walk(a):
                if isinstance(x, ast.Call) and not (isinstance(x.func, ast.Name) and x.func.id in ("len", "str", "repr")):
                    return False
                if isinstance(x, (ast.NamedExpr, ast.Await, ast.Yield, ast.YieldFrom, ast.Lambda)):
                    return False
        return True

    def len_guard(test):
        """(is_positive, canonical text) when the test is, len() being a non-negative int, `len(E) > 0` or its negation
        spelled differently (`len(E) == 0`, `not len(E) > 0`, `0 < len(E)`, `len(E) >= 1` ...); None otherwise"""
        neg = False
        while isinstance(test, ast.UnaryOp) and isinstance(test.op, ast.Not):
            neg, test = not neg, test.operand
        if not (isinstance(test, ast.Compare) and len(test.ops) == 1):
            return None
        a, op, b = test.left, type(test.ops[0]), test.comparators[0]

        def is_len(x):
            return (isinstance(x, ast.Call) and isinstance(x.func, ast.Name) and x.func.id == "len"
                    and len(x.args) == 1 and not x.keywords and isinstance(x.args[0], (ast.Name, ast.Attribute)))

        def is_int(x):
            return isinstance(x, ast.Constant) and type(x.value) is int
        if is_int(a) and is_len(b):
            flip = {ast.Lt: ast.Gt, ast.Gt: ast.Lt, ast.LtE: ast.GtE, ast.GtE: ast.LtE, ast.Eq: ast.Eq, ast.NotEq: ast.NotEq}
            if op not in flip:
                return None
            a, op, b = b, flip[op], a
        if not (is_len(a) and is_int(b)):
            return None
        key = (op, b.value)
        if key in ((ast.Gt, 0), (ast.NotEq, 0), (ast.GtE, 1)):
            pos = True
        elif key in ((ast.Eq, 0), (ast.LtE, 0), (ast.Lt, 1)):
            pos = False
        else:
            return None
        return (pos != neg, f"len({ast.unparse(a.args[0])}) > 0")

    def writer_ops():
        mod = py2v.parse(repo, "laspy/laswriter.py")
        cls = py2v.find_class(mod, "LasWriter")
        init = py2v.find_func(cls, "__init__")
        we = py2v.find_func(cls, "write_evlrs")
        nh = new_helper_calls(init, cls, mod, "header") + new_helper_calls(we, cls, mod)
        if nh:
            raise py2v.Untranslatable(f"LasWriter.__init__ / write_evlrs call helpers that did not exist when this reader was written "
                                      f"and may touch the header: {nh}")
        init = bound_late(init, "header")
        hdr = [ast.unparse(n) for n in simple_statements(init) if "self.header" in ast.unparse(n) and not is_log(n)]
        body = [n for n in we.body if not is_doc(n) and not is_log(n)]
        if len(body) < 2 or not all(isinstance(n, ast.If) and not n.orelse for n in body[:2]) \
                or not isinstance(body[0].body[-1], ast.Raise):
            raise py2v.Untranslatable("LasWriter.write_evlrs: expected a version guard that raises and one guarded block")
        second, rest = body[1], body[2:]
        g = len_guard(second.test)
        early = (len(second.body) == 1 and isinstance(second.body[0], ast.Return)
                 and (second.body[0].value is None
                      or (isinstance(second.body[0].value, ast.Constant) and second.body[0].value.value is None)))
        if early and rest:
            # `if <nothing to write>: return` followed by the block  ==  `if <something to write>: block`
            if g is None or g[0]:
                raise py2v.Untranslatable("LasWriter.write_evlrs: early return under a guard that is not `len(..) == 0`")
            guard, block = g[1], rest
        elif not rest:
            guard, block = (g[1] if g is not None and g[0] else ast.unparse(second.test)), second.body
        else:
            raise py2v.Untranslatable("LasWriter.write_evlrs: statements outside the two guards")
        block = [n for n in block if not is_doc(n) and not is_log(n)]
        if not all(isinstance(n, (ast.Assign, ast.AugAssign, ast.AnnAssign, ast.Expr)) for n in block):
            raise py2v.Untranslatable("LasWriter.write_evlrs: the guarded block is not a plain sequence of simple statements")
        return ("(* LasWriter.__init__: every simple statement that mentions self.header, in source order *)\n"
                "Definition writer_header_ops : list string := [\n  " + ";\n  ".join(cs(x) for x in hdr) + "].\n\n"
                "(* LasWriter.write_evlrs: the version guard (raises), the guard of the block that writes, its statements *)\n"
                "Definition write_evlrs_version_guard : string := " + cs(ast.unparse(body[0].test)) + ".\n"
                "Definition write_evlrs_guard : string := " + cs(guard) + ".\n"
                "Definition write_evlrs_ops : list string := [\n  " + ";\n  ".join(cs(ast.unparse(n)) for n in block) + "].\n")
    o.add("writer", writer_ops)

    # ---- the header re-synchronising its extra-bytes record: what it does to the VLR list, and who triggers it ----
    def mentions_vlrs(n):
        return any(isinstance(x, ast.Attribute) and x.attr in ("_vlrs", "vlrs") and ast.unparse(x.value) == "self" for x in ast.walk(n))

    def extracted_class(stmt, what):
        """the class name of `self.<list>.extract('<Name>')`"""
        c = stmt.value if isinstance(stmt, ast.Expr) else None
        if not (isinstance(c, ast.Call) and isinstance(c.func, ast.Attribute) and c.func.attr == "extract" and len(c.args) == 1
                and not c.keywords and isinstance(c.args[0], ast.Constant) and isinstance(c.args[0].value, str)
                and ast.unparse(c.func.value) in ("self._vlrs", "self.vlrs")):
            raise py2v.Untranslatable(f"{what}: expected self._vlrs.extract('<class name>'), found {ast.unparse(stmt)}")
        return c.args[0].value

    def sync_ops():
        mod = py2v.parse(repo, "laspy/header.py")
        cls = py2v.find_class(mod, "LasHeader")
        fn = py2v.find_func(cls, "_sync_extra_bytes_vlr")
        body = [n for n in fn.body if not is_doc(n) and not is_log(n)]
        # first statement: the stale record(s) taken out of the list, by class, under a try that only passes
        first = body[0] if body else None
        if not (isinstance(first, ast.Try) and len(first.body) == 1 and not first.orelse and not first.finalbody
                and all(len(h.body) == 1 and isinstance(h.body[0], ast.Pass) for h in first.handlers)):
            raise py2v.Untranslatable("_sync_extra_bytes_vlr: does not start with try: self._vlrs.extract(..) except ..: pass")
        name = extracted_class(first.body[0], "_sync_extra_bytes_vlr")
        touching = [n for n in simple_statements(fn) if mentions_vlrs(n)]
        texts = [ast.unparse(n) for n in touching]
        # everything else that touches the list: one append of a record built by ExtraBytesVlr()
        if len(touching) != 2 or not isinstance(touching[1], ast.Expr) or not isinstance(touching[1].value, ast.Call):
            raise py2v.Untranslatable(f"_sync_extra_bytes_vlr: statements on the VLR list are not [extract, append]: {texts}")
        ap = touching[1].value
        if not (isinstance(ap.func, ast.Attribute) and ap.func.attr == "append" and ast.unparse(ap.func.value) in ("self._vlrs", "self.vlrs")
                and len(ap.args) == 1 and isinstance(ap.args[0], ast.Name)):
            raise py2v.Untranslatable(f"_sync_extra_bytes_vlr: the list is not appended to by self._vlrs.append(<name>): {texts[1]}")
        var = ap.args[0].id
        made = [ast.unparse(n.value) for n in ast.walk(fn) if isinstance(n, ast.Assign) and len(n.targets) == 1
                and isinstance(n.targets[0], ast.Name) and n.targets[0].id == var]
        if made != ["ExtraBytesVlr()"]:
            raise py2v.Untranslatable(f"_sync_extra_bytes_vlr: the appended record is not built by ExtraBytesVlr(): {made}")
        # the append must be the last statement of the function, outside any loop / condition
        if fn.body[-1] is not touching[1]:
            raise py2v.Untranslatable("_sync_extra_bytes_vlr: the append is not the last statement")
        # the only way out before it: `if not extra_dimensions: return`
        rets = [n for n in ast.walk(fn) if isinstance(n, ast.Return)]
        guards = [n for n in body if isinstance(n, ast.If) and len(n.body) == 1 and isinstance(n.body[0], ast.Return) and not n.orelse]
        if len(rets) != 1 or len(guards) != 1 or guards[0].body[0] is not rets[0] or ast.unparse(guards[0].test) != "not extra_dimensions":
            raise py2v.Untranslatable("_sync_extra_bytes_vlr: early exits other than `if not extra_dimensions: return`")
        # the vlrs setter
        st = py2v.find_func(cls, "vlrs", decorator="vlrs.setter")
        sst = [n for n in simple_statements(st) if not is_log(n)]
        stexts = [ast.unparse(n) for n in sst]
        if len(sst) != 3 or stexts[0] != "self._vlrs = VLRList(vlrs)" or stexts[2] != "self._sync_extra_bytes_vlr()":
            raise py2v.Untranslatable(f"LasHeader.vlrs setter: unexpected statements {stexts}")
        tries = [n for n in ast.walk(st) if isinstance(n, ast.Try)]
        if any(not isinstance(b, ast.Pass) for t in tries for h in t.handlers for b in h.body) or any(t.orelse or t.finalbody for t in tries):
            raise py2v.Untranslatable("LasHeader.vlrs setter: an exception handler that does more than pass")
        sname = extracted_class(sst[1], "LasHeader.vlrs setter")
        return ("(* LasHeader._sync_extra_bytes_vlr: the class whose records are taken out of the VLR list (VLRList.extract),\n"
                "   every statement that touches the list, in source order; a record built from the point format is appended\n"
                "   unless there are no extra dimensions *)\n"
                "Definition sync_extracted_class : string := " + cs(name) + ".\n"
                "Definition sync_list_ops : list string := [\n  " + ";\n  ".join(cs(x) for x in texts) + "].\n\n"
                "(* LasHeader.vlrs setter: its statements; the class name it hands to extract *)\n"
                "Definition vlrs_setter_extracts : string := " + cs(sname) + ".\n"
                "Definition vlrs_setter_ops : list string := [\n  " + ";\n  ".join(cs(x) for x in stexts) + "].\n")
    o.add("sync", sync_ops)

    def resync_methods():
        """the methods and property setters of LasHeader from which _sync_extra_bytes_vlr is reached (calls self.m(..) and
        assignments self.p = .. to a property with a setter, transitively)"""
        mod = py2v.parse(repo, "laspy/header.py")
        cls = py2v.find_class(mod, "LasHeader")
        setters, funcs = {}, {}
        for n in cls.body:
            if isinstance(n, ast.FunctionDef):
                decs = [ast.unparse(d) for d in n.decorator_list]
                if any(d.endswith(".setter") for d in decs):
                    setters[n.name] = n
                elif "property" not in decs:
                    funcs[n.name] = n
        nodes = {("m", k): v for k, v in funcs.items()}
        nodes.update({("s", k): v for k, v in setters.items()})

        def edges(fn):
            out = set()
            for x in ast.walk(fn):
                if isinstance(x, ast.Call) and isinstance(x.func, ast.Attribute) and ast.unparse(x.func.value) == "self" and x.func.attr in funcs:
                    out.add(("m", x.func.attr))
                if isinstance(x, (ast.Assign, ast.AugAssign, ast.AnnAssign)):
                    for t in (x.targets if isinstance(x, ast.Assign) else [x.target]):
                        if isinstance(t, ast.Attribute) and ast.unparse(t.value) == "self" and t.attr in setters:
                            out.add(("s", t.attr))
            return out
        graph = {k: edges(v) for k, v in nodes.items()}
        target = ("m", "_sync_extra_bytes_vlr")
        if target not in nodes:
            raise py2v.Untranslatable("LasHeader._sync_extra_bytes_vlr not found")
        reach = {target}
        changed = True
        while changed:
            changed = False
            for k, es in graph.items():
                if k not in reach and es & reach:
                    reach.add(k)
                    changed = True
        # (a private helper introduced since this reader was written is a link of the chain, not an entry point)
        names = sorted({k[1] for k in reach if k != target and not (k[0] == "m" and k[1].startswith("_") and k[1] not in py2v.KNOWN_FUNCTIONS)})
        clash = [n for n in names if ("m", n) in nodes and ("s", n) in nodes]
        if clash:
            raise py2v.Untranslatable(f"LasHeader: {clash} name both a method and a property setter")
        return ("(* LasHeader: the methods / property setters that end in _sync_extra_bytes_vlr (call graph inside the class) *)\n"
                "Definition resync_methods : list string := [" + "; ".join(cs(x) for x in names) + "].\n")
    o.add("resync_methods", resync_methods)
    return o


TARGETS = {"GenKnown.v": gen_known}
