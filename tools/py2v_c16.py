"""py2v plugin for C16: structural summary of laspy/copc.py's HTTP fetching code -> coq/Gen/GenFetch.v.

What is extracted (fail closed: any statement that is not recognised makes the definition MISSING):
 * gen_worker_prog : the loop body of HttpFetcherThread.run as a list of instructions, in execution order
     ITestEmpty            `while not self.query_queue.empty():`           (test, then go on / leave the loop)
     ITake blocking        `self.query_queue.get_nowait()` in try/except Empty: break  (blocking=false)
                           `self.query_queue.get()`                                    (blocking=true)
     IFetch                `http_reader.seek(offset)` ; `data = http_reader.read(size)`
     IPutResult            `self.result_queue.put((data, offset))`   (reached only when the request succeeded)
     IPutExc               `self.result_queue.put(e)` in `except Exception as e`  (only when the request failed)
     ITaskDone             `self.query_queue.task_done()` in `finally` (both cases)
     IBreakIfFailed        `break` in the exception handler (runs after the finally block)
 * gen_main_prog : http_queue_strategy as a list of MPutAll / MStart use_min / MJoin / MDrain / MSort / MAssemble
 * gen_exec_* : http_thread_executor_strategy: own stream per job?, results taken in submission order?, pool joined
   (with-statement)?, the job = seek then read.
 * gen_stream_read : HttpRangeStream.read as a list of SZeroEmpty (`if n == 0: return b""`) / SRequest (range_end, headers,
   session.get) / SRaiseForStatus / SAdvance (`self.range_start += n`) / SReturnContent, in statement order
 * gen_fetch_workers : the worker count CopcReader._fetch_all_chunks hands to both strategies, as a function of http_num_threads
 * gen_retry : the retry configuration of the session HttpRangeStream uses, from requests_retry_session: mkRetry total connect read
     status_forcelist - the function must be, statement by statement, `session = session or requests.Session()` ; `retry =
     Retry(total=, read=, connect=, backoff_factor=, status_forcelist=)` (no other keyword; values: int literals or the parameters
     `retries` / `status_forcelist` with literal defaults) ; `adapter = HTTPAdapter(max_retries=retry)` (no other keyword) ; the two
     mounts ; `return session` - with Retry / HTTPAdapter being THE names imported from urllib3 / requests.adapters
 * gen_transport_kept : what the transport keeps between requests, process-wide.  TkNothing = nothing: the adapter is the stock
     requests.adapters.HTTPAdapter (a subclass, a wrapper, another keyword: MISSING), HttpRangeStream.__init__ only sets url,
     range_start and `self.session = requests_retry_session()` (no request at construction, no session passed in), close() closes
     the session, __exit__ calls close(), HttpRangeStream / HttpFetcherThread have no class-level assignment, and none of these
     functions nor read / seek references a module-level name bound to the result of a call (a shared session, lock, semaphore,
     pool, cache) or uses global / nonlocal.  TkSlots exists in the model only for the refutation.
 * gen_fetch_site : what the reader keeps of a query's fetched blocks for later queries.  FsDirect = nothing: the http branch of
     _fetch_all_chunks hands byte_queries and the query's own zero-filled buffer straight to the strategy (checked by
     fetch_workers), and neither _fetch_all_chunks nor _fetch_and_decompress_points_of_nodes stores anything that outlives the
     call (`no_state_kept`: no store into an attribute / into a container reached through an attribute, no global / nonlocal, no
     method call on an attribute of self other than source.seek / read / readinto, no module-level container or decorated
     (memoising) helper referenced, no mutable default argument).  Anything else: MISSING (a block cache is never recognised as
     correct; FsMemo exists in the model only for the refutation of the offset-keyed one)
run and http_queue_strategy are read in a normal form (`canon` below: temporaries inlined, docstrings / annotations gone, ...) and up
to the names of their locals: the names of the taken range, of the stream and of the caught exception are taken from the statements
that bind them, the statements of http_queue_strategy are compared with the reference ones under one injective renaming of locals.
"""
import ast
import copy
import keyword as _kw
import re

import py2v
from py2v import Untranslatable

TYPES = """Inductive winstr := ITestEmpty | ITake (blocking : bool) | IFetch | IPutResult | IPutExc | ITaskDone | IBreakIfFailed.
Inductive minstr := MPutAll | MStart (use_min : bool) | MJoin | MDrain | MSort | MAssemble.
Inductive collect_order := BySubmission | ByCompletion.
Inductive jinstr := JSeek | JRead.
Inductive sinstr := SZeroEmpty | SRequest | SRaiseForStatus | SAdvance | SReturnContent.
Inductive fetch_site := FsDirect | FsMemo (by_offset_only : bool).
Record retry_cfg := mkRetry { rt_total : nat; rt_connect : nat; rt_read : nat; rt_statuses : list Z }.
Inductive transport_kept := TkNothing | TkSlots (capacity : nat) (release_when_send_raises : bool).
"""


def u(node):
    return ast.unparse(node).strip()


def norm(s):
    return "".join(s.split())


def is_call_stmt(st, text):
    return isinstance(st, ast.Expr) and norm(u(st)) == norm(text)


# ======================================================================================================================
# Behaviour-preserving normal form of a function + matching of source fragments up to a consistent renaming of locals.
#   canon(f):  docstrings, annotations and logging calls dropped; a local helper whose body is one `return <expr>` inlined at
#              its call sites; `not` pushed inwards (De Morgan, `not (a is b)` -> `a is not b`, `not (a in r)` -> `a not in r`);
#              the `else`/`elif` part of an `if` whose body always leaves (continue/break/return/raise) lifted behind the `if`;
#              `if not c: A else: B` -> `if c: B else: A`; a local bound once and read once, by the next statement and before
#              anything with an effect is evaluated there, replaced by its defining expression.
#              `try: t = E / except Empty|KeyError|..: <leaves>` followed by `a, b = t` (only read of t) -> the unpacking
#              done in the try; a local that is never read is named `_`.
#   Alpha:     token-wise comparison of unparsed source with reference fragments in which the reference's local names are
#              variables: one injective renaming of the function's locals has to make ALL statements fit (parameters, attributes,
#              keyword names, globals are never renamed).
# Everything not understood is left as it is (so the fragments of the reference do not fit and the definition is MISSING).
# ======================================================================================================================

_LEAVE = (ast.Return, ast.Raise, ast.Continue, ast.Break)
_OPAQUE = (ast.Lambda, ast.ListComp, ast.SetComp, ast.DictComp, ast.GeneratorExp, ast.Dict)
_EFFECT = (ast.Call, ast.Await, ast.Yield, ast.YieldFrom, ast.NamedExpr)
_FLIP = {ast.Is: ast.IsNot, ast.IsNot: ast.Is, ast.In: ast.NotIn, ast.NotIn: ast.In}


def _blocks(node):
    """every statement list below node (node's own included)"""
    for n in ast.walk(node):
        for field in ("body", "orelse", "finalbody"):
            b = getattr(n, field, None)
            if isinstance(b, list) and b and isinstance(b[0], ast.stmt):
                yield b


def _leaves(block):
    if not block:
        return False
    last = block[-1]
    if isinstance(last, _LEAVE):
        return True
    return isinstance(last, ast.If) and _leaves(last.body) and _leaves(last.orelse)


def _is_log_call(s):
    if not (isinstance(s, ast.Expr) and isinstance(s.value, ast.Call) and isinstance(s.value.func, ast.Attribute)):
        return False
    base = s.value.func.value
    return isinstance(base, ast.Name) and base.id in ("logger", "logging", "log", "_logger", "LOGGER") and \
        s.value.func.attr in ("debug", "info", "warning", "error", "exception", "critical", "log")


def _strip(f):
    for n in ast.walk(f):
        if isinstance(n, (ast.FunctionDef, ast.AsyncFunctionDef)):
            n.returns = None
            a = n.args
            for arg in a.posonlyargs + a.args + a.kwonlyargs + [x for x in (a.vararg, a.kwarg) if x is not None]:
                arg.annotation = None
    for b in _blocks(f):
        new = []
        for s in b:
            if isinstance(s, ast.Expr) and isinstance(s.value, ast.Constant):
                continue                                             # docstring / bare literal: no effect
            if _is_log_call(s):
                continue
            if isinstance(s, ast.AnnAssign):
                if s.value is None:
                    continue
                if isinstance(s.target, ast.Name):
                    s = ast.copy_location(ast.Assign(targets=[s.target], value=s.value), s)
            new.append(s)
        b[:] = new or [ast.Pass()]


def _nnf(e, truth=False):
    """`not` pushed inwards; truth: only the truth value of e is used"""
    if isinstance(e, ast.UnaryOp) and isinstance(e.op, ast.Not):
        x = _nnf(e.operand, True)
        if isinstance(x, ast.BoolOp):
            dual = ast.Or() if isinstance(x.op, ast.And) else ast.And()
            return ast.BoolOp(op=dual, values=[_nnf(ast.UnaryOp(op=ast.Not(), operand=v), True) for v in x.values])
        if isinstance(x, ast.Compare) and len(x.ops) == 1 and type(x.ops[0]) in _FLIP:
            return ast.Compare(left=x.left, ops=[_FLIP[type(x.ops[0])]()], comparators=x.comparators)
        if isinstance(x, ast.UnaryOp) and isinstance(x.op, ast.Not) and truth:
            return x.operand
        return ast.UnaryOp(op=ast.Not(), operand=x)
    if isinstance(e, ast.BoolOp):
        return ast.BoolOp(op=e.op, values=[_nnf(v, truth) for v in e.values])
    if isinstance(e, ast.IfExp):
        return ast.IfExp(test=_nnf(e.test, True), body=_nnf(e.body, truth), orelse=_nnf(e.orelse, truth))
    for field, v in ast.iter_fields(e):
        if isinstance(v, ast.expr):
            setattr(e, field, _nnf(v))
        elif isinstance(v, list):
            setattr(e, field, [_nnf(x) if isinstance(x, ast.expr) else _nnf_other(x) for x in v])
        elif isinstance(v, ast.AST):
            _nnf_other(v)
    return e


def _nnf_other(n):
    """keyword / comprehension / slice-like helpers: normalise the expressions inside"""
    if isinstance(n, ast.AST):
        for field, v in ast.iter_fields(n):
            if isinstance(v, ast.expr):
                setattr(n, field, _nnf(v))
            elif isinstance(v, list):
                setattr(n, field, [_nnf(x) if isinstance(x, ast.expr) else _nnf_other(x) for x in v])
    return n


def _nnf_stmts(f):
    for n in ast.walk(f):
        if not isinstance(n, ast.stmt):
            continue
        for field, v in ast.iter_fields(n):
            if isinstance(v, ast.expr):
                setattr(n, field, _nnf(v, truth=field == "test"))
            elif isinstance(v, list) and v and isinstance(v[0], ast.expr):
                setattr(n, field, [_nnf(x) for x in v])
            elif isinstance(v, list) and v and isinstance(v[0], ast.withitem):
                for w in v:
                    w.context_expr = _nnf(w.context_expr)


def _negate(e):
    return _nnf(ast.UnaryOp(op=ast.Not(), operand=e), True)


def _is_not(e):
    return isinstance(e, ast.UnaryOp) and isinstance(e.op, ast.Not)


def _branches(f):
    changed = False
    for b in list(_blocks(f)):
        i = 0
        while i < len(b):
            s = b[i]
            if isinstance(s, ast.If) and s.orelse:
                if _leaves(s.orelse) and not _leaves(s.body):
                    s.test, s.body, s.orelse = _negate(s.test), s.orelse, s.body
                    changed = True
                if _leaves(s.body):
                    b[i + 1:i + 1] = s.orelse
                    s.orelse = []
                    changed = True
                elif _is_not(s.test):
                    s.test, s.body, s.orelse = s.test.operand, s.orelse, s.body
                    changed = True
            i += 1
    return changed


def _name_counts(f):
    loads, stores = {}, {}

    def bump(d, k, n=1):
        d[k] = d.get(k, 0) + n
    for n in ast.walk(f):
        if isinstance(n, ast.Name):
            bump(loads if isinstance(n.ctx, ast.Load) else stores, n.id)
        elif isinstance(n, ast.arg):
            bump(stores, n.arg)
        elif isinstance(n, ast.ExceptHandler) and n.name:
            bump(stores, n.name)
        elif isinstance(n, (ast.Global, ast.Nonlocal)):
            for k in n.names:
                bump(stores, k, 2)
        elif isinstance(n, (ast.FunctionDef, ast.AsyncFunctionDef, ast.ClassDef)) and n is not f:
            bump(stores, n.name)
        elif isinstance(n, ast.alias):
            bump(stores, (n.asname or n.name).split(".")[0])
        if isinstance(n, ast.AugAssign) and isinstance(n.target, ast.Name):
            bump(loads, n.target.id)
    return loads, stores


def _mentions(node, name):
    return any(isinstance(m, ast.Name) and m.id == name for m in ast.walk(node))


class _Use:
    """is the single read of `name` in the expressions a statement evaluates first reached unconditionally and before any effect?"""

    def __init__(self, name):
        self.name, self.effect, self.verdict = name, False, None

    def scan(self, e, cond=False):
        if self.verdict is not None or e is None:
            return
        if isinstance(e, ast.Name):
            if e.id == self.name and isinstance(e.ctx, ast.Load):
                self.verdict = not (cond or self.effect)
            return
        if isinstance(e, _OPAQUE):
            if _mentions(e, self.name):
                self.verdict = False
            elif any(isinstance(m, _EFFECT) for m in ast.walk(e)):
                self.effect = True
            return
        if isinstance(e, ast.BoolOp):
            self.scan(e.values[0], cond)
            for v in e.values[1:]:
                self.scan(v, True)
            return
        if isinstance(e, ast.IfExp):
            self.scan(e.test, cond)
            self.scan(e.body, True)
            self.scan(e.orelse, True)
            return
        if isinstance(e, ast.Compare):
            self.scan(e.left, cond)
            self.scan(e.comparators[0], cond)
            for v in e.comparators[1:]:
                self.scan(v, True)
            return
        for child in ast.iter_child_nodes(e):
            if isinstance(child, (ast.expr, ast.keyword, ast.Slice)):
                self.scan(child, cond)
        if isinstance(e, _EFFECT):
            self.effect = True


def _heads(s):
    """the expressions statement s evaluates exactly once, first, in this order (None: unknown statement)"""
    if isinstance(s, ast.Assign):
        return [s.value] + s.targets
    if isinstance(s, (ast.Expr, ast.Return)):
        return [s.value]
    if isinstance(s, ast.Raise):
        return [s.exc, s.cause]
    if isinstance(s, ast.If):
        return [s.test]
    if isinstance(s, ast.For):
        return [s.iter]
    if isinstance(s, ast.With):
        return [s.items[0].context_expr]
    return None


class _Put(ast.NodeTransformer):
    def __init__(self, table):
        self.table = table

    def visit_Name(self, node):
        if isinstance(node.ctx, ast.Load) and node.id in self.table:
            return copy.deepcopy(self.table[node.id])
        return node


def _inline_temps(f):
    changed = False
    loads, stores = _name_counts(f)
    for b in list(_blocks(f)):
        i = 0
        while i + 1 < len(b):
            s, nxt = b[i], b[i + 1]
            if isinstance(s, ast.Assign) and len(s.targets) == 1 and isinstance(s.targets[0], ast.Name):
                t = s.targets[0].id
                heads = _heads(nxt)
                if stores.get(t) == 1 and loads.get(t) == 1 and heads is not None and not _mentions(s.value, t):
                    use = _Use(t)
                    for h in heads:
                        use.scan(h)
                    if use.verdict:
                        put = _Put({t: s.value})
                        for field, v in list(ast.iter_fields(nxt)):
                            if isinstance(v, ast.expr) and any(v is h for h in heads):
                                setattr(nxt, field, put.visit(v))
                            elif isinstance(v, list) and v and all(isinstance(x, ast.expr) for x in v):
                                setattr(nxt, field, [put.visit(x) if any(x is h for h in heads) else x for x in v])
                        if isinstance(nxt, ast.With):
                            nxt.items[0].context_expr = put.visit(nxt.items[0].context_expr)
                        del b[i]
                        loads[t] = 0
                        changed = True
                        i = max(i - 1, 0)
                        continue
            i += 1
    return changed


def _simple_arg(e):
    while isinstance(e, ast.Attribute):
        e = e.value
    return isinstance(e, (ast.Name, ast.Constant))


def _inline_helpers(f):
    changed = False
    for b in list(_blocks(f)):
        for s in list(b):
            if not (isinstance(s, ast.FunctionDef) and s is not f and not s.decorator_list):
                continue
            a = s.args
            if a.vararg or a.kwarg or a.kwonlyargs or a.defaults or a.kw_defaults:
                continue
            body = [x for x in s.body if not (isinstance(x, ast.Expr) and isinstance(x.value, ast.Constant))]
            if len(body) != 1 or not isinstance(body[0], ast.Return) or body[0].value is None:
                continue
            expr = body[0].value
            if any(isinstance(m, _OPAQUE[:-1] + (ast.NamedExpr, ast.Await, ast.Yield, ast.YieldFrom)) for m in ast.walk(expr)):
                continue
            params = [x.arg for x in a.posonlyargs + a.args]
            loads, stores = _name_counts(f)
            if stores.get(s.name) != 1:
                continue
            free = {m.id for m in ast.walk(expr) if isinstance(m, ast.Name)} - set(params)
            late = [m for m in ast.walk(f) if isinstance(m, ast.Name) and not isinstance(m.ctx, ast.Load) and m.id in free
                    and m.lineno >= s.lineno]
            if late or any(stores.get(k, 0) > 1 for k in free):
                continue                                             # what the helper reads may change between definition and call
            calls = [m for m in ast.walk(f) if isinstance(m, ast.Call) and isinstance(m.func, ast.Name) and m.func.id == s.name]
            if len(calls) != loads.get(s.name, 0) or not calls:
                continue                                             # the helper is also passed around
            if any(c.keywords or len(c.args) != len(params) or not all(_simple_arg(x) for x in c.args)
                   or c.lineno <= s.end_lineno for c in calls):
                continue
            ids = {id(c): c for c in calls}

            class _Calls(ast.NodeTransformer):
                def visit_Call(self, node):
                    node = self.generic_visit(node)
                    if id(node) in ids:
                        return _Put(dict(zip(params, node.args))).visit(copy.deepcopy(expr))
                    return node
            b.remove(s)
            _Calls().visit(f)
            changed = True
    return changed


_NOT_UNPACK_ERRORS = ("Empty", "KeyError", "IndexError", "StopIteration")


def _try_tails(f):
    """try: t = E / except <lookup error>: <leaves>   followed by   a, b = t   (the only read of t)
       ->  try: a, b = E / except ...   — unpacking a name raises TypeError/ValueError only, which such a handler does not catch"""
    changed = False
    loads, stores = _name_counts(f)
    for b in list(_blocks(f)):
        for i in range(len(b) - 1):
            s, nxt = b[i], b[i + 1]
            if not (isinstance(s, ast.Try) and s.handlers and not s.orelse and not s.finalbody
                    and all(isinstance(h.type, ast.Name) and h.type.id in _NOT_UNPACK_ERRORS and _leaves(h.body) for h in s.handlers)):
                continue
            last = s.body[-1]
            if not (isinstance(last, ast.Assign) and len(last.targets) == 1 and isinstance(last.targets[0], ast.Name)):
                continue
            t = last.targets[0].id
            if not (isinstance(nxt, ast.Assign) and isinstance(nxt.value, ast.Name) and nxt.value.id == t and len(nxt.targets) == 1
                    and isinstance(nxt.targets[0], (ast.Tuple, ast.List)) and all(isinstance(x, ast.Name) for x in nxt.targets[0].elts)
                    and loads.get(t) == 1 and stores.get(t) == 1):
                continue
            last.targets = nxt.targets
            del b[i + 1]
            return True
    return changed


def _dead_stores(f):
    """a local that is never read is named `_`"""
    loads, stores = _name_counts(f)
    if loads.get("_"):
        return
    params = {n.arg for n in ast.walk(f) if isinstance(n, ast.arg)}
    fixed = {k for n in ast.walk(f) if isinstance(n, (ast.Global, ast.Nonlocal)) for k in n.names}
    for n in ast.walk(f):
        if isinstance(n, ast.Name) and isinstance(n.ctx, ast.Store) and not loads.get(n.id) and n.id not in params | fixed:
            n.id = "_"


def canon(f):
    f = copy.deepcopy(f)
    _strip(f)
    for _ in range(50):
        _nnf_stmts(f)
        if not (_inline_helpers(f) | _branches(f) | _try_tails(f) | _inline_temps(f)):
            break
    _dead_stores(f)
    return ast.fix_missing_locations(f)


_TOKEN = re.compile(r"""\s*(?:(?P<lit>[rbfuRBFU]{0,2}(?:'(?:[^'\\]|\\.)*'|"(?:[^"\\]|\\.)*")|\d[\w.]*)|(?P<id>[A-Za-z_]\w*)"""
                    r"""|(?P<op>\*\*=?|//=?|<<=?|>>=?|[-+*/%&|^@<>=!:]=|->|\.\.\.|\S))""")


def _tokens(text):
    raw = [(m.lastgroup, m.group(m.lastgroup)) for m in _TOKEN.finditer(text) if m.lastgroup]
    out, stack = [], []
    for i, (k, t) in enumerate(raw):
        if k == "op" and t in "([{":
            stack.append(t)
        elif k == "op" and t in ")]}" and stack:
            stack.pop()
        if k == "id":
            prev = raw[i - 1][1] if i else ""
            nxt = raw[i + 1][1] if i + 1 < len(raw) else ""
            if prev == ".":
                k = "attr"
            elif nxt == "=" and stack and stack[-1] == "(" and prev in ("(", ","):
                k = "kw"
            elif _kw.iskeyword(t):
                k = "key"
        out.append((k, t))
    return out


def _bound_names(f):
    top = f.args
    params = {a.arg for a in top.posonlyargs + top.args + top.kwonlyargs + [x for x in (top.vararg, top.kwarg) if x]}
    bound, fixed = set(), set(params)
    for n in ast.walk(f):
        if isinstance(n, ast.Name) and not isinstance(n.ctx, ast.Load):
            bound.add(n.id)
        elif isinstance(n, ast.arg):
            bound.add(n.arg)
        elif isinstance(n, ast.ExceptHandler) and n.name:
            bound.add(n.name)
        elif isinstance(n, (ast.FunctionDef, ast.AsyncFunctionDef)) and n is not f:
            bound.add(n.name)
        elif isinstance(n, (ast.Global, ast.Nonlocal)):
            fixed.update(n.names)
        elif isinstance(n, (ast.ClassDef, ast.alias)):
            fixed.add(getattr(n, "asname", None) or n.name)
    return bound - fixed - {"_"}


class Alpha:
    """f: a function in normal form; ref_locals: the local names of the reference that occur in the fragments"""

    def __init__(self, f, ref_locals):
        self.f = f
        self.src = _tokens(ast.unparse(f))
        self.renamable = _bound_names(f)
        self.ref = set(ref_locals.split())
        self.bind, self.inv = {}, {}

    def _fit(self, needle, pos, bind, inv):
        if pos + len(needle) > len(self.src):
            return None
        bind, inv = dict(bind), dict(inv)
        for (nk, nt), (sk, st) in zip(needle, self.src[pos:pos + len(needle)]):
            if nk == "id" and nt in self.ref:
                if sk != "id" or st not in self.renamable:
                    return None
                if bind.setdefault(nt, st) != st or inv.setdefault(st, nt) != nt:
                    return None
            elif nk != sk or nt != st or (sk == "id" and st in self.renamable):
                return None
        return bind, inv

    def fits(self, stmts, text):
        """do the statements read like the reference text, under the renaming fixed so far (extended, and kept, on success)?"""
        got = _tokens("\n".join(ast.unparse(x) for x in stmts))
        want = _tokens(_fragment(text))
        if len(got) != len(want):
            return False
        saved, self.src = self.src, got
        r = self._fit(want, 0, self.bind, self.inv)
        self.src = saved
        if r is None:
            return False
        self.bind, self.inv = r
        return True


def _fragment(text):
    """a reference fragment printed the way ast.unparse prints the source (when it is a complete statement list)"""
    try:
        return ast.unparse(ast.parse(text))
    except SyntaxError:
        return text


# ------------------------------------------------------------------ a function moved out to module level, moved back
def _stored_names(stmts):
    out = set()
    for s in stmts:
        for n in ast.walk(s):
            if isinstance(n, ast.Name) and not isinstance(n.ctx, ast.Load):
                out.add(n.id)
            elif isinstance(n, ast.ExceptHandler) and n.name:
                out.add(n.name)
    return out


def _all_params(f):
    a = f.args
    return {x.arg for x in a.posonlyargs + a.args + a.kwonlyargs + [y for y in (a.vararg, a.kwarg) if y is not None]}


def _unhoist(mod):
    """A module-level function that did not exist when the readers were written (tools/known_functions.json), that a function
    passes around (not calls) and that reads nothing bound in that function, is defined locally again: first statement of the
    with-block / body that holds all its uses. Where a closure-free function is defined makes no difference; anything else
    (decorated, bound twice, reads a name the function binds, has inner functions) is left where it is."""
    tops = {}
    for n in mod.body:
        if isinstance(n, (ast.FunctionDef, ast.AsyncFunctionDef, ast.ClassDef)):
            tops.setdefault(n.name, []).append(n)
    other = _stored_names([n for n in mod.body if not isinstance(n, (ast.FunctionDef, ast.AsyncFunctionDef, ast.ClassDef))])

    def fix(f):
        called = {id(c.func) for c in ast.walk(f) if isinstance(c, ast.Call)}
        bound = _bound_names(f) | _all_params(f)
        passed = []
        for n in ast.walk(f):
            if isinstance(n, ast.Name) and isinstance(n.ctx, ast.Load) and id(n) not in called and n.id not in passed:
                passed.append(n.id)
        for name in passed:
            g = tops.get(name, [None])[0]
            if name in py2v.KNOWN_FUNCTIONS or name in bound or name in other or len(tops.get(name, [])) != 1 \
                    or not isinstance(g, ast.FunctionDef) or g.decorator_list or g is f:
                continue
            if any(isinstance(x, (ast.Global, ast.Nonlocal)) for x in ast.walk(g)):
                continue
            reads = {x.id for x in ast.walk(g) if isinstance(x, ast.Name)} - _all_params(g) - _stored_names(g.body)
            if reads & bound or any(isinstance(x, (ast.FunctionDef, ast.AsyncFunctionDef, ast.Lambda, ast.ClassDef)) and x is not g
                                    for x in ast.walk(g)):
                continue                                             # the local copy would read the function's variables
            block = f.body
            while True:
                holders = [s for s in block if _mentions(s, name)]
                if len(holders) == 1 and isinstance(holders[0], ast.With) and not any(_mentions(w.context_expr, name) for w in holders[0].items):
                    block = holders[0].body
                else:
                    break
            at = 1 if block is f.body and block and isinstance(block[0], ast.Expr) and isinstance(block[0].value, ast.Constant) else 0
            block.insert(at, copy.deepcopy(g))

    for n in mod.body:
        if isinstance(n, ast.FunctionDef):
            fix(n)
        elif isinstance(n, ast.ClassDef):
            for m in n.body:
                if isinstance(m, ast.FunctionDef):
                    fix(m)
    return ast.fix_missing_locations(mod)


# ------------------------------------------------------------------ worker
def take_instr(st):
    """recognise the statement that takes a range from the query queue; returns (instr text, (offset name, size name)) or None"""
    def unpacked(a):
        if (isinstance(a, ast.Assign) and len(a.targets) == 1 and isinstance(a.targets[0], ast.Tuple) and len(a.targets[0].elts) == 2
                and all(isinstance(x, ast.Name) for x in a.targets[0].elts)):
            return tuple(x.id for x in a.targets[0].elts), norm(u(a.value))
        return None, None
    if isinstance(st, ast.Try):
        if (len(st.body) == 1 and not st.orelse and not st.finalbody and len(st.handlers) == 1
                and isinstance(st.handlers[0].type, ast.Name) and st.handlers[0].type.id == "Empty"
                and len(st.handlers[0].body) == 1 and isinstance(st.handlers[0].body[0], ast.Break)):
            names, s = unpacked(st.body[0])
            if s in ("self.query_queue.get_nowait()", "self.query_queue.get(False)", "self.query_queue.get(block=False)"):
                return "ITake false", names
        return None
    names, s = unpacked(st)
    if s in ("self.query_queue.get()", "self.query_queue.get(True)", "self.query_queue.get(block=True)"):
        return "ITake true", names
    return None


def fetch_try(st, reader, offset, size):
    """the try statement around the request -> list of instrs (body, else, handler, finally, break).
    offset, size: the names the taken range was unpacked into"""
    if not isinstance(st, ast.Try) or len(st.handlers) != 1:
        raise Untranslatable("worker: unexpected statement " + u(st)[:60])
    h = st.handlers[0]
    if not (isinstance(h.type, ast.Name) and h.type.id == "Exception" and h.name):
        raise Untranslatable("worker: handler is not `except Exception as e`")
    out = []
    body = list(st.body)
    read = f"{reader}.read({size})"
    if len(body) < 2 or norm(u(body[0])) != norm(f"{reader}.seek({offset})"):
        raise Untranslatable("worker: request is not seek(offset); data = read(size)")
    if (isinstance(body[1], ast.Assign) and len(body[1].targets) == 1 and isinstance(body[1].targets[0], ast.Name)
            and norm(u(body[1].value)) == norm(read)):
        data = body[1].targets[0].id
        out.append("IFetch")
        rest = body[2:]
    elif is_call_stmt(body[1], f"self.result_queue.put(({read}, {offset}))"):
        # normal form of `data = read(size); put((data, offset))` when data is not used again
        data = None
        out += ["IFetch", "IPutResult"]
        rest = body[2:]
    else:
        raise Untranslatable("worker: request is not seek(offset); data = read(size)")
    if len({reader, offset, size, data, h.name}) != 5:
        raise Untranslatable("worker: a name is used for two things")

    def success_only(stmts):
        for s in stmts:
            if data is not None and is_call_stmt(s, f"self.result_queue.put(({data}, {offset}))"):
                out.append("IPutResult")
            else:
                raise Untranslatable("worker: statement on the success path: " + u(s)[:60])
    success_only(rest)
    success_only(st.orelse)
    brk = False
    for s in h.body:
        if is_call_stmt(s, f"self.result_queue.put({h.name})"):
            if brk:
                raise Untranslatable("worker: statement after break")
            out.append("IPutExc")
        elif isinstance(s, ast.Break):
            brk = True
        else:
            raise Untranslatable("worker: statement in the handler: " + u(s)[:60])
    for s in st.finalbody:
        if is_call_stmt(s, "self.query_queue.task_done()"):
            out.append("ITaskDone")
        else:
            raise Untranslatable("worker: statement in finally: " + u(s)[:60])
    if brk:
        out.append("IBreakIfFailed")
    return out


def worker_prog(repo):
    mod = py2v.parse(repo, "laspy/copc.py")
    cls = py2v.find_class(mod, "HttpFetcherThread")
    if [u(b) for b in cls.bases] != ["Thread"]:
        raise Untranslatable("HttpFetcherThread is not a Thread")
    run = canon(py2v.find_func(cls, "run"))       # normal form: temporaries inlined, comments / annotations gone
    if len(run.body) != 1 or not isinstance(run.body[0], ast.With):
        raise Untranslatable("run: expected a single with statement")
    w = run.body[0]
    if len(w.items) != 1 or norm(u(w.items[0].context_expr)) != "HttpRangeStream(self.url)" or w.items[0].optional_vars is None:
        raise Untranslatable("run: expected `with HttpRangeStream(self.url) as <name>` (one stream per worker)")
    reader = u(w.items[0].optional_vars)
    if len(w.body) != 1 or not isinstance(w.body[0], ast.While) or w.body[0].orelse:
        raise Untranslatable("run: expected a single while loop")
    loop = w.body[0]
    instrs = []
    test = norm(u(loop.test))
    if test == "True":
        pass
    elif test == "notself.query_queue.empty()":
        instrs.append("ITestEmpty")
    else:
        raise Untranslatable("run: loop test " + u(loop.test))
    seen_take = None
    for st in loop.body:
        t = take_instr(st)
        if t is not None:
            if seen_take:
                raise Untranslatable("run: two takes in one iteration")
            seen_take = t[1]
            instrs.append(t[0])
        elif is_call_stmt(st, "self.query_queue.task_done()"):
            instrs.append("ITaskDone")
        else:
            if not seen_take:
                raise Untranslatable("run: request before a range was taken")
            instrs += fetch_try(st, reader, *seen_take)
    if not seen_take:
        raise Untranslatable("run: no take")
    return instrs


# ------------------------------------------------------------------ main (queue strategy)
def main_prog(repo):
    mod = py2v.parse(repo, "laspy/copc.py")
    f = py2v.find_func(mod, "http_queue_strategy")
    args = [a.arg for a in f.args.args]
    if args != ["source", "byte_queries", "out_compressed_bytes", "num_threads"]:
        raise Untranslatable("http_queue_strategy signature")
    f = canon(f)                                   # normal form; the reference statements below are those of the normal form
    al = Alpha(f, "query_queue result_queue query results result x citer group_bytes")     # locals: any consistent renaming
    body = f.body
    start = "for _ in range({n}):\n    HttpFetcherThread(source.url, query_queue, result_queue).start()"
    known = [
        ("MPutAll", 1, "for query in byte_queries:\n    query_queue.put(query)"),
        ("MStart true", 1, start.format(n="min(len(byte_queries), num_threads)")),
        ("MStart false", 1, start.format(n="num_threads")),
        ("MJoin", 1, "query_queue.join()"),
        ("MDrain", 2, "results = []\nwhile not result_queue.empty():\n    result = result_queue.get()\n"
                      "    if isinstance(result, Exception):\n        raise result\n    results.append(result)"),
        ("MSort", 1, "results.sort(key=lambda x: x[1])"),
        ("MAssemble", 2, "citer = ChunkIter(out_compressed_bytes)\nfor group_bytes, _ in results:\n"
                         "    citer.next(len(group_bytes))[:] = group_bytes"),
    ]
    if not al.fits(body[:2], "query_queue = Queue()\nresult_queue = SimpleQueue()"):
        raise Untranslatable("main: queues are not Queue() / SimpleQueue()")
    prog = []
    i = 2
    while i < len(body):
        for instr, k, text in known:
            if i + k <= len(body) and al.fits(body[i:i + k], text):
                prog.append(instr)
                i += k
                break
        else:
            raise Untranslatable("main: unexpected statement " + u(body[i])[:70])
    return prog


def chunk_iter_ok(repo):
    mod = py2v.parse(repo, "laspy/copc.py")
    cls = py2v.find_class(mod, "ChunkIter")
    nx = py2v.find_func(cls, "next")
    init = py2v.find_func(cls, "__init__")
    if norm(u(init.body[-1])) != "self.buffer=memoryview(buffer)" or [norm(u(s)) for s in nx.body] != [
            "slc=self.buffer[:size]", "self.buffer=self.buffer[size:]", "returnslc"]:
        raise Untranslatable("ChunkIter shape")


# ------------------------------------------------------------------ executor strategy
def exec_summary(repo):
    mod = py2v.parse(repo, "laspy/copc.py")
    if py2v.NF_MODE:                               # second reading only: the job function may have been moved to module level
        mod = _unhoist(copy.deepcopy(mod))
    f = py2v.find_func(mod, "http_thread_executor_strategy")
    body = [s for s in f.body if not (isinstance(s, ast.Expr) and isinstance(s.value, ast.Constant))]
    if len(body) != 1 or not isinstance(body[0], ast.With):
        raise Untranslatable("executor: expected one with statement (pool joined on every exit)")
    w = body[0]
    if len(w.items) != 1 or norm(u(w.items[0].context_expr)) != "ThreadPoolExecutor(max_workers=num_threads)":
        raise Untranslatable("executor: pool construction")
    pool = u(w.items[0].optional_vars)
    stmts = list(w.body)
    if len(stmts) != 5:
        raise Untranslatable("executor: body shape")
    job, jobs0, subm, cit, coll = stmts
    if not isinstance(job, ast.FunctionDef) or [a.arg for a in job.args.args] != ["source", "offset", "size"]:
        raise Untranslatable("executor: job function")
    jb = [norm(u(s)) for s in job.body]
    if jb != ["source.seek(offset)", "returnsource.read(size)"]:
        raise Untranslatable("executor: job body is not seek; read")
    if norm(u(jobs0)) != "jobs=[]":
        raise Untranslatable("executor: jobs list")
    per_job = norm(f"for offset, size in byte_queries:\n    jobs.append({pool}.submit({job.name}, HttpRangeStream(source.url), offset, size))")
    shared = norm(f"for offset, size in byte_queries:\n    jobs.append({pool}.submit({job.name}, source, offset, size))")
    s = norm(u(subm))
    if s == per_job:
        own = "true"
    elif s == shared:
        own = "false"
    else:
        raise Untranslatable("executor: submission loop")
    if norm(u(cit)) != "citer=ChunkIter(out_compressed_bytes)":
        raise Untranslatable("executor: ChunkIter")
    by_sub = norm("for future in jobs:\n    group_bytes = future.result()\n    cc = citer.next(len(group_bytes))\n    cc[:] = group_bytes")
    by_comp = norm("for future in as_completed(jobs):\n    group_bytes = future.result()\n    cc = citer.next(len(group_bytes))\n    cc[:] = group_bytes")
    c = norm(u(coll))
    if c == by_sub:
        order = "BySubmission"
    elif c == by_comp:
        order = "ByCompletion"
    else:
        raise Untranslatable("executor: collection loop")
    return own, order


def stream_prog(repo):
    """HttpRangeStream.read statement by statement -> list of sinstr; seek must set range_start"""
    mod = py2v.parse(repo, "laspy/copc.py")
    cls = py2v.find_class(mod, "HttpRangeStream")
    seek = [norm(u(s)) for s in py2v.find_func(cls, "seek").body]
    if seek[-1] != "self.range_start=pos":
        raise Untranslatable("HttpRangeStream.seek")
    rd = py2v.find_func(cls, "read")
    if [a.arg for a in rd.args.args] != ["self", "n"]:
        raise Untranslatable("HttpRangeStream.read signature")
    body = [s for s in rd.body if not (isinstance(s, ast.Expr) and isinstance(s.value, ast.Constant))]
    text = [norm(u(s)) for s in body]
    request = ["range_end=self.range_start+n-1", norm("headers = {'Range': f'bytes={self.range_start}-{range_end}'}"),
               "r=self.session.get(self.url,headers=headers)"]
    out = []
    i = 0
    while i < len(text):
        t = text[i]
        if t == "ifn==0:return" + norm("b''"):
            out.append("SZeroEmpty")
        elif text[i:i + 3] == request:
            out.append("SRequest")
            i += 2
        elif t == "r.raise_for_status()":
            out.append("SRaiseForStatus")
        elif t == "self.range_start+=n":
            out.append("SAdvance")
        elif t == "returnr.content":
            out.append("SReturnContent")
        else:
            raise Untranslatable("HttpRangeStream.read: unexpected statement " + u(body[i])[:70])
        i += 1
    return out


def fetch_workers(repo):
    """CopcReader._fetch_all_chunks: the http branch hands byte_queries and the reader's http_num_threads to the strategies"""
    mod = py2v.parse(repo, "laspy/copc.py")
    cls = py2v.find_class(mod, "CopcReader")
    f = py2v.find_func(cls, "_fetch_all_chunks")
    branch = None
    for st in f.body:
        if isinstance(st, ast.If) and norm(u(st.test)) == "isinstance(self.source,HttpRangeStream)":
            branch = st
    if branch is None:
        raise Untranslatable("_fetch_all_chunks: no `if isinstance(self.source, HttpRangeStream)` branch")
    if len(branch.body) != 1 or not isinstance(branch.body[0], ast.If):
        raise Untranslatable("_fetch_all_chunks: the http branch does more than choosing a strategy: " + u(branch.body[0])[:70])
    sel = branch.body[0]
    if norm(u(sel.test)) != norm("self.http_strategy == 'queue'") or len(sel.body) != 1 or len(sel.orelse) != 1:
        raise Untranslatable("_fetch_all_chunks: strategy selection")
    exprs = []
    for st, fn in ((sel.body[0], "http_queue_strategy"), (sel.orelse[0], "http_thread_executor_strategy")):
        if not (isinstance(st, ast.Expr) and isinstance(st.value, ast.Call) and u(st.value.func) == fn
                and len(st.value.args) == 4 and not st.value.keywords):
            raise Untranslatable("_fetch_all_chunks: call of " + fn)
        a = [norm(u(x)) for x in st.value.args]
        if a[:3] != ["self.source", "byte_queries", "compressed_bytes"]:
            raise Untranslatable("_fetch_all_chunks: arguments of " + fn)
        exprs.append(a[3])
    if exprs[0] != exprs[1]:
        raise Untranslatable("_fetch_all_chunks: the strategies get different worker counts")
    if exprs[0] != "self.http_num_threads":
        raise Untranslatable("_fetch_all_chunks: worker count is " + exprs[0])
    init = py2v.find_func(cls, "__init__")
    if "self.http_num_threads=http_num_threads" not in [norm(u(s)) for s in init.body]:
        raise Untranslatable("CopcReader.__init__: http_num_threads")
    return "http_num_threads"


# ------------------------------------------------------------------ the transport: requests_retry_session and who uses it
def _imported_from(mod, name, modules):
    """`name` is bound at module level by exactly one `from <one of modules> import name` and by nothing else"""
    hits = 0
    for st in ast.walk(mod):
        if isinstance(st, ast.ImportFrom):
            for a in st.names:
                if (a.asname or a.name) == name:
                    if st.module not in modules or a.name != name:
                        raise Untranslatable(f"{name} is imported from {st.module}")
                    hits += 1
        elif isinstance(st, ast.Import):
            for a in st.names:
                if (a.asname or a.name).split(".")[0] == name:
                    raise Untranslatable(f"{name} is bound by `import {a.name}`")
        elif isinstance(st, (ast.ClassDef, ast.FunctionDef, ast.AsyncFunctionDef)) and st.name == name:
            raise Untranslatable(f"{name} is defined in laspy/copc.py (line {st.lineno}), not the imported one")
        elif isinstance(st, ast.Name) and st.id == name and not isinstance(st.ctx, ast.Load):
            raise Untranslatable(f"{name} is rebound (line {st.lineno})")
    if hits != 1:
        raise Untranslatable(f"{name}: {hits} imports")


def _int_lit(e, what):
    if isinstance(e, ast.Constant) and type(e.value) is int and 0 <= e.value <= 50:
        return e.value
    raise Untranslatable(f"{what}: not a small non-negative int literal: {u(e)[:40]}")


def _call_free_module_consts(mod):
    """module-level names bound by an assignment whose value contains a call (an object built once, shared by every user)"""
    out = {}

    def visit(stmts):
        for st in stmts:
            if isinstance(st, (ast.Assign, ast.AnnAssign, ast.AugAssign)):
                targets = st.targets if isinstance(st, ast.Assign) else [st.target]
                made = st.value is not None and (any(isinstance(n, ast.Call) for n in ast.walk(st.value)) or _makes_container(st.value))
                for t in targets:
                    for n in ast.walk(t):
                        if isinstance(n, ast.Name):
                            out[n.id] = out.get(n.id, False) or made
            elif isinstance(st, ast.Try):
                visit(st.body); visit(st.orelse); visit(st.finalbody)
                for h in st.handlers:
                    visit(h.body)
            elif isinstance(st, (ast.If, ast.With, ast.For, ast.While)):
                visit(st.body); visit(getattr(st, "orelse", []))
    visit(mod.body)
    return {k for k, v in out.items() if v}


def _no_shared_object(fn, what, shared):
    for n in ast.walk(fn):
        if isinstance(n, (ast.Global, ast.Nonlocal)):
            raise Untranslatable(f"{what}: {u(n)}")
        if isinstance(n, ast.Name) and n.id in shared:
            raise Untranslatable(f"{what}: uses the module-level object {n.id} (shared by every stream / query of the process)")
    if fn.decorator_list:
        raise Untranslatable(f"{what}: decorated ({u(fn.decorator_list[0])[:40]})")
    for d in fn.args.defaults + [x for x in fn.args.kw_defaults if x is not None]:
        if any(isinstance(n, ast.Call) for n in ast.walk(d)) or _makes_container(d):
            raise Untranslatable(f"{what}: default argument built once: {u(d)[:40]}")


def _plain_body(fn):
    return [s for s in fn.body if not (isinstance(s, ast.Expr) and isinstance(s.value, ast.Constant))]


def _class_has_only_methods(cls, what):
    for st in cls.body:
        if isinstance(st, ast.Expr) and isinstance(st.value, ast.Constant):
            continue
        if isinstance(st, ast.FunctionDef) and not st.decorator_list:
            continue
        raise Untranslatable(f"{what}: class-level statement `{u(st)[:60]}` (state shared by every instance?)")


def transport(repo):
    """-> (total, connect, read, [statuses]) ; raises unless the transport keeps nothing (see the module docstring)"""
    mod = py2v.parse_raw(repo, "laspy/copc.py")
    _imported_from(mod, "HTTPAdapter", ("requests.adapters",))
    _imported_from(mod, "Retry", ("requests.packages.urllib3.util.retry", "urllib3.util.retry", "urllib3.util", "urllib3"))
    f = py2v.find_func(mod, "requests_retry_session")
    names = [a.arg for a in f.args.args]
    if names != ["retries", "backoff_factor", "status_forcelist", "session"] or f.args.vararg or f.args.kwarg or f.args.kwonlyargs:
        raise Untranslatable("requests_retry_session: parameters " + ", ".join(names))
    d_retries, d_backoff, d_force, d_session = f.args.defaults
    retries = _int_lit(d_retries, "requests_retry_session: default of retries")
    if not (isinstance(d_backoff, ast.Constant) and type(d_backoff.value) in (int, float) and 0 <= d_backoff.value <= 120):
        raise Untranslatable("requests_retry_session: default of backoff_factor")
    if not isinstance(d_force, (ast.Tuple, ast.List)):
        raise Untranslatable("requests_retry_session: default of status_forcelist")
    force = [_int_lit2(e) for e in d_force.elts]
    if not (isinstance(d_session, ast.Constant) and d_session.value is None):
        raise Untranslatable("requests_retry_session: default of session")
    body = _plain_body(f)
    if len(body) != 6:
        raise Untranslatable(f"requests_retry_session: {len(body)} statements")
    if norm(u(body[0])) != "session=sessionorrequests.Session()":
        raise Untranslatable("requests_retry_session: " + u(body[0])[:60])
    st = body[1]
    if not (isinstance(st, ast.Assign) and norm(u(st.targets[0])) == "retry" and isinstance(st.value, ast.Call)
            and u(st.value.func) == "Retry" and not st.value.args):
        raise Untranslatable("requests_retry_session: " + u(st)[:60])
    kw = {}
    for k in st.value.keywords:
        if k.arg is None or k.arg in kw:
            raise Untranslatable("requests_retry_session: Retry(**...)")
        kw[k.arg] = k.value
    if set(kw) != {"total", "read", "connect", "backoff_factor", "status_forcelist"}:
        raise Untranslatable("requests_retry_session: Retry keywords " + ", ".join(sorted(kw)))

    def count(e, what):
        if isinstance(e, ast.Name) and e.id == "retries":
            return retries
        return _int_lit(e, what)
    total, read, connect = (count(kw[k], "Retry(" + k + ")") for k in ("total", "read", "connect"))
    if not (isinstance(kw["backoff_factor"], ast.Name) and kw["backoff_factor"].id == "backoff_factor"):
        raise Untranslatable("requests_retry_session: Retry(backoff_factor=...)")
    if isinstance(kw["status_forcelist"], ast.Name) and kw["status_forcelist"].id == "status_forcelist":
        statuses = force
    elif isinstance(kw["status_forcelist"], (ast.Tuple, ast.List)):
        statuses = [_int_lit2(e) for e in kw["status_forcelist"].elts]
    else:
        raise Untranslatable("requests_retry_session: Retry(status_forcelist=...)")
    if norm(u(body[2])) != "adapter=HTTPAdapter(max_retries=retry)":
        raise Untranslatable("requests_retry_session: the adapter is `" + u(body[2])[:70] + "`, not the stock HTTPAdapter(max_retries=retry)")
    if sorted(norm(u(s)) for s in body[3:5]) != sorted([norm("session.mount('http://', adapter)"), norm("session.mount('https://', adapter)")]):
        raise Untranslatable("requests_retry_session: mounts")
    if norm(u(body[5])) != "returnsession":
        raise Untranslatable("requests_retry_session: " + u(body[5])[:60])
    for n in ast.walk(f):
        if isinstance(n, ast.Name) and not isinstance(n.ctx, ast.Load) and n.id not in ("session", "retry", "adapter"):
            raise Untranslatable("requests_retry_session: binds " + n.id)
    # who builds the session, and what else lives as long as the process
    shared = _call_free_module_consts(mod)
    cls = py2v.find_class(mod, "HttpRangeStream")
    if cls.bases or cls.keywords or cls.decorator_list:
        raise Untranslatable("HttpRangeStream: bases / decorators")
    _class_has_only_methods(cls, "HttpRangeStream")
    _class_has_only_methods(py2v.find_class(mod, "HttpFetcherThread"), "HttpFetcherThread")
    init = py2v.find_func(cls, "__init__")
    ib = [norm(u(s)) for s in _plain_body(init)]
    if ib and ib[0].startswith("ifrequestsisNone:raise"):
        ib = ib[1:]
    if ib != ["self.url=url", "self.range_start=0", "self.session=requests_retry_session()"]:
        raise Untranslatable("HttpRangeStream.__init__ does more than url / range_start / session = requests_retry_session(): " + " ; ".join(ib)[:120])
    if [norm(u(s)) for s in _plain_body(py2v.find_func(cls, "close"))] != ["self.session.close()"]:
        raise Untranslatable("HttpRangeStream.close")
    if [norm(u(s)) for s in _plain_body(py2v.find_func(cls, "__exit__"))] != ["self.close()"]:
        raise Untranslatable("HttpRangeStream.__exit__")
    if [norm(u(s)) for s in _plain_body(py2v.find_func(cls, "__enter__"))] != ["returnself"]:
        raise Untranslatable("HttpRangeStream.__enter__")
    _no_shared_object(f, "requests_retry_session", shared)
    for m in cls.body:
        if isinstance(m, ast.FunctionDef):
            _no_shared_object(m, "HttpRangeStream." + m.name, shared)
            for n in ast.walk(m):
                if isinstance(n, ast.Attribute) and isinstance(n.value, ast.Name) and n.value.id in ("HttpRangeStream", "type", "cls"):
                    raise Untranslatable(f"HttpRangeStream.{m.name}: class-level access {u(n)[:40]}")
                if isinstance(n, ast.Attribute) and n.attr == "__class__":
                    raise Untranslatable(f"HttpRangeStream.{m.name}: class-level access {u(n)[:40]}")
    for other in mod.body:
        if isinstance(other, ast.ClassDef):
            for b in other.bases:
                if u(b).split(".")[-1] in ("HTTPAdapter", "BaseAdapter", "Session", "Retry", "PoolManager"):
                    raise Untranslatable(f"class {other.name}({u(b)}) in laspy/copc.py: a transport component of its own")
    return total, connect, read, statuses


def _int_lit2(e):
    if isinstance(e, ast.Constant) and type(e.value) is int and 100 <= e.value <= 999:
        return e.value
    raise Untranslatable(f"status_forcelist: not an HTTP status literal: {u(e)[:40]}")


# ------------------------------------------------------------------ what the reader keeps between two queries
_CONTAINER_CALLS = {"dict", "list", "set", "defaultdict", "OrderedDict", "deque", "bytearray", "WeakValueDictionary", "Counter",
                    "WeakKeyDictionary", "ChainMap", "array"}


def _makes_container(e):
    for n in ast.walk(e):
        if isinstance(n, (ast.Dict, ast.List, ast.Set, ast.ListComp, ast.DictComp, ast.SetComp)):
            return True
        if isinstance(n, ast.Call) and u(n.func).split(".")[-1] in _CONTAINER_CALLS:
            return True
    return False


def module_names(mod):
    """module-level name -> 'def' | 'class' | 'import' | 'const' | 'state' (a container, or a decorated = possibly memoising function)"""
    out = {}

    def visit(stmts):
        for st in stmts:
            if isinstance(st, (ast.FunctionDef, ast.AsyncFunctionDef)):
                out[st.name] = "state" if st.decorator_list else "def"
            elif isinstance(st, ast.ClassDef):
                out[st.name] = "class"
            elif isinstance(st, (ast.Import, ast.ImportFrom)):
                for a in st.names:
                    out[(a.asname or a.name).split(".")[0]] = "import"
            elif isinstance(st, (ast.Assign, ast.AnnAssign)):
                targets = st.targets if isinstance(st, ast.Assign) else [st.target]
                kind = "state" if (st.value is not None and _makes_container(st.value)) else "const"
                for t in targets:
                    for n in ast.walk(t):
                        if isinstance(n, ast.Name):
                            out[n.id] = kind if out.get(n.id) != "state" else "state"
            elif isinstance(st, ast.Try):
                visit(st.body); visit(st.orelse); visit(st.finalbody)
                for h in st.handlers:
                    visit(h.body)
            elif isinstance(st, (ast.If, ast.With)):
                visit(st.body); visit(getattr(st, "orelse", []))
    visit(mod.body)
    return out


def _store_targets(fn):
    for n in ast.walk(fn):
        if isinstance(n, ast.Assign):
            yield from n.targets
        elif isinstance(n, (ast.AugAssign, ast.AnnAssign, ast.NamedExpr)):
            yield n.target
        elif isinstance(n, (ast.For, ast.AsyncFor, ast.comprehension)):
            yield n.target
        elif isinstance(n, ast.withitem) and n.optional_vars is not None:
            yield n.optional_vars
        elif isinstance(n, ast.Delete):
            yield from n.targets


def _flat(t):
    if isinstance(t, (ast.Tuple, ast.List)):
        for x in t.elts:
            yield from _flat(x)
    elif isinstance(t, ast.Starred):
        yield from _flat(t.value)
    else:
        yield t


def no_state_kept(fn, what, modnames, self_calls):
    """fail closed unless fn provably leaves nothing behind that a later call could read: see the module docstring"""
    import builtins
    if fn.decorator_list:
        raise Untranslatable(f"{what}: decorated ({u(fn.decorator_list[0])[:40]})")
    bound = set()
    for n in ast.walk(fn):
        if isinstance(n, (ast.Global, ast.Nonlocal)):
            raise Untranslatable(f"{what}: {u(n)}")
        if isinstance(n, ast.arg):
            bound.add(n.arg)
        elif isinstance(n, ast.Name) and not isinstance(n.ctx, ast.Load):
            bound.add(n.id)
        elif isinstance(n, ast.ExceptHandler) and n.name:
            bound.add(n.name)
        elif isinstance(n, (ast.FunctionDef, ast.AsyncFunctionDef, ast.ClassDef)) and n is not fn:
            bound.add(n.name)
        elif isinstance(n, (ast.Import, ast.ImportFrom)):
            raise Untranslatable(f"{what}: import inside the function")
        if isinstance(n, (ast.FunctionDef, ast.AsyncFunctionDef, ast.Lambda)):
            for d in n.args.defaults + [x for x in n.args.kw_defaults if x is not None]:
                if _makes_container(d):
                    raise Untranslatable(f"{what}: mutable default argument {u(d)[:40]}")
    for t0 in _store_targets(fn):
        for t in _flat(t0):
            if isinstance(t, ast.Name):
                continue
            base = t
            while isinstance(base, (ast.Subscript, ast.Attribute)):
                if isinstance(base, ast.Attribute):
                    raise Untranslatable(f"{what}: stores into {u(t)[:60]} (outlives the call)")
                base = base.value
            if not (isinstance(base, ast.Name) and base.id in bound and base.id != "self"):
                raise Untranslatable(f"{what}: stores into {u(t)[:60]}")
    for n in ast.walk(fn):
        if isinstance(n, ast.Call):
            f = n.func
            root = f
            while isinstance(root, (ast.Attribute, ast.Subscript, ast.Call)):
                root = root.value if not isinstance(root, ast.Call) else root.func
            if isinstance(root, ast.Name) and root.id == "self" and norm(u(f)) not in self_calls:
                raise Untranslatable(f"{what}: calls {u(f)[:60]} (may keep state in the reader)")
        if isinstance(n, ast.Name) and isinstance(n.ctx, ast.Load) and n.id not in bound and n.id != "self":
            if hasattr(builtins, n.id):
                continue
            kind = modnames.get(n.id)
            if kind is None:
                raise Untranslatable(f"{what}: unknown global {n.id}")
            if kind == "state":
                raise Untranslatable(f"{what}: uses the module-level container / decorated helper {n.id}")


def fetch_site(repo):
    fetch_workers(repo)                              # the http branch only chooses a strategy and hands it the query's ranges / buffer
    mod = py2v.parse(repo, "laspy/copc.py")
    names = module_names(mod)
    cls = py2v.find_class(mod, "CopcReader")
    for k, v in [(s.targets[0].id, s.value) for s in cls.body if isinstance(s, ast.Assign) and len(s.targets) == 1
                 and isinstance(s.targets[0], ast.Name)]:
        if _makes_container(v):
            raise Untranslatable(f"CopcReader: class-level container {k}")
    no_state_kept(py2v.find_func(cls, "_fetch_all_chunks"), "_fetch_all_chunks", names,
                  {"self.source.seek", "self.source.read", "self.source.readinto"})
    no_state_kept(py2v.find_func(cls, "_fetch_and_decompress_points_of_nodes"), "_fetch_and_decompress_points_of_nodes", names,
                  {"self._fetch_all_chunks"})
    for fn in ("http_queue_strategy", "http_thread_executor_strategy"):
        no_state_kept(py2v.find_func(mod, fn), fn, names, set())
    return "FsDirect"


def gen(repo):
    o = py2v.Out("laspy/copc.py HttpFetcherThread.run, http_queue_strategy, http_thread_executor_strategy, HttpRangeStream, "
                 "requests_retry_session, ChunkIter")
    o.text += TYPES + "\n"

    # every definition: read from the source as written; only when that fails, from its normal form (py2v.parse then inlines the
    # calls of helpers that did not exist when the readers were written) - same reader, same text, so a behaviour-preserving
    # split into new helpers regenerates the same file; when both fail the definition is MISSING with the first reason
    add_as_written = o.add

    def add(name, thunk):
        def both():
            try:
                return thunk()
            except Exception as first:
                if py2v.NF_MODE or __import__("os").environ.get("VERIF_PY2V_INLINE", "1") == "0":
                    raise
                py2v.NF_MODE = True
                try:
                    return thunk()
                except Exception:
                    raise first
                finally:
                    py2v.NF_MODE = False
        add_as_written(name, both)
    o.add = add
    o.add("gen_worker_prog", lambda: "Definition gen_worker_prog : list winstr := [" + "; ".join(worker_prog(repo)) + "].\n")

    def mp():
        chunk_iter_ok(repo)
        return "Definition gen_main_prog : list minstr := [" + "; ".join(main_prog(repo)) + "].\n"
    o.add("gen_main_prog", mp)

    def ex():
        chunk_iter_ok(repo)
        own, order = exec_summary(repo)
        return (f"Definition gen_exec_stream_per_job : bool := {own}.\n"
                f"Definition gen_exec_collect : collect_order := {order}.\n"
                "Definition gen_exec_job : list jinstr := [JSeek; JRead].\n"
                "Definition gen_exec_pool_joined : bool := true.\n")
    o.add("gen_exec", ex)

    def st():
        return "Definition gen_stream_read : list sinstr := [" + "; ".join(stream_prog(repo)) + "].\n"
    o.add("gen_stream_read", st)

    def fw():
        return f"Definition gen_fetch_workers (http_num_threads : nat) : nat := {fetch_workers(repo)}.\n"
    o.add("gen_fetch_workers", fw)
    o.add("gen_fetch_site", lambda: f"Definition gen_fetch_site : fetch_site := {fetch_site(repo)}.\n")

    def tr():
        total, connect, read, statuses = transport(repo)
        return (f"Definition gen_retry : retry_cfg := mkRetry {total} {connect} {read} [" + "; ".join(str(x) for x in statuses) + "].\n"
                "Definition gen_transport_kept : transport_kept := TkNothing.\n")
    o.add("gen_transport", tr)
    return o


TARGETS = {"GenFetch.v": gen}
