"""py2v plugin for C16: structural summary of laspy/copc.py's HTTP fetching code -> coq/Gen/GenFetch.v.

What is extracted (fail closed: any statement that is not recognised makes the definition MISSING):
 * gen_worker_prog : the loop body of HttpFetcherThread.run as a list of instructions, in execution order
     ITestEmpty            `while not self.query_queue.empty():`           (test, then go on / leave the loop)
     ITake blocking        `self.query_queue.get_nowait()` in try/except Empty: break  (blocking=false)
                           `self.query_queue.get()`                                    (blocking=true)
     IFetch                `http_reader.seek(offset)` ; `data = http_reader.read(size)`
     IPutResult            `self.result_queue.put((data, offset))`   (reached only when the request succeeded)
     IPutExc               `self.result_queue.put(e)` in `except Exception as e`  (only when the request failed)
     ITaskDone             `self.query_queue.task_done()` in `finally` (both cases)
     IBreakIfFailed        `break` in the exception handler (runs after the finally block)
 * gen_main_prog : http_queue_strategy as a list of MPutAll / MStart use_min / MJoin / MDrain / MSort / MAssemble
 * gen_exec_* : http_thread_executor_strategy: own stream per job?, results taken in submission order?, pool joined
   (with-statement)?, the job = seek then read.
 * gen_stream_read : HttpRangeStream.read as a list of SZeroEmpty (`if n == 0: return b""`) / SRequest (range_end, headers,
   session.get) / SRaiseForStatus / SAdvance (`self.range_start += n`) / SReturnContent, in statement order
 * gen_fetch_workers : the worker count CopcReader._fetch_all_chunks hands to both strategies, as a function of http_num_threads
"""
import ast

import py2v
from py2v import Untranslatable

TYPES = """Inductive winstr := ITestEmpty | ITake (blocking : bool) | IFetch | IPutResult | IPutExc | ITaskDone | IBreakIfFailed.
Inductive minstr := MPutAll | MStart (use_min : bool) | MJoin | MDrain | MSort | MAssemble.
Inductive collect_order := BySubmission | ByCompletion.
Inductive jinstr := JSeek | JRead.
Inductive sinstr := SZeroEmpty | SRequest | SRaiseForStatus | SAdvance | SReturnContent.
"""


def u(node):
    return ast.unparse(node).strip()


def norm(s):
    return "".join(s.split())


def is_call_stmt(st, text):
    return isinstance(st, ast.Expr) and norm(u(st)) == norm(text)


# ------------------------------------------------------------------ worker
def take_instr(st):
    """recognise the statement that takes a range from the query queue; returns instr text or None"""
    tgt = "offset,size="
    if isinstance(st, ast.Try):
        if (len(st.body) == 1 and not st.orelse and not st.finalbody and len(st.handlers) == 1
                and isinstance(st.handlers[0].type, ast.Name) and st.handlers[0].type.id == "Empty"
                and len(st.handlers[0].body) == 1 and isinstance(st.handlers[0].body[0], ast.Break)):
            s = norm(u(st.body[0]))
            if s in (tgt + "self.query_queue.get_nowait()", tgt + "self.query_queue.get(False)",
                     tgt + "self.query_queue.get(block=False)"):
                return "ITake false"
        return None
    if isinstance(st, ast.Assign):
        s = norm(u(st))
        if s in (tgt + "self.query_queue.get()", tgt + "self.query_queue.get(True)",
                 tgt + "self.query_queue.get(block=True)"):
            return "ITake true"
    return None


def fetch_try(st, reader):
    """the try statement around the request -> list of instrs (body, else, handler, finally, break)"""
    if not isinstance(st, ast.Try) or len(st.handlers) != 1:
        raise Untranslatable("worker: unexpected statement " + u(st)[:60])
    h = st.handlers[0]
    if not (isinstance(h.type, ast.Name) and h.type.id == "Exception" and h.name):
        raise Untranslatable("worker: handler is not `except Exception as e`")
    out = []
    body = list(st.body)
    if len(body) < 2 or norm(u(body[0])) != norm(f"{reader}.seek(offset)") or norm(u(body[1])) != norm(f"data={reader}.read(size)"):
        raise Untranslatable("worker: request is not seek(offset); data = read(size)")
    out.append("IFetch")

    def success_only(stmts):
        for s in stmts:
            if is_call_stmt(s, "self.result_queue.put((data, offset))"):
                out.append("IPutResult")
            else:
                raise Untranslatable("worker: statement on the success path: " + u(s)[:60])
    success_only(body[2:])
    success_only(st.orelse)
    brk = False
    for s in h.body:
        if is_call_stmt(s, f"self.result_queue.put({h.name})"):
            if brk:
                raise Untranslatable("worker: statement after break")
            out.append("IPutExc")
        elif isinstance(s, ast.Break):
            brk = True
        else:
            raise Untranslatable("worker: statement in the handler: " + u(s)[:60])
    for s in st.finalbody:
        if is_call_stmt(s, "self.query_queue.task_done()"):
            out.append("ITaskDone")
        else:
            raise Untranslatable("worker: statement in finally: " + u(s)[:60])
    if brk:
        out.append("IBreakIfFailed")
    return out


def worker_prog(repo):
    mod = py2v.parse(repo, "laspy/copc.py")
    cls = py2v.find_class(mod, "HttpFetcherThread")
    if [u(b) for b in cls.bases] != ["Thread"]:
        raise Untranslatable("HttpFetcherThread is not a Thread")
    run = py2v.find_func(cls, "run")
    if len(run.body) != 1 or not isinstance(run.body[0], ast.With):
        raise Untranslatable("run: expected a single with statement")
    w = run.body[0]
    if len(w.items) != 1 or norm(u(w.items[0].context_expr)) != "HttpRangeStream(self.url)" or w.items[0].optional_vars is None:
        raise Untranslatable("run: expected `with HttpRangeStream(self.url) as <name>` (one stream per worker)")
    reader = u(w.items[0].optional_vars)
    if len(w.body) != 1 or not isinstance(w.body[0], ast.While) or w.body[0].orelse:
        raise Untranslatable("run: expected a single while loop")
    loop = w.body[0]
    instrs = []
    test = norm(u(loop.test))
    if test == "True":
        pass
    elif test == "notself.query_queue.empty()":
        instrs.append("ITestEmpty")
    else:
        raise Untranslatable("run: loop test " + u(loop.test))
    seen_take = False
    for st in loop.body:
        t = take_instr(st)
        if t is not None:
            if seen_take:
                raise Untranslatable("run: two takes in one iteration")
            seen_take = True
            instrs.append(t)
        elif is_call_stmt(st, "self.query_queue.task_done()"):
            instrs.append("ITaskDone")
        else:
            if not seen_take:
                raise Untranslatable("run: request before a range was taken")
            instrs += fetch_try(st, reader)
    if not seen_take:
        raise Untranslatable("run: no take")
    return instrs


# ------------------------------------------------------------------ main (queue strategy)
def main_prog(repo):
    mod = py2v.parse(repo, "laspy/copc.py")
    f = py2v.find_func(mod, "http_queue_strategy")
    args = [a.arg for a in f.args.args]
    if args != ["source", "byte_queries", "out_compressed_bytes", "num_threads"]:
        raise Untranslatable("http_queue_strategy signature")
    body = [s for s in f.body if not (isinstance(s, ast.Expr) and isinstance(s.value, ast.Constant))]
    prog = []
    i = 0

    def peek(k=0):
        return norm(u(body[i + k])) if i + k < len(body) else ""
    if peek() != "query_queue=Queue()" or peek(1) != "result_queue=SimpleQueue()":
        raise Untranslatable("main: queues are not Queue() / SimpleQueue()")
    i = 2
    while i < len(body):
        s = peek()
        if s == norm("for query in byte_queries:\n    query_queue.put(query)"):
            prog.append("MPutAll")
            i += 1
        elif s == norm("for _ in range(min(len(byte_queries), num_threads)):\n    HttpFetcherThread(source.url, query_queue, result_queue).start()"):
            prog.append("MStart true")
            i += 1
        elif s == norm("for _ in range(num_threads):\n    HttpFetcherThread(source.url, query_queue, result_queue).start()"):
            prog.append("MStart false")
            i += 1
        elif s == "query_queue.join()":
            prog.append("MJoin")
            i += 1
        elif s == "results=[]" and peek(1) == norm(
                "while not result_queue.empty():\n    result = result_queue.get()\n    if isinstance(result, Exception):\n        raise result\n    results.append(result)"):
            prog.append("MDrain")
            i += 2
        elif s == norm("results.sort(key=lambda x: x[1])"):
            prog.append("MSort")
            i += 1
        elif s == "citer=ChunkIter(out_compressed_bytes)" and peek(1) == norm(
                "for group_bytes, _ in results:\n    cc = citer.next(len(group_bytes))\n    cc[:] = group_bytes"):
            prog.append("MAssemble")
            i += 2
        else:
            raise Untranslatable("main: unexpected statement " + u(body[i])[:70])
    return prog


def chunk_iter_ok(repo):
    mod = py2v.parse(repo, "laspy/copc.py")
    cls = py2v.find_class(mod, "ChunkIter")
    nx = py2v.find_func(cls, "next")
    init = py2v.find_func(cls, "__init__")
    if norm(u(init.body[-1])) != "self.buffer=memoryview(buffer)" or [norm(u(s)) for s in nx.body] != [
            "slc=self.buffer[:size]", "self.buffer=self.buffer[size:]", "returnslc"]:
        raise Untranslatable("ChunkIter shape")


# ------------------------------------------------------------------ executor strategy
def exec_summary(repo):
    mod = py2v.parse(repo, "laspy/copc.py")
    f = py2v.find_func(mod, "http_thread_executor_strategy")
    body = [s for s in f.body if not (isinstance(s, ast.Expr) and isinstance(s.value, ast.Constant))]
    if len(body) != 1 or not isinstance(body[0], ast.With):
        raise Untranslatable("executor: expected one with statement (pool joined on every exit)")
    w = body[0]
    if len(w.items) != 1 or norm(u(w.items[0].context_expr)) != "ThreadPoolExecutor(max_workers=num_threads)":
        raise Untranslatable("executor: pool construction")
    pool = u(w.items[0].optional_vars)
    stmts = list(w.body)
    if len(stmts) != 5:
        raise Untranslatable("executor: body shape")
    job, jobs0, subm, cit, coll = stmts
    if not isinstance(job, ast.FunctionDef) or [a.arg for a in job.args.args] != ["source", "offset", "size"]:
        raise Untranslatable("executor: job function")
    jb = [norm(u(s)) for s in job.body]
    if jb != ["source.seek(offset)", "returnsource.read(size)"]:
        raise Untranslatable("executor: job body is not seek; read")
    if norm(u(jobs0)) != "jobs=[]":
        raise Untranslatable("executor: jobs list")
    per_job = norm(f"for offset, size in byte_queries:\n    jobs.append({pool}.submit({job.name}, HttpRangeStream(source.url), offset, size))")
    shared = norm(f"for offset, size in byte_queries:\n    jobs.append({pool}.submit({job.name}, source, offset, size))")
    s = norm(u(subm))
    if s == per_job:
        own = "true"
    elif s == shared:
        own = "false"
    else:
        raise Untranslatable("executor: submission loop")
    if norm(u(cit)) != "citer=ChunkIter(out_compressed_bytes)":
        raise Untranslatable("executor: ChunkIter")
    by_sub = norm("for future in jobs:\n    group_bytes = future.result()\n    cc = citer.next(len(group_bytes))\n    cc[:] = group_bytes")
    by_comp = norm("for future in as_completed(jobs):\n    group_bytes = future.result()\n    cc = citer.next(len(group_bytes))\n    cc[:] = group_bytes")
    c = norm(u(coll))
    if c == by_sub:
        order = "BySubmission"
    elif c == by_comp:
        order = "ByCompletion"
    else:
        raise Untranslatable("executor: collection loop")
    return own, order


def stream_prog(repo):
    """HttpRangeStream.read statement by statement -> list of sinstr; seek must set range_start"""
    mod = py2v.parse(repo, "laspy/copc.py")
    cls = py2v.find_class(mod, "HttpRangeStream")
    seek = [norm(u(s)) for s in py2v.find_func(cls, "seek").body]
    if seek[-1] != "self.range_start=pos":
        raise Untranslatable("HttpRangeStream.seek")
    rd = py2v.find_func(cls, "read")
    if [a.arg for a in rd.args.args] != ["self", "n"]:
        raise Untranslatable("HttpRangeStream.read signature")
    body = [s for s in rd.body if not (isinstance(s, ast.Expr) and isinstance(s.value, ast.Constant))]
    text = [norm(u(s)) for s in body]
    request = ["range_end=self.range_start+n-1", norm("headers = {'Range': f'bytes={self.range_start}-{range_end}'}"),
               "r=self.session.get(self.url,headers=headers)"]
    out = []
    i = 0
    while i < len(text):
        t = text[i]
        if t == "ifn==0:return" + norm("b''"):
            out.append("SZeroEmpty")
        elif text[i:i + 3] == request:
            out.append("SRequest")
            i += 2
        elif t == "r.raise_for_status()":
            out.append("SRaiseForStatus")
        elif t == "self.range_start+=n":
            out.append("SAdvance")
        elif t == "returnr.content":
            out.append("SReturnContent")
        else:
            raise Untranslatable("HttpRangeStream.read: unexpected statement " + u(body[i])[:70])
        i += 1
    return out


def fetch_workers(repo):
    """CopcReader._fetch_all_chunks: the http branch hands byte_queries and the reader's http_num_threads to the strategies"""
    mod = py2v.parse(repo, "laspy/copc.py")
    cls = py2v.find_class(mod, "CopcReader")
    f = py2v.find_func(cls, "_fetch_all_chunks")
    branch = None
    for st in f.body:
        if isinstance(st, ast.If) and norm(u(st.test)) == "isinstance(self.source,HttpRangeStream)":
            branch = st
    if branch is None:
        raise Untranslatable("_fetch_all_chunks: no `if isinstance(self.source, HttpRangeStream)` branch")
    if len(branch.body) != 1 or not isinstance(branch.body[0], ast.If):
        raise Untranslatable("_fetch_all_chunks: the http branch does more than choosing a strategy: " + u(branch.body[0])[:70])
    sel = branch.body[0]
    if norm(u(sel.test)) != norm("self.http_strategy == 'queue'") or len(sel.body) != 1 or len(sel.orelse) != 1:
        raise Untranslatable("_fetch_all_chunks: strategy selection")
    exprs = []
    for st, fn in ((sel.body[0], "http_queue_strategy"), (sel.orelse[0], "http_thread_executor_strategy")):
        if not (isinstance(st, ast.Expr) and isinstance(st.value, ast.Call) and u(st.value.func) == fn
                and len(st.value.args) == 4 and not st.value.keywords):
            raise Untranslatable("_fetch_all_chunks: call of " + fn)
        a = [norm(u(x)) for x in st.value.args]
        if a[:3] != ["self.source", "byte_queries", "compressed_bytes"]:
            raise Untranslatable("_fetch_all_chunks: arguments of " + fn)
        exprs.append(a[3])
    if exprs[0] != exprs[1]:
        raise Untranslatable("_fetch_all_chunks: the strategies get different worker counts")
    if exprs[0] != "self.http_num_threads":
        raise Untranslatable("_fetch_all_chunks: worker count is " + exprs[0])
    init = py2v.find_func(cls, "__init__")
    if "self.http_num_threads=http_num_threads" not in [norm(u(s)) for s in init.body]:
        raise Untranslatable("CopcReader.__init__: http_num_threads")
    return "http_num_threads"


def gen(repo):
    o = py2v.Out("laspy/copc.py HttpFetcherThread.run, http_queue_strategy, http_thread_executor_strategy, HttpRangeStream, ChunkIter")
    o.text += TYPES + "\n"
    o.add("gen_worker_prog", lambda: "Definition gen_worker_prog : list winstr := [" + "; ".join(worker_prog(repo)) + "].\n")

    def mp():
        chunk_iter_ok(repo)
        return "Definition gen_main_prog : list minstr := [" + "; ".join(main_prog(repo)) + "].\n"
    o.add("gen_main_prog", mp)

    def ex():
        chunk_iter_ok(repo)
        own, order = exec_summary(repo)
        return (f"Definition gen_exec_stream_per_job : bool := {own}.\n"
                f"Definition gen_exec_collect : collect_order := {order}.\n"
                "Definition gen_exec_job : list jinstr := [JSeek; JRead].\n"
                "Definition gen_exec_pool_joined : bool := true.\n")
    o.add("gen_exec", ex)

    def st():
        return "Definition gen_stream_read : list sinstr := [" + "; ".join(stream_prog(repo)) + "].\n"
    o.add("gen_stream_read", st)

    def fw():
        return f"Definition gen_fetch_workers (http_num_threads : nat) : nat := {fetch_workers(repo)}.\n"
    o.add("gen_fetch_workers", fw)
    return o


TARGETS = {"GenFetch.v": gen}
