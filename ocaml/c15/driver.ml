(* Line-protocol driver around the extracted C15 model (model.ml).
   One command per input line, one result per output line.  Tokens (no spaces inside a token):
     tree   root=<entries>;<off>:<size>=<entries>;...      entries = l.x.y.z.off.size.cnt,...   (- = empty page)
     geom   gx,gy,gz,side          qbox  N | 2:x0,y0,x1,y1 | 3:x0,y0,z0,x1,y1,z1       hz  hz0,hz1
     qgrid  n,d x 6 (x0 y0 z0 x1 y1 z1) | E (exact, from csys)      levels A | I:l | R:lo,hi | S:sn,sd,rn,rd
     pts    off.size.cnt=X.Y.Z.tag,...;...  (- = none)              csys D,snx,sdx,offx,sny,sdy,offy,snz,sdz,offz *)
open Model

let rec pos_of_int n = if n = 1 then XH else if n land 1 = 0 then XO (pos_of_int (n lsr 1)) else XI (pos_of_int (n lsr 1))
let z_of_int n = if n = 0 then Z0 else if n > 0 then Zpos (pos_of_int n) else Zneg (pos_of_int (-n))
let rec nat_of_int n = if n <= 0 then O else S (nat_of_int (n - 1))
let rec int_of_nat = function O -> 0 | S k -> 1 + int_of_nat k
let ten = z_of_int 10
let z_of_string s =
  let neg = String.length s > 0 && s.[0] = '-' in
  let acc = ref Z0 in
  String.iteri (fun i c -> if not (i = 0 && neg) then
    acc := Z.add (Z.mul !acc ten) (z_of_int (Char.code c - 48))) s;
  if neg then Z.sub Z0 !acc else !acc
let rec pos_bits = function XH -> 1 | XO p | XI p -> 1 + pos_bits p
let rec int_of_pos = function XH -> 1 | XO p -> 2 * int_of_pos p | XI p -> 2 * int_of_pos p + 1
let billion = z_of_int 1000000000
let rec string_of_posz zv = (* zv >= 0 *)
  match zv with
  | Z0 -> "0"
  | Zpos p when pos_bits p < 62 -> string_of_int (int_of_pos p)
  | _ -> let (q, r) = Z.div_eucl zv billion in
         let rs = (match r with Z0 -> 0 | Zpos p -> int_of_pos p | Zneg _ -> 0) in
         string_of_posz q ^ Printf.sprintf "%09d" rs
let string_of_z = function
  | Zneg p -> "-" ^ string_of_posz (Zpos p)
  | zv -> string_of_posz zv
let tok_of_bool b = if b then "T" else "F"
let err_name = function
  | EOverflow -> "EOverflow" | EIndex -> "EIndex" | ELaspy -> "ELaspy" | EValue -> "EValue"
  | EShort -> "EShort" | EFuel -> "EFuel" | EStop -> "EStop" | EOther -> "EOther"

let split c s = if s = "-" || s = "" then [] else String.split_on_char c s
let zs c s = List.map z_of_string (split c s)

let entry_of_tok t = match zs '.' t with
  | [l; x; y; z; off; size; cnt] -> { e_key = { kl = l; kx = x; ky = y; kz = z }; e_off = off; e_size = size; e_cnt = cnt }
  | _ -> failwith ("bad entry " ^ t)
let tok_of_entry e = String.concat "." (List.map string_of_z [e.e_key.kl; e.e_key.kx; e.e_key.ky; e.e_key.kz; e.e_off; e.e_size; e.e_cnt])
let entries_of_tok t = List.map entry_of_tok (split ',' t)
let tok_of_entries l = if l = [] then "-" else String.concat "," (List.map tok_of_entry l)

let tree_of_tok t =
  let parts = split ';' t in
  let root = ref [] and pages = ref [] in
  List.iter (fun p ->
    match String.index_opt p '=' with
    | None -> failwith ("bad page " ^ p)
    | Some i ->
      let name = String.sub p 0 i and body = String.sub p (i + 1) (String.length p - i - 1) in
      if name = "root" then root := entries_of_tok body
      else (match zs ':' name with
            | [o; s] -> pages := ((o, s), entries_of_tok body) :: !pages
            | _ -> failwith ("bad page reference " ^ name))) parts;
  { t_root = !root; t_pages = List.rev !pages }

let geom_of_tok t = match zs ',' t with
  | [x; y; z; s] -> { g_x = x; g_y = y; g_z = z; g_side = s } | _ -> failwith "bad geom"
let qbox_of_tok t =
  if t = "N" then NoBox else
  match t.[0], zs ',' (String.sub t 2 (String.length t - 2)) with
  | '2', [x0; y0; x1; y1] -> Box2 (x0, y0, x1, y1)
  | '3', [x0; y0; z0; x1; y1; z1] -> Box3 (x0, y0, z0, x1, y1, z1)
  | _ -> failwith "bad qbox"
let tok_of_qbox = function
  | NoBox -> "N"
  | Box2 (x0, y0, x1, y1) -> "2:" ^ String.concat "," (List.map string_of_z [x0; y0; x1; y1])
  | Box3 (x0, y0, z0, x1, y1, z1) -> "3:" ^ String.concat "," (List.map string_of_z [x0; y0; z0; x1; y1; z1])
let pair_of_tok t = match zs ',' t with [a; b] -> (a, b) | _ -> failwith ("bad pair " ^ t)
let levels_of_tok t =
  if t = "A" then LvAll else
  match t.[0], zs ',' (String.sub t 2 (String.length t - 2)) with
  | 'I', [l] -> LvInt l
  | 'R', [lo; hi] -> LvRange (lo, hi)
  | 'S', [a; b; c; d] -> LvRes (a, b, c, d)
  | _ -> failwith "bad levels"
let csys_of_tok t = match zs ',' t with
  | [d; a1; a2; a3; b1; b2; b3; c1; c2; c3] ->
    { c_D = d; c_x = { a_sn = a1; a_sd = a2; a_off = a3 }; c_y = { a_sn = b1; a_sd = b2; a_off = b3 };
      c_z = { a_sn = c1; a_sd = c2; a_off = c3 } }
  | _ -> failwith "bad csys"
let qgrid_of_tok t = match zs ',' t with
  | [a; b; c; d; e; f; g; h; i; j; k; l] ->
    { q_x0 = (a, b); q_y0 = (c, d); q_z0 = (e, f); q_x1 = (g, h); q_y1 = (i, j); q_z1 = (k, l) }
  | _ -> failwith "bad qgrid"
let pt_of_tok t = match zs '.' t with
  | [x; y; z; tag] -> { p_x = x; p_y = y; p_z = z; p_tag = tag } | _ -> failwith ("bad point " ^ t)
let pts_of_tok t =
  List.map (fun r ->
    match String.index_opt r '=' with
    | None -> failwith ("bad chunk " ^ r)
    | Some i ->
      let name = String.sub r 0 i and body = String.sub r (i + 1) (String.length r - i - 1) in
      (match zs '.' name with
       | [o; s; c] -> (((o, s), c), List.map pt_of_tok (split ',' body))
       | _ -> failwith ("bad chunk name " ^ name))) (split ';' t)

let zero_q = { q_x0 = (Z0, z_of_int 1); q_y0 = (Z0, z_of_int 1); q_z0 = (Z0, z_of_int 1);
               q_x1 = (Z0, z_of_int 1); q_y1 = (Z0, z_of_int 1); q_z1 = (Z0, z_of_int 1) }

let dispatch cmd a =
  match cmd with
  | "load" ->
    let t = tree_of_tok a.(0) and g = geom_of_tok a.(1) and qb = qbox_of_tok a.(2) and (hz0, hz1) = pair_of_tok a.(3) in
    let lv = level_range (levels_of_tok a.(4)) in
    let fuel = fuel_bound t in
    let r = load_octree fuel t g (ensure_3d qb hz0 hz1) lv in
    (match r with
     | Ok ns -> "ok " ^ tok_of_entries ns
     | Err e -> "err " ^ err_name e)
    ^ " wf=" ^ tok_of_bool (wf_treeb t) ^ " fuel=" ^ string_of_int (int_of_nat fuel)
  | "query" ->
    let t = tree_of_tok a.(0) and g = geom_of_tok a.(1) and qb = qbox_of_tok a.(2) and (hz0, hz1) = pair_of_tok a.(3) in
    let c = csys_of_tok a.(7) in
    let q = if a.(4) = "E" then (match ensure_3d qb hz0 hz1 with Some b -> exact_grid c b | None -> zero_q)
            else if a.(4) = "-" then zero_q else qgrid_of_tok a.(4) in
    let lv = levels_of_tok a.(5) in
    let tbl = pts_of_tok a.(6) in
    let pts = lookup_pts tbl in
    let fuel = fuel_bound t in
    (* the query as one step of a history: the answer, and the caller's Bounds object after the call *)
    let st = { s_tree = t; s_geom = g; s_hz0 = hz0; s_hz1 = hz1; s_grid = (fun _ -> q); s_lv = lv; s_pts = pts } in
    let (caller, r) = query_st st qb in
    let r0 = query fuel t g qb hz0 hz1 q lv pts in
    (match r with
     | Ok ps -> "ok " ^ (if ps = [] then "-" else String.concat "," (List.map (fun p -> string_of_z p.p_tag) ps))
     | Err e -> "err " ^ err_name e)
    ^ " wf=" ^ tok_of_bool (wf_treeb t) ^ " ptsok=" ^ tok_of_bool (csys_okb c && pts_okb t c g hz0 hz1 pts)
    ^ " caller=" ^ tok_of_qbox caller ^ " fresh=" ^ tok_of_bool (r = r0)
  | "rsession" ->
    (* several queries on ONE reader (its cached hierarchy is kept), with transient faults of the source:
       tree geom hz pts csys steps, steps = qbox/qgrid/levels/fault|...  (fault: - or the index of the read that fails);
       out: per step outcome@cache, outcome = ok:<tags> | err:<E> | fault, cache = the dictionary after the query *)
    let t = tree_of_tok a.(0) and g = geom_of_tok a.(1) and (hz0, hz1) = pair_of_tok a.(2) in
    let pts = lookup_pts (pts_of_tok a.(3)) in
    let c = csys_of_tok a.(4) in
    let f = { f_tree = t; f_geom = g; f_hz0 = hz0; f_hz1 = hz1; f_pts = pts } in
    let step s = match String.split_on_char '/' s with
      | [qb; qg; lv; fl] ->
        let qb = qbox_of_tok qb in
        let q = if qg = "E" then (match ensure_3d qb hz0 hz1 with Some b -> exact_grid c b | None -> zero_q)
                else if qg = "-" then zero_q else qgrid_of_tok qg in
        { r_box = qb; r_grid = q; r_lv = levels_of_tok lv; r_fault = (if fl = "-" then None else Some (nat_of_int (int_of_string fl))) }
      | _ -> failwith ("bad step " ^ s) in
    let qs = List.map step (String.split_on_char '|' a.(5)) in
    let outs = reader_session f (open_cache f) qs in
    String.concat "|" (List.map (fun (h, o) ->
      (match o with
       | IOFault -> "fault"
       | Ans (Ok ps) -> "ok:" ^ (if ps = [] then "-" else String.concat "," (List.map (fun p -> string_of_z p.p_tag) ps))
       | Ans (Err e) -> "err:" ^ err_name e)
      ^ "@" ^ tok_of_entries (dict_view h [])) outs)
    ^ " wf=" ^ tok_of_bool (wf_treeb t)
  | "res" ->
    (match level_range (LvRes (z_of_string a.(0), z_of_string a.(1), z_of_string a.(2), z_of_string a.(3))) with
     | Some (lo, hi) -> string_of_z lo ^ "," ^ string_of_z hi
     | None -> "none")
  | "group" ->
    let ns = List.map (fun t -> match zs '.' t with
      | [o; s; c] -> { e_key = root_key; e_off = o; e_size = s; e_cnt = c } | _ -> failwith "bad node") (split ',' a.(0)) in
    let gs = groups (sort_off ns) in
    let pr l = if l = [] then "-" else String.concat "," (List.map (fun (x, y) -> string_of_z x ^ ":" ^ string_of_z y) l) in
    (* queue: the order in which the http queue strategy writes the ranges when they come back last first *)
    "queries=" ^ pr (byte_queries gs) ^ " table=" ^ pr (chunk_table gs)
    ^ " queue=" ^ pr (sort_q (List.rev (byte_queries gs))) ^ " apart=" ^ tok_of_bool (apartb (sort_off ns))
  | "rint" -> string_of_z (grid (z_of_string a.(0), z_of_string a.(1)))
  | _ -> "unknown-command " ^ cmd

let () =
  try
    while true do
      let line = input_line stdin in
      let toks = List.filter (fun s -> s <> "") (String.split_on_char ' ' line) in
      (match toks with
       | [] -> print_endline ""
       | cmd :: args ->
         (try print_endline (dispatch cmd (Array.of_list args))
          with ex -> print_endline ("driver-error " ^ Printexc.to_string ex)))
    done
  with End_of_file -> ()
