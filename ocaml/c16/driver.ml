(* Line-protocol driver around the extracted C16 fetch models (model.ml).
   One command per input line, one result per output line.
     qtrace   <gen|old> <file hex> <ranges o:s|..> <workers> <failing o:s:status|.. or -> <events tid.label,..>
              (status: what the server answers the request for that range with; -1 = no answer, session.get raises;
               whether the request FAILS is decided by the extracted HttpRangeStream.read: stream_fails gen_stream_read)
     qexplore <gen|old> <file hex> <ranges> <workers> <failing> <max states>
     xtrace   <T|F per job stream> <sub|comp> <file hex> <ranges> <workers> <failing> <events>
     xexplore <T|F> <sub|comp> <file hex> <ranges> <workers> <failing> <max states>
     retry    <answers a/b/c of the successive attempts of one request (status | -1 dropped | -2 refused | -4 body cut); last repeated>
     history  <gen|slots:<capacity>:<T|F>> <T/F per send: does it raise>
     session  <gen|off|range> <file hex> <ranges of query 1>;<ranges of query 2>;...
              (successive queries of one reader, every strategy run yielding the local read of the ranges it is handed; gen: what
               the source keeps between queries (gen_fetch_site), off / range: a block cache keyed by offset / by (offset, size))
     shape
   The queue strategy runs in the step-by-step system (pstate/pstep): main's puts (qput) and thread starts (start) are events.
   Events are the visible operations of the implementation in the order the controller granted them; the driver lets the
   model take the silent steps (instructions that are no-ops on this path, local computation of main) by itself. *)
open Model

let rec pos_of_int n = if n = 1 then XH else if n land 1 = 0 then XO (pos_of_int (n lsr 1)) else XI (pos_of_int (n lsr 1))
let z_of_int n = if n = 0 then Z0 else if n > 0 then Zpos (pos_of_int n) else Zneg (pos_of_int (-n))
let rec nat_of_int n = if n <= 0 then O else S (nat_of_int (n - 1))
let rec int_of_nat = function O -> 0 | S k -> 1 + int_of_nat k
let rec int_of_pos = function XH -> 1 | XO p -> 2 * int_of_pos p | XI p -> 2 * int_of_pos p + 1
let int_of_z = function Z0 -> 0 | Zpos p -> int_of_pos p | Zneg p -> - (int_of_pos p)
let bytes_of_tok s =
  let n = (String.length s - 1) / 2 in
  List.init n (fun i -> z_of_int (int_of_string ("0x" ^ String.sub s (1 + 2 * i) 2)))
let tok_of_bytes l =
  let b = Buffer.create 64 in
  Buffer.add_char b 'x';
  List.iter (fun zv -> let v = int_of_z zv in
    if v < 0 || v > 255 then Buffer.add_string b "??" else Buffer.add_string b (Printf.sprintf "%02x" v)) l;
  Buffer.contents b
let split_on c s = if s = "-" || s = "" then [] else String.split_on_char c s

let range_of_tok t = match String.split_on_char ':' t with
  | [o; s] -> (z_of_int (int_of_string o), z_of_int (int_of_string s))
  | _ -> failwith ("bad range " ^ t)
let tok_of_range (o, s) = Printf.sprintf "%d:%d" (int_of_z o) (int_of_z s)
let ranges_of_tok t = List.map range_of_tok (split_on '|' t)
(* what the network answers ONE attempt with: a status; -1 = the connection is dropped before any response (read error), -2 = it
   is refused (connect error), -4 = the response head arrives and the body breaks *)
let answer_of_int st =
  if st = -1 then ADropped else if st = -2 then ARefused else if st = -4 then ACut
  else if st < 0 then failwith "bad answer" else AResp { r_status = z_of_int st; r_body = [] }
(* answers of the successive attempts of a request, a/b/c: the last one is repeated for ever *)
let net_of_tok t =
  let l = List.map int_of_string (String.split_on_char '/' t) in
  let rec nth l k = match l with [] -> 206 | [x] -> x | x :: r -> if k = 0 then x else nth r (k - 1) in
  fun k -> answer_of_int (nth l (int_of_nat k))
(* failing token o:s:answers (o:s = status 500): the network of the run as seen through the session of requests_retry_session
   (via_retry gen_retry); a request fails when the extracted read says so *)
let fails_of_tok t =
  let l = List.map (fun tok -> match String.split_on_char ':' tok with
      | [o; s] -> (o ^ ":" ^ s, net_of_tok "500")
      | [o; s; st] -> (o ^ ":" ^ s, net_of_tok st)
      | _ -> failwith ("bad failing range " ^ tok)) (split_on '|' t) in
  let net r = match List.assoc_opt (tok_of_range r) l with
    | Some n -> n
    | None -> (fun _ -> AResp { r_status = z_of_int 206; r_body = [] }) in
  stream_fails gen_stream_read (via_retry gen_retry net)

let tok_of_tres = function TResp r -> string_of_int (int_of_z r.r_status) | TExhausted -> "exhausted" | TCut -> "cut"

(* one request through the retrying adapter: outcome, attempts, does the read fail *)
let retry_cmd t =
  let net = net_of_tok t in
  let (res, att) = send_cfg gen_retry net in
  let fails = stream_fails gen_stream_read (via_retry gen_retry (fun _ -> net)) (z_of_int 0, z_of_int 1) in
  Printf.sprintf "ok result=%s attempts=%d raises=%s fails=%s" (tok_of_tres res) (int_of_nat att)
    (match res with TExhausted -> "T" | _ -> "F") (if fails then "T" else "F")

(* a history of sends (T = the send raises) against what the transport keeps: gen | slots:<capacity>:<T|F released when send raises> *)
let kept_of_tok t = match String.split_on_char ':' t with
  | ["gen"] -> gen_transport_kept
  | ["slots"; c; rel] -> TkSlots (nat_of_int (int_of_string c), rel = "T")
  | _ -> failwith ("bad transport " ^ t)
let history_cmd kept sends =
  let tk = kept_of_tok kept in
  let l = List.init (String.length sends) (fun i -> sends.[i] = 'T') in
  let l = if sends = "-" then [] else l in
  (* index of the first send that blocks for ever *)
  let rec go free k = function
    | [] -> Printf.sprintf "ok blocks=never free=%d" (int_of_nat free)
    | b :: r -> (match slot_send tk free b with
        | None -> Printf.sprintf "ok blocks=%d free=0" k
        | Some f -> go f (k + 1) r) in
  go (slots_init tk) 0 l

let rec nth_opt l n = match l, n with [], _ -> None | x :: _, 0 -> Some x | _ :: r, n -> nth_opt r (n - 1)

(* ------------------------------------------------------------------ queue strategy *)
let prog_of_tok = function "gen" -> gen_worker_prog | "old" -> old_worker_prog | t -> failwith ("bad prog " ^ t)

(* label of thread t's next instruction: `Vis l | `Silent | `None (exited / finished) *)
let q_next wp ps t =
  let s = ps.p_s in
  if t = 0 then
    (match s.s_status with
     | MRunning -> (match s.s_todo with
         | MPutAll :: _ -> if ps.p_toput <> [] then `Vis "qput" else `Silent
         | MStart _ :: _ -> if ps.p_tostart <> O then `Vis "start" else `Silent
         | MJoin :: _ -> `Vis "join" | MDrain :: _ -> `Vis "drain"
         | _ -> `Silent)
     | _ -> `None)
  else match nth_opt s.s_ws (t - 1) with
    | Some (WRun (pc, cur, failed)) ->
      (match nth_opt wp (int_of_nat pc) with
       | Some ITestEmpty -> `Vis "test"
       | Some (ITake _) -> `Vis "take"
       | Some IFetch -> `Vis "fetch"
       | Some IPutResult -> (match cur, failed with Some _, false -> `Vis "put" | _ -> `Silent)
       | Some IPutExc -> (match cur, failed with Some _, true -> `Vis "put" | _ -> `Silent)
       | Some ITaskDone -> `Vis "done"
       | Some IBreakIfFailed -> `Silent
       | None -> `None)
    | _ -> `None

let rec q_silent wp file fails s t fuel =
  if fuel = 0 then s else
  match q_next wp s t with
  | `Silent -> (match pstep wp file fails s (nat_of_int t) with Some s' -> q_silent wp file fails s' t (fuel - 1) | None -> s)
  | _ -> s

let q_threads ps = List.length ps.p_s.s_ws

let q_all_silent wp file fails s =
  let n = q_threads s in
  let r = ref s in
  for t = 0 to n do r := q_silent wp file fails !r t 50 done; !r

let q_enabled wp file fails s =
  List.filter (fun t -> match q_next wp s t with
      | `Vis _ -> pstep wp file fails s (nat_of_int t) <> None
      | _ -> false)
    (List.init (q_threads s + 1) (fun i -> i))

(* nothing is left to do for the call: the queue is empty, nothing unfinished, no worker holds a range *)
let q_quiet ps =
  let s = ps.p_s in
  ps.p_toput = [] && ps.p_tostart = O && s.s_q = [] && s.s_unf = O && List.for_all w_idle s.s_ws

let q_summary ?(quiet = "-") wp file fails ps steps =
  let ps = q_all_silent wp file fails ps in
  let s = ps.p_s in
  let status = match s.s_status with MRunning -> "running" | MReturned -> "returned" | MRaised r -> "raised:" ^ tok_of_range r in
  let exited = String.concat "" (List.map (fun w -> match w with WExit -> "1" | _ -> "0") s.s_ws) in
  let en = q_enabled wp file fails ps in
  Printf.sprintf "ok status=%s buf=%s exited=%s stuck=%s steps=%d toput=%d tostart=%d quiet=%s" status (tok_of_bytes s.s_buf)
    (if exited = "" then "-" else exited) (if en = [] then "T" else "F") steps (List.length ps.p_toput) (int_of_nat ps.p_tostart) quiet

let q_macro wp file fails s t =
  (* silent steps of t, then its visible step if enabled *)
  let s1 = q_silent wp file fails s t 50 in
  match q_next wp s1 t with
  | `Vis l -> (match pstep wp file fails s1 (nat_of_int t) with Some s2 -> Some (l, s2) | None -> None)
  | _ -> None

let qtrace wp file ranges workers fails events =
  let s = ref (pinit gen_main_prog ranges (nat_of_int workers)) in
  let k = ref 0 in
  let err = ref None in
  let quiet = ref "-" in      (* was nothing left to do at the moment main returned / raised? *)
  let note () =
    if !quiet = "-" then begin
      let s1 = q_silent wp file fails !s 0 50 in
      if s1.p_s.s_status <> MRunning then quiet := (if q_quiet s1 then "T" else "F")
    end in
  List.iter (fun ev ->
      if !err = None then begin
        match String.split_on_char '.' ev with
        | t :: lab :: _ ->
          let t = int_of_string t in
          let s1 = q_silent wp file fails !s t 50 in
          (match q_next wp s1 t with
           | `Vis l when l = lab ->
             (match pstep wp file fails s1 (nat_of_int t) with
              | Some s2 -> s := s2; incr k; note ()
              | None -> err := Some (Printf.sprintf "reject at=%d thread=%d got=%s expected=blocked" !k t lab))
           | `Vis l -> err := Some (Printf.sprintf "reject at=%d thread=%d got=%s expected=%s" !k t lab l)
           | _ -> err := Some (Printf.sprintf "reject at=%d thread=%d got=%s expected=nothing" !k t lab))
        | _ -> err := Some ("reject bad event " ^ ev)
      end) events;
  note ();
  match !err with Some e -> e | None -> q_summary ~quiet:!quiet wp file fails !s !k

let q_key ps =
  let s = ps.p_s in
  let b = Buffer.create 128 in
  Buffer.add_string b (Printf.sprintf "%d.%d|" (List.length ps.p_toput) (int_of_nat ps.p_tostart));
  List.iter (fun r -> Buffer.add_string b (tok_of_range r); Buffer.add_char b ',') s.s_q;
  Buffer.add_string b (Printf.sprintf "|%d|" (int_of_nat s.s_unf));
  let it = function IData r -> "d" ^ tok_of_range r | IExc r -> "e" ^ tok_of_range r in
  List.iter (fun i -> Buffer.add_string b (it i); Buffer.add_char b ',') s.s_resq;
  Buffer.add_char b '|';
  List.iter (fun w -> (match w with
      | WExit -> Buffer.add_string b "X"
      | WRun (pc, cur, f) -> Buffer.add_string b (Printf.sprintf "%d%s%s" (int_of_nat pc)
                                                   (match cur with Some r -> tok_of_range r | None -> "_") (if f then "f" else "o")));
      Buffer.add_char b ',') s.s_ws;
  Buffer.add_string b (Printf.sprintf "|%d|" (List.length s.s_todo));
  List.iter (fun i -> Buffer.add_string b (it i); Buffer.add_char b ',') s.s_local;
  Buffer.add_string b (match s.s_status with MRunning -> "|r" | MReturned -> "|R" | MRaised r -> "|E" ^ tok_of_range r);
  Buffer.contents b

(* breadth-first exploration at the granularity of visible steps; returns schedules (lists of thread ids) such that every
   transition of the reachable graph lies on one of them: the tree paths to the leaves and path(s)+[t] for non-tree edges *)
let explore key enabled macro s0 maxstates =
  let seen = Hashtbl.create 4096 in
  let q = Queue.create () in
  Hashtbl.add seen (key s0) ();
  Queue.add (s0, []) q;
  let scheds = ref [] in
  let nstates = ref 1 and nedges = ref 0 and truncated = ref false in
  while not (Queue.is_empty q) do
    let (s, path) = Queue.pop q in
    let en = enabled s in
    let tree_child = ref false in
    List.iter (fun t ->
        match macro s t with
        | None -> ()
        | Some s' ->
          incr nedges;
          let k = key s' in
          if Hashtbl.mem seen k then scheds := List.rev (t :: path) :: !scheds
          else if !nstates >= maxstates then (truncated := true; scheds := List.rev (t :: path) :: !scheds)
          else begin
            Hashtbl.add seen k (); incr nstates; tree_child := true;
            Queue.add (s', t :: path) q
          end) en;
    if en = [] then scheds := List.rev path :: !scheds
  done;
  Printf.sprintf "ok states=%d edges=%d truncated=%s scheds=%s" !nstates !nedges (if !truncated then "T" else "F")
    (String.concat ";" (List.map (fun p -> if p = [] then "-" else String.concat "," (List.map string_of_int p)) !scheds))

let qexplore wp file ranges workers fails maxstates =
  let s0 = pinit gen_main_prog ranges (nat_of_int workers) in
  explore q_key (fun s -> List.filter (fun t -> q_macro wp file fails s t <> None) (List.init (q_threads s + 1) (fun i -> i)))
    (fun s t -> match q_macro wp file fails s t with Some (_, s') -> Some s' | None -> None) s0 maxstates

(* ------------------------------------------------------------------ executor strategy *)
let x_next job s t =
  if t = 0 then
    (match s.x_main with
     | XCollect (k, _) -> if int_of_nat k = List.length s.x_fut then `Silent else `Vis "collect"
     | XShutdown _ -> `Vis "joined"
     | XDone _ -> `None)
  else match nth_opt s.x_ws (t - 1) with
    | Some XIdle -> (match s.x_pending, s.x_main with
        | _ :: _, _ -> `Vis "begin"
        | [], XShutdown _ -> `Silent
        | _ -> `None)
    | Some (XJob (_, _, pc)) -> (match nth_opt job (int_of_nat pc) with
        | Some JSeek -> `Vis "seek" | Some JRead -> `Vis "fetch" | None -> `Silent)
    | _ -> `None

let rec x_silent xs job s t fuel =
  if fuel = 0 then s else
  match x_next job s t with
  | `Silent -> (match xs s (nat_of_int t) with Some s' -> x_silent xs job s' t (fuel - 1) | None -> s)
  | _ -> s

let x_all_silent xs job s =
  let n = List.length s.x_ws in
  let r = ref s in
  for _ = 0 to 1 do for t = 0 to n do r := x_silent xs job !r t 50 done done; !r

let x_enabled xs job s =
  List.filter (fun t -> match x_next job s t with
      | `Vis _ -> xs s (nat_of_int t) <> None
      | _ -> false)
    (List.init (List.length s.x_ws + 1) (fun i -> i))

let tok_of_outcome = function OReturned b -> "returned:" ^ tok_of_bytes b | ORaised r -> "raised:" ^ tok_of_range r

let x_summary xs job s steps =
  let s = x_all_silent xs job s in
  let main, out = match s.x_main with
    | XCollect (k, _) -> Printf.sprintf "collect:%d" (int_of_nat k), "none"
    | XShutdown o -> "shutdown", tok_of_outcome o
    | XDone o -> "done", tok_of_outcome o in
  let exited = String.concat "" (List.map (fun w -> match w with XExit -> "1" | _ -> "0") s.x_ws) in
  let en = x_enabled xs job s in
  Printf.sprintf "ok main=%s outcome=%s exited=%s stuck=%s steps=%d" main out (if exited = "" then "-" else exited)
    (if en = [] then "T" else "F") steps

let x_macro xs job s t =
  let s1 = x_silent xs job s t 50 in
  match x_next job s1 t with
  | `Vis l -> (match xs s1 (nat_of_int t) with Some s2 -> Some (l, s2) | None -> None)
  | _ -> None

let xtrace xs job ranges workers events =
  let s = ref (xinit ranges (nat_of_int workers)) in
  let k = ref 0 in
  let err = ref None in
  List.iter (fun ev ->
      if !err = None then begin
        match String.split_on_char '.' ev with
        | t :: lab :: rest ->
          let t = int_of_string t in
          let s1 = x_silent xs job !s t 50 in
          if lab = "shutdown" then begin
            (* `with` block left: main must have stopped collecting *)
            match s1.x_main with
            | XShutdown _ -> s := s1
            | _ -> err := Some (Printf.sprintf "reject at=%d thread=%d got=shutdown expected=collecting" !k t)
          end else begin
            (* idle workers that can only leave do so before main is joined *)
            let s1 = if lab = "joined" then x_all_silent xs job s1 else s1 in
            match x_next job s1 t with
            | `Vis l when l = lab ->
              let okjob = (match lab, rest, s1.x_pending with
                  | "begin", [i], (j, _) :: _ -> int_of_string i = int_of_nat j
                  | "begin", _, _ -> false
                  | _ -> true) in
              if not okjob then err := Some (Printf.sprintf "reject at=%d thread=%d got=%s expected=other-job" !k t ev)
              else (match xs s1 (nat_of_int t) with
                  | Some s2 -> s := s2; incr k
                  | None -> err := Some (Printf.sprintf "reject at=%d thread=%d got=%s expected=blocked" !k t lab))
            | `Vis l -> err := Some (Printf.sprintf "reject at=%d thread=%d got=%s expected=%s" !k t lab l)
            | _ -> err := Some (Printf.sprintf "reject at=%d thread=%d got=%s expected=nothing" !k t lab)
          end
        | _ -> err := Some ("reject bad event " ^ ev)
      end) events;
  match !err with Some e -> e | None -> x_summary xs job !s !k

(* threads that can take a visible step, possibly after silent ones *)
let x_enabled_macro xs job s =
  List.filter (fun t -> x_macro xs job s t <> None) (List.init (List.length s.x_ws + 1) (fun i -> i))

let x_key s =
  let b = Buffer.create 128 in
  List.iter (fun (i, _) -> Buffer.add_string b (string_of_int (int_of_nat i)); Buffer.add_char b ',') s.x_pending;
  Buffer.add_char b '|';
  List.iter (fun p -> Buffer.add_string b (string_of_int (int_of_z p)); Buffer.add_char b ',') s.x_pos;
  Buffer.add_char b '|';
  List.iter (fun f -> Buffer.add_string b (match f with None -> "n" | Some (FData d) -> tok_of_bytes d | Some (FExc r) -> "e" ^ tok_of_range r);
              Buffer.add_char b ',') s.x_fut;
  Buffer.add_char b '|';
  List.iter (fun i -> Buffer.add_string b (string_of_int (int_of_nat i)); Buffer.add_char b ',') s.x_order;
  Buffer.add_char b '|';
  List.iter (fun w -> Buffer.add_string b (match w with XIdle -> "I" | XExit -> "X"
                                                       | XJob (i, _, pc) -> Printf.sprintf "J%d.%d" (int_of_nat i) (int_of_nat pc));
              Buffer.add_char b ',') s.x_ws;
  Buffer.add_string b (match s.x_main with
      | XCollect (k, _) -> Printf.sprintf "|c%d" (int_of_nat k)
      | XShutdown o -> "|s" ^ tok_of_outcome o | XDone o -> "|d" ^ tok_of_outcome o);
  Buffer.contents b

let xexplore xs job ranges workers maxstates =
  let s0 = xinit ranges (nat_of_int workers) in
  explore x_key (x_enabled_macro xs job)
    (fun s t -> match x_macro xs job s t with Some (_, s') -> Some s' | None -> None) s0 maxstates

let collect_of_tok = function "sub" -> BySubmission | "comp" -> ByCompletion | t -> failwith ("bad collect " ^ t)

let tok_of_winstr = function
  | ITestEmpty -> "test" | ITake b -> if b then "take_blocking" else "take_nowait" | IFetch -> "fetch" | IPutResult -> "put_result"
  | IPutExc -> "put_exc" | ITaskDone -> "task_done" | IBreakIfFailed -> "break_if_failed"
let tok_of_minstr = function
  | MPutAll -> "put_all" | MStart b -> if b then "start_min" else "start_all" | MJoin -> "join" | MDrain -> "drain" | MSort -> "sort"
  | MAssemble -> "assemble"

let tok_of_sinstr = function
  | SZeroEmpty -> "zero_empty" | SRequest -> "request" | SRaiseForStatus -> "raise_for_status" | SAdvance -> "advance"
  | SReturnContent -> "return_content"

let site_of_tok = function
  | "gen" -> gen_fetch_site | "off" -> FsMemo true | "range" -> FsMemo false | t -> failwith ("bad site " ^ t)
let tok_of_site = function FsDirect -> "direct" | FsMemo true -> "memo_by_offset" | FsMemo false -> "memo_by_range"

let session site file queries =
  let honest rs = OReturned (local_read file rs) in
  let outs = reader_session site [] (List.map (fun rs -> (rs, honest)) queries) in
  "ok outs=" ^ String.concat ";" (List.map tok_of_outcome outs)

let handle line =
  match String.split_on_char ' ' (String.trim line) with
  | ["session"; site; f; qs] ->
    session (site_of_tok site) (bytes_of_tok f) (List.map ranges_of_tok (String.split_on_char ';' qs))
  | ["qtrace"; p; f; r; w; fl; ev] ->
    qtrace (prog_of_tok p) (bytes_of_tok f) (ranges_of_tok r) (int_of_string w) (fails_of_tok fl) (split_on ',' ev)
  | ["qexplore"; p; f; r; w; fl; m] ->
    qexplore (prog_of_tok p) (bytes_of_tok f) (ranges_of_tok r) (int_of_string w) (fails_of_tok fl) (int_of_string m)
  | ["xtrace"; pj; c; f; r; w; fl; ev] ->
    let job = gen_exec_job in
    let xs = xstep (pj = "T") (collect_of_tok c) job (bytes_of_tok f) (fails_of_tok fl) in
    xtrace xs job (ranges_of_tok r) (int_of_string w) (split_on ',' ev)
  | ["xexplore"; pj; c; f; r; w; fl; m] ->
    let job = gen_exec_job in
    let xs = xstep (pj = "T") (collect_of_tok c) job (bytes_of_tok f) (fails_of_tok fl) in
    xexplore xs job (ranges_of_tok r) (int_of_string w) (int_of_string m)
  | ["shape"] ->
    Printf.sprintf "ok worker=%s main=%s per_job=%s collect=%s read=%s reader_workers_for_7=%d kept_between_queries=%s retry_total=%d retry_connect=%d retry_read=%d retry_statuses=%s transport_keeps=%s"
      (String.concat "," (List.map tok_of_winstr gen_worker_prog)) (String.concat "," (List.map tok_of_minstr gen_main_prog))
      (if gen_exec_stream_per_job then "T" else "F") (match gen_exec_collect with BySubmission -> "sub" | ByCompletion -> "comp")
      (String.concat "," (List.map tok_of_sinstr gen_stream_read)) (int_of_nat (gen_fetch_workers (nat_of_int 7)))
      (tok_of_site gen_fetch_site) (int_of_nat gen_retry.rt_total) (int_of_nat gen_retry.rt_connect) (int_of_nat gen_retry.rt_read)
      (String.concat "," (List.map (fun z -> string_of_int (int_of_z z)) gen_retry.rt_statuses))
      (match gen_transport_kept with TkNothing -> "nothing" | TkSlots _ -> "slots")
  | ["retry"; t] -> retry_cmd t
  | ["history"; kept; sends] -> history_cmd kept sends
  | ["workers"; n] -> Printf.sprintf "ok workers=%d" (int_of_nat (gen_fetch_workers (nat_of_int (int_of_string n))))
  | _ -> "error bad command"

let () =
  try
    while true do
      let line = input_line stdin in
      let out = (try handle line with e -> "error " ^ Printexc.to_string e) in
      print_string out; print_newline ()
    done
  with End_of_file -> ()
