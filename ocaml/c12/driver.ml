(* Line-protocol driver around the extracted C12 model (Model/Convert.v).
   dims <fmt>                                    -> name|name|...
   storage <fmt>                                 -> name|name|...
   lost <a> <b>                                  -> name|name|... (- = none)
   convert <M.m> <fmt> <tgt|-> <M.m|-> <edims> <pts> <vlrs> <evlrs>
        edims: - | name:x<descriptor hex>:width|...
        pts:   - | point;point;...     point = name=int,name=int,...#x<hex>/x<hex>/...   (# part: one token per extra dim, - = none)
        vlrs:  - | T:x<hex>|F:x<hex>|...      (T = ExtraBytesVlr)
        evlrs: none | some:- | some:x<hex>|x<hex>
     -> ok <M.m> <fmt> <edims> <pts> <vlrs> <evlrs> <source unchanged T/F> <names>  |  err <E>
        names: every name the point format of the result lists, with what asking for it by name finds:
               name=S (a standard dimension) | name=E:x<descriptor hex> (that extra dimension) | name=! (nothing), joined by | *)
open Model

let rec pos_of_int n = if n = 1 then XH else if n land 1 = 0 then XO (pos_of_int (n lsr 1)) else XI (pos_of_int (n lsr 1))
let z_of_int n = if n = 0 then Z0 else if n > 0 then Zpos (pos_of_int n) else Zneg (pos_of_int (-n))
let ten = z_of_int 10
let z_of_string s =
  let neg = String.length s > 0 && s.[0] = '-' in
  let acc = ref Z0 in
  String.iteri (fun i c -> if not (i = 0 && neg) then
    acc := Z.add (Z.mul !acc ten) (z_of_int (Char.code c - 48))) s;
  if neg then Z.sub Z0 !acc else !acc
let rec pos_bits = function XH -> 1 | XO p | XI p -> 1 + pos_bits p
let rec int_of_pos = function XH -> 1 | XO p -> 2 * int_of_pos p | XI p -> 2 * int_of_pos p + 1
let billion = z_of_int 1000000000
let rec string_of_posz zv = (* zv >= 0 *)
  match zv with
  | Z0 -> "0"
  | Zpos p when pos_bits p < 62 -> string_of_int (int_of_pos p)
  | _ -> let (q, r) = Z.div_eucl zv billion in
         let rs = (match r with Z0 -> 0 | Zpos p -> int_of_pos p | Zneg _ -> 0) in
         string_of_posz q ^ Printf.sprintf "%09d" rs
let string_of_z = function
  | Zneg p -> "-" ^ string_of_posz (Zpos p)
  | zv -> string_of_posz zv
let int_of_z = function Z0 -> 0 | Zpos p -> int_of_pos p | Zneg p -> - (int_of_pos p)
let tok_of_bool b = if b then "T" else "F"
let bytes_of_tok s =
  let n = (String.length s - 1) / 2 in
  List.init n (fun i -> z_of_int (int_of_string ("0x" ^ String.sub s (1 + 2 * i) 2)))
let tok_of_bytes l =
  let b = Buffer.create 64 in
  Buffer.add_char b 'x';
  List.iter (fun zv -> let v = int_of_z zv in
    if v < 0 || v > 255 then Buffer.add_string b "??" else Buffer.add_string b (Printf.sprintf "%02x" v)) l;
  Buffer.contents b
let err_name = function
  | EOverflow -> "EOverflow" | EIndex -> "EIndex" | ELaspy -> "ELaspy" | EValue -> "EValue"
  | EShort -> "EShort" | EFuel -> "EFuel" | EStop -> "EStop" | EOther -> "EOther"

let explode s = List.init (String.length s) (String.get s)
let ascii_of_char c = let n = Char.code c in let b i = (n lsr i) land 1 = 1 in
  Ascii (b 0, b 1, b 2, b 3, b 4, b 5, b 6, b 7)
let char_of_ascii = function Ascii (b0, b1, b2, b3, b4, b5, b6, b7) ->
  let v b i = if b then 1 lsl i else 0 in
  Char.chr (v b0 0 + v b1 1 + v b2 2 + v b3 3 + v b4 4 + v b5 5 + v b6 6 + v b7 7)
let coq_string_of s = List.fold_right (fun c acc -> String (ascii_of_char c, acc)) (explode s) EmptyString
let rec string_of_coq = function EmptyString -> "" | String (c, r) -> Stdlib.String.make 1 (char_of_ascii c) ^ string_of_coq r
let split_on c s = if s = "-" || s = "" then [] else String.split_on_char c s
let names l = if l = [] then "-" else String.concat "|" (List.map string_of_coq l)

let ver_of_tok t = match String.split_on_char '.' t with
  | [a; b] -> (z_of_string a, z_of_string b) | _ -> failwith ("bad version " ^ t)
let tok_of_ver (a, b) = string_of_z a ^ "." ^ string_of_z b

let edim_of_tok t = match String.split_on_char ':' t with
  | [n; d; w] -> { ed_name = coq_string_of n; ed_desc = bytes_of_tok d; ed_width = z_of_string w }
  | _ -> failwith ("bad edim " ^ t)
let tok_of_edim e = String.concat ":" [string_of_coq e.ed_name; tok_of_bytes e.ed_desc; string_of_z e.ed_width]
let tok_of_edims l = if l = [] then "-" else String.concat "|" (List.map tok_of_edim l)

let point_of_tok t = match String.split_on_char '#' t with
  | [s; e] ->
    let std = List.map (fun kv -> match String.index_opt kv '=' with
      | Some i -> (coq_string_of (String.sub kv 0 i), z_of_string (String.sub kv (i + 1) (String.length kv - i - 1)))
      | None -> failwith ("bad field " ^ kv)) (split_on ',' s) in
    (std, List.map bytes_of_tok (split_on '/' e))
  | _ -> failwith ("bad point " ^ t)
let tok_of_point (std, ext) =
  (if std = [] then "-" else String.concat "," (List.map (fun (n, v) -> string_of_coq n ^ "=" ^ string_of_z v) std))
  ^ "#" ^ (if ext = [] then "-" else String.concat "/" (List.map tok_of_bytes ext))
let tok_of_points l = if l = [] then "-" else String.concat ";" (List.map tok_of_point l)

let vlr_of_tok t = match String.split_on_char ':' t with
  | [k; b] -> (k = "T", bytes_of_tok b) | _ -> failwith ("bad vlr " ^ t)
let tok_of_vlrs l = if l = [] then "-" else String.concat "|" (List.map (fun (k, b) -> tok_of_bool k ^ ":" ^ tok_of_bytes b) l)
let evlrs_of_tok t = if t = "none" then None else
  Some (List.map bytes_of_tok (split_on '|' (String.sub t 5 (String.length t - 5))))
let tok_of_resolutions l = if l = [] then "-" else String.concat "|" (List.map (fun (n, r) -> string_of_coq n ^ "=" ^
  (match r with None -> "!" | Some RStd -> "S" | Some (RExt e) -> "E:" ^ tok_of_bytes e.ed_desc)) l)
let tok_of_evlrs = function None -> "none" | Some l -> "some:" ^ (if l = [] then "-" else String.concat "|" (List.map tok_of_bytes l))

let dispatch cmd a =
  let zi i = z_of_string a.(i) in
  match cmd with
  | "dims" -> names (dim_names (zi 0))
  | "storage" -> names (storage_names (zi 0))
  | "lost" -> names (lost (zi 0) (zi 1))
  | "ids" -> String.concat "," (List.map string_of_z std_ids)
  | "convert" ->
    let l = { l_ver = ver_of_tok a.(0); l_fmt = zi 1; l_edims = List.map edim_of_tok (split_on '|' a.(4));
              l_pts = List.map point_of_tok (split_on ';' a.(5)); l_vlrs = List.map vlr_of_tok (split_on '|' a.(6));
              l_evlrs = evlrs_of_tok a.(7) } in
    let tgt = if a.(2) = "-" then None else Some (zi 2) in
    let ver = if a.(3) = "-" then None else Some (ver_of_tok a.(3)) in
    let (src, r) = convert_io l tgt ver in
    (match r with
     | Err e -> "err " ^ err_name e
     | Ok l' -> String.concat " " ["ok"; tok_of_ver l'.l_ver; string_of_z l'.l_fmt; tok_of_edims l'.l_edims;
                                   tok_of_points l'.l_pts; tok_of_vlrs l'.l_vlrs; tok_of_evlrs l'.l_evlrs; tok_of_bool (src = l); tok_of_resolutions (resolutions l')])
  | _ -> "unknown-command " ^ cmd

let () =
  try
    while true do
      let line = input_line stdin in
      let toks = List.filter (fun s -> s <> "") (String.split_on_char ' ' line) in
      (match toks with
       | [] -> print_endline ""
       | cmd :: args ->
         (try print_endline (dispatch cmd (Array.of_list args))
          with ex -> print_endline ("driver-error " ^ Printexc.to_string ex)))
    done
  with End_of_file -> ()
