(* Line-protocol driver around the extracted models (model.ml).
   One command per input line, one result per output line. Tokens: decimal ints (any size),
   T/F booleans, x<hex> byte strings (x alone = empty), comma lists of ints (- = empty). *)
open Model

let rec pos_of_int n = if n = 1 then XH else if n land 1 = 0 then XO (pos_of_int (n lsr 1)) else XI (pos_of_int (n lsr 1))
let z_of_int n = if n = 0 then Z0 else if n > 0 then Zpos (pos_of_int n) else Zneg (pos_of_int (-n))
let rec nat_of_int n = if n <= 0 then O else S (nat_of_int (n - 1))
let rec int_of_nat = function O -> 0 | S k -> 1 + int_of_nat k
let ten = z_of_int 10
let z_of_string s =
  let neg = String.length s > 0 && s.[0] = '-' in
  let acc = ref Z0 in
  String.iteri (fun i c -> if not (i = 0 && neg) then
    acc := Z.add (Z.mul !acc ten) (z_of_int (Char.code c - 48))) s;
  if neg then Z.sub Z0 !acc else !acc
let rec pos_bits = function XH -> 1 | XO p | XI p -> 1 + pos_bits p
let rec int_of_pos = function XH -> 1 | XO p -> 2 * int_of_pos p | XI p -> 2 * int_of_pos p + 1
let billion = z_of_int 1000000000
let rec string_of_posz zv = (* zv >= 0 *)
  match zv with
  | Z0 -> "0"
  | Zpos p when pos_bits p < 62 -> string_of_int (int_of_pos p)
  | _ -> let (q, r) = Z.div_eucl zv billion in
         let rs = (match r with Z0 -> 0 | Zpos p -> int_of_pos p | Zneg _ -> 0) in
         string_of_posz q ^ Printf.sprintf "%09d" rs
let string_of_z = function
  | Zneg p -> "-" ^ string_of_posz (Zpos p)
  | zv -> string_of_posz zv
let int_of_z = function Z0 -> 0 | Zpos p -> int_of_pos p | Zneg p -> - (int_of_pos p)
let bool_of_tok s = (s = "T")
let tok_of_bool b = if b then "T" else "F"
let bytes_of_tok s =
  let n = (String.length s - 1) / 2 in
  List.init n (fun i -> z_of_int (int_of_string ("0x" ^ String.sub s (1 + 2 * i) 2)))
let tok_of_bytes l =
  let b = Buffer.create 64 in
  Buffer.add_char b 'x';
  List.iter (fun zv -> let v = int_of_z zv in
    if v < 0 || v > 255 then Buffer.add_string b "??" else Buffer.add_string b (Printf.sprintf "%02x" v)) l;
  Buffer.contents b
let zlist_of_tok s = if s = "-" then [] else List.map z_of_string (String.split_on_char ',' s)
let tok_of_zlist l = if l = [] then "-" else String.concat "," (List.map string_of_z l)
let err_name = function
  | EOverflow -> "EOverflow" | EIndex -> "EIndex" | ELaspy -> "ELaspy" | EValue -> "EValue"
  | EShort -> "EShort" | EFuel -> "EFuel" | EStop -> "EStop" | EOther -> "EOther"
let res f = function Ok a -> "ok " ^ f a | Err e -> "err " ^ err_name e


(* ---------- Las model glue ---------- *)
let explode s = List.init (String.length s) (String.get s)
let ascii_of_char c = let n = Char.code c in let b i = (n lsr i) land 1 = 1 in
  Ascii (b 0, b 1, b 2, b 3, b 4, b 5, b 6, b 7)
let char_of_ascii = function Ascii (b0, b1, b2, b3, b4, b5, b6, b7) ->
  let v b i = if b then 1 lsl i else 0 in
  Char.chr (v b0 0 + v b1 1 + v b2 2 + v b3 3 + v b4 4 + v b5 5 + v b6 6 + v b7 7)
let coq_string_of s = List.fold_right (fun c acc -> String (ascii_of_char c, acc)) (explode s) EmptyString
let rec string_of_coq = function EmptyString -> "" | String (c, r) -> Stdlib.String.make 1 (char_of_ascii c) ^ string_of_coq r
let value_of_tok t = if String.length t > 0 && t.[0] = 'x' then VBytes (bytes_of_tok t) else VInt (z_of_string t)
let tok_of_value = function VInt v -> string_of_z v | VBytes b -> tok_of_bytes b
let split_on c s = if s = "-" || s = "" then [] else String.split_on_char c s
let assoc_of_tok t =
  List.map (fun e -> match String.index_opt e '=' with
    | Some i -> (coq_string_of (String.sub e 0 i), value_of_tok (String.sub e (i + 1) (String.length e - i - 1)))
    | None -> failwith ("bad assoc entry " ^ e)) (split_on '|' t)
let tok_of_assoc a = if a = [] then "-" else
  String.concat "|" (List.map (fun (n, v) -> string_of_coq n ^ "=" ^ tok_of_value v) a)
let vlr_of_tok t = match String.split_on_char ':' t with
  | [u; r; d; p] -> { v_uid = bytes_of_tok u; v_rid = z_of_string r; v_desc = bytes_of_tok d; v_data = bytes_of_tok p }
  | _ -> failwith ("bad vlr " ^ t)
let vlrs_of_tok t = List.map vlr_of_tok (split_on '|' t)
let tok_of_vlr v = String.concat ":" [tok_of_bytes v.v_uid; string_of_z v.v_rid; tok_of_bytes v.v_desc; tok_of_bytes v.v_data]
let tok_of_vlrs l = if l = [] then "-" else String.concat "|" (List.map tok_of_vlr l)
let rec chunk n l = if l = [] then [] else
  let rec take k l acc = if k = 0 then (List.rev acc, l) else match l with [] -> (List.rev acc, []) | x :: r -> take (k - 1) r (x :: acc) in
  let (a, b) = take n l [] in a :: chunk n b
let recs_of_tok ps t = chunk ps (bytes_of_tok t)
let tok_of_recs l = tok_of_bytes (List.concat l)
(* x -> bits of (float x * scale + offset) in IEEE binary64: the one float formula of header.grow *)
let i64_of_z zv = Int64.of_string ("0u" ^ string_of_z zv)
let z_of_i64 i = z_of_string (Printf.sprintf "%Lu" i)
let ap s o x =
  let xf = float_of_string (string_of_z x) in
  z_of_i64 (Int64.bits_of_float (xf *. Int64.float_of_bits (i64_of_z s) +. Int64.float_of_bits (i64_of_z o)))
let unit_res = function Ok _ -> "ok" | Err e -> "err:" ^ err_name e

let dispatch cmd a =
  let zi i = z_of_string a.(i) in
  match cmd with
  | "ge_set" -> string_of_z (ge_set (nat_of_int (int_of_string a.(0))) (zi 1) (bool_of_tok a.(2)))
  | "ge_run" ->
    let ops = if Array.length a < 2 || a.(1) = "-" then [] else
      List.map (fun t -> (nat_of_int (Char.code t.[0] - 48), t.[1] = 'T')) (String.split_on_char ',' a.(1)) in
    string_of_z (ge_run (zi 0) ops)
  | "ge_get" -> tok_of_bool (ge_get (nat_of_int (int_of_string a.(0))) (zi 1))
  | "fmt_is_compressed" -> tok_of_bool (is_point_format_compressed (zi 0))
  | "fmt_to_uncompressed" -> string_of_z (compressed_id_to_uncompressed (zi 0))
  | "fmt_to_compressed" -> string_of_z (uncompressed_id_to_compressed (zi 0))
  | "lsb" -> string_of_z (least_significant_bit_set (zi 0))
  | "null_pad" -> tok_of_bytes (null_pad (bytes_of_tok a.(0)) (nat_of_int (int_of_string a.(1))) (bool_of_tok a.(2)))
  | "enc_vlrs" -> res tok_of_bytes (enc_vlrs (bool_of_tok a.(0)) (vlrs_of_tok a.(1)))
  | "dec_vlrs" -> res (fun (l, r) -> tok_of_vlrs l ^ " " ^ tok_of_bytes r)
                    (dec_vlrs_f (bool_of_tok a.(0)) (nat_of_int (int_of_string a.(1))) (bytes_of_tok a.(2)))
  | "enc_header" -> res (fun (h, b) -> tok_of_bytes b ^ " " ^ tok_of_assoc h)
                      (enc_header (assoc_of_tok a.(0)) (vlrs_of_tok a.(1)) (bool_of_tok a.(2)))
  | "dec_header" ->
    res (fun rh -> String.concat " " [tok_of_assoc rh.rh_fields; tok_of_vlrs rh.rh_vlrs;
                    (match rh.rh_evlrs with None -> "none" | Some l -> "some:" ^ tok_of_vlrs l);
                    string_of_z rh.rh_fmt; tok_of_bool rh.rh_compressed; string_of_z rh.rh_psize; string_of_z rh.rh_offset])
      (dec_header_f (bytes_of_tok a.(0)) (bool_of_tok a.(1)))
  | "file_of" -> let ps = int_of_string a.(3) in
    res tok_of_bytes (file_of ap (assoc_of_tok a.(0)) (vlrs_of_tok a.(1)) (zi 2) (recs_of_tok ps a.(4)) (vlrs_of_tok a.(5)))
  | "wrun" ->
    (match wopen (assoc_of_tok a.(0)) (vlrs_of_tok a.(1)) (zi 2) with
     | Err e -> "open-err:" ^ err_name e
     | Ok s0 ->
       let ps = int_of_string a.(3) in
       let ops = List.map (fun t ->
         match t.[0] with
         | 'P' -> WPoints (recs_of_tok ps (String.sub t 2 (String.length t - 2)), t.[1] = 'T')
         | 'E' -> WEvlrs (vlrs_of_tok (String.sub t 1 (String.length t - 1)))
         | _ -> WClose) (Array.to_list (Array.sub a 4 (Array.length a - 4))) in
       let (s, outs) = wrun ap s0 ops in
       String.concat "," (List.map unit_res outs) ^ " " ^ tok_of_bytes s.w_file)
  | "arun" -> let ps = int_of_string a.(1) in
    (match aopen_f (bytes_of_tok a.(0)) with
     | Err e -> "open-err:" ^ err_name e
     | Ok s0 ->
       let chunks = List.map (fun t -> (recs_of_tok ps (String.sub t 1 (String.length t - 1)), t.[0] = 'T'))
           (Array.to_list (Array.sub a 2 (Array.length a - 2))) in
       let (s, outs) = List.fold_left (fun (s, outs) (c, same) ->
           let (s', o) = apoints ap s c same in (s', outs @ [unit_res o])) (s0, []) chunks in
       String.concat "," outs ^ " " ^ res tok_of_bytes (aclose_t s))
  | "read_file" ->
    res (fun lf -> let rh = lf.lf_h in String.concat " " [tok_of_assoc rh.rh_fields; tok_of_vlrs rh.rh_vlrs;
                    (match rh.rh_evlrs with None -> "none" | Some l -> "some:" ^ tok_of_vlrs l);
                    string_of_z rh.rh_fmt; string_of_z rh.rh_psize; string_of_z rh.rh_offset; tok_of_recs lf.lf_points])
      (read_file_f (bytes_of_tok a.(0)))
  | "read_records" -> res tok_of_recs (read_records_f (bytes_of_tok a.(0)) (zi 1) (zi 2) (zi 3) (zi 4))
  | "compat" -> tok_of_bool (compat (zi 0) (zi 1) (zi 2))
  | "crun" | "srun" ->
    let ops = List.map (fun t ->
      let body = String.sub t 1 (String.length t - 1) in
      match t.[0] with
      | 'R' -> CRead (z_of_string body)
      | 'N' -> CNext (z_of_string body)
      | 'S' -> (match String.split_on_char ':' body with
                | [p; w] -> CSeek (z_of_string p, z_of_string w) | _ -> failwith "seek")
      | _ -> CReadAll) (Array.to_list (Array.sub a 1 (Array.length a - 1))) in
    let outs = if cmd = "crun" then snd (crun { c_n = zi 0; c_read = Z0; c_src = Z0 } ops)
               else snd (srun { sp_n = zi 0; sp_c = Z0 } ops) in
    String.concat " " (List.map (function
      | OSlice (x, y) -> "s" ^ string_of_z x ^ ":" ^ string_of_z y
      | OSeek i -> "k" ^ string_of_z i
      | OErr e -> "e" ^ err_name e) outs)
  | "sf_col" -> (* mask v : result of assigning v to each prior byte 0..255 *)
    let m = zi 0 and v = zi 1 in
    (match sf_assign m Z0 v with
     | Err e -> "err:" ^ err_name e
     | Ok _ -> tok_of_bytes (List.init 256 (fun b -> match sf_assign m (z_of_int b) v with Ok r -> r | Err _ -> z_of_int (-1))))
  | "sf_getcol" -> let m = zi 0 in tok_of_bytes (List.init 256 (fun b -> sf_get m (z_of_int b)))
  | "sf_arr" -> (* mask xbytes i:v,i:v *)
    let sel = if Array.length a < 3 || a.(2) = "-" then [] else
      List.map (fun t -> match String.split_on_char ':' t with
        | [i; v] -> (nat_of_int (int_of_string i), z_of_string v) | _ -> failwith "sel") (String.split_on_char ',' a.(2)) in
    res tok_of_bytes (sf_assign_arr (zi 0) (bytes_of_tok a.(1)) sel)
  | "sf_cmpcol" -> (* mask op c : fast-path comparison for each byte 0..255, as 0/1 bytes *)
    let m = zi 0 and op = zi 1 and c = zi 2 in
    tok_of_bytes (List.init 256 (fun b -> if sf_cmp_fast m (z_of_int b) op c then z_of_int 1 else Z0))
  | "stats_of" -> (* fmt psize assoc(scales/offsets) xrecs *)
    let st = stats_of ap (zi 0) (assoc_of_tok a.(2)) (recs_of_tok (int_of_string a.(1)) a.(3)) in
    String.concat " " [string_of_z st.s_count; tok_of_zlist st.s_max; tok_of_zlist st.s_min; tok_of_zlist st.s_ret]
  | "hrun" -> (* v.maj v.min fmt ops... : ops N<v|-><f|-> V<maj.min> F<f> B<maj.min>:<f> C<f|->:<v|-> W ; prints state after each op and ok/err *)
    let ver t = match String.split_on_char '.' t with [x; y] -> (z_of_string x, z_of_string y) | _ -> failwith "version" in
    let optv t = if t = "-" then None else Some (ver t) in
    let optf t = if t = "-" then None else Some (z_of_string t) in
    let parse t = let body = String.sub t 1 (String.length t - 1) in
      match t.[0] with
      | 'N' -> (match String.split_on_char ':' body with [v; f] -> HNew (optv v, optf f) | _ -> failwith "N")
      | 'V' -> HSetVersion (ver body)
      | 'F' -> HSetFormat (z_of_string body)
      | 'B' -> (match String.split_on_char ':' body with [v; f] -> HSetBoth (ver v, z_of_string f) | _ -> failwith "B")
      | 'C' -> (match String.split_on_char ':' body with [f; v] -> HConvert (optf f, optv v) | _ -> failwith "C")
      | _ -> HOpenWriter in
    let s0 = { hs_v = (zi 0, zi 1); hs_f = zi 2 } in
    let (_, outs) = List.fold_left (fun (s, acc) t ->
        match hstep s (parse t) with
        | Ok s' -> (s', acc @ ["ok:" ^ string_of_z (fst s'.hs_v) ^ "." ^ string_of_z (snd s'.hs_v) ^ ":" ^ string_of_z s'.hs_f])
        | Err e -> (s, acc @ ["err:" ^ err_name e])) (s0, []) (Array.to_list (Array.sub a 3 (Array.length a - 3))) in
    String.concat " " outs
  | "yday" -> if valid_date (zi 0) (zi 1) (zi 2) then string_of_z (yday (zi 0) (zi 1) (zi 2)) else "invalid"
  | "of_yday" -> (match of_yday (zi 0) (zi 1) with
                  | Some ((y, m), d) -> string_of_z y ^ "-" ^ string_of_z m ^ "-" ^ string_of_z d | None -> "none")
  | _ -> "unknown-command " ^ cmd

let () =
  try
    while true do
      let line = input_line stdin in
      let toks = List.filter (fun s -> s <> "") (String.split_on_char ' ' line) in
      (match toks with
       | [] -> print_endline ""
       | cmd :: args ->
         (try print_endline (dispatch cmd (Array.of_list args))
          with ex -> print_endline ("driver-error " ^ Printexc.to_string ex)))
    done
  with End_of_file -> ()
