(* Line-protocol driver around the extracted models (model.ml).
   One command per input line, one result per output line. Tokens: decimal ints (any size),
   T/F booleans, x<hex> byte strings (x alone = empty), comma lists of ints (- = empty). *)
open Model

let rec pos_of_int n = if n = 1 then XH else if n land 1 = 0 then XO (pos_of_int (n lsr 1)) else XI (pos_of_int (n lsr 1))
let z_of_int n = if n = 0 then Z0 else if n > 0 then Zpos (pos_of_int n) else Zneg (pos_of_int (-n))
let rec nat_of_int n = if n <= 0 then O else S (nat_of_int (n - 1))
let rec int_of_nat = function O -> 0 | S k -> 1 + int_of_nat k
let ten = z_of_int 10
let z_of_string s =
  let neg = String.length s > 0 && s.[0] = '-' in
  let acc = ref Z0 in
  String.iteri (fun i c -> if not (i = 0 && neg) then
    acc := Z.add (Z.mul !acc ten) (z_of_int (Char.code c - 48))) s;
  if neg then Z.sub Z0 !acc else !acc
let rec pos_bits = function XH -> 1 | XO p | XI p -> 1 + pos_bits p
let rec int_of_pos = function XH -> 1 | XO p -> 2 * int_of_pos p | XI p -> 2 * int_of_pos p + 1
let billion = z_of_int 1000000000
let rec string_of_posz zv = (* zv >= 0 *)
  match zv with
  | Z0 -> "0"
  | Zpos p when pos_bits p < 62 -> string_of_int (int_of_pos p)
  | _ -> let (q, r) = Z.div_eucl zv billion in
         let rs = (match r with Z0 -> 0 | Zpos p -> int_of_pos p | Zneg _ -> 0) in
         string_of_posz q ^ Printf.sprintf "%09d" rs
let string_of_z = function
  | Zneg p -> "-" ^ string_of_posz (Zpos p)
  | zv -> string_of_posz zv
let int_of_z = function Z0 -> 0 | Zpos p -> int_of_pos p | Zneg p -> - (int_of_pos p)
let bool_of_tok s = (s = "T")
let tok_of_bool b = if b then "T" else "F"
let bytes_of_tok s =
  let n = (String.length s - 1) / 2 in
  List.init n (fun i -> z_of_int (int_of_string ("0x" ^ String.sub s (1 + 2 * i) 2)))
let tok_of_bytes l =
  let b = Buffer.create 64 in
  Buffer.add_char b 'x';
  List.iter (fun zv -> let v = int_of_z zv in
    if v < 0 || v > 255 then Buffer.add_string b "??" else Buffer.add_string b (Printf.sprintf "%02x" v)) l;
  Buffer.contents b
let zlist_of_tok s = if s = "-" then [] else List.map z_of_string (String.split_on_char ',' s)
let tok_of_zlist l = if l = [] then "-" else String.concat "," (List.map string_of_z l)
let err_name = function
  | EOverflow -> "EOverflow" | EIndex -> "EIndex" | ELaspy -> "ELaspy" | EValue -> "EValue"
  | EShort -> "EShort" | EFuel -> "EFuel" | EStop -> "EStop" | EOther -> "EOther"
let res f = function Ok a -> "ok " ^ f a | Err e -> "err " ^ err_name e


(* ---------- Las model glue ---------- *)
let explode s = List.init (String.length s) (String.get s)
let ascii_of_char c = let n = Char.code c in let b i = (n lsr i) land 1 = 1 in
  Ascii (b 0, b 1, b 2, b 3, b 4, b 5, b 6, b 7)
let char_of_ascii = function Ascii (b0, b1, b2, b3, b4, b5, b6, b7) ->
  let v b i = if b then 1 lsl i else 0 in
  Char.chr (v b0 0 + v b1 1 + v b2 2 + v b3 3 + v b4 4 + v b5 5 + v b6 6 + v b7 7)
let coq_string_of s = List.fold_right (fun c acc -> String (ascii_of_char c, acc)) (explode s) EmptyString
let rec string_of_coq = function EmptyString -> "" | String (c, r) -> Stdlib.String.make 1 (char_of_ascii c) ^ string_of_coq r
let value_of_tok t = if String.length t > 0 && t.[0] = 'x' then VBytes (bytes_of_tok t) else VInt (z_of_string t)
let tok_of_value = function VInt v -> string_of_z v | VBytes b -> tok_of_bytes b
let split_on c s = if s = "-" || s = "" then [] else String.split_on_char c s
let assoc_of_tok t =
  List.map (fun e -> match String.index_opt e '=' with
    | Some i -> (coq_string_of (String.sub e 0 i), value_of_tok (String.sub e (i + 1) (String.length e - i - 1)))
    | None -> failwith ("bad assoc entry " ^ e)) (split_on '|' t)
let tok_of_assoc a = if a = [] then "-" else
  String.concat "|" (List.map (fun (n, v) -> string_of_coq n ^ "=" ^ tok_of_value v) a)
let vlr_of_tok t = match String.split_on_char ':' t with
  | [u; r; d; p] -> { v_uid = bytes_of_tok u; v_rid = z_of_string r; v_desc = bytes_of_tok d; v_data = bytes_of_tok p }
  | _ -> failwith ("bad vlr " ^ t)
let vlrs_of_tok t = List.map vlr_of_tok (split_on '|' t)
let tok_of_vlr v = String.concat ":" [tok_of_bytes v.v_uid; string_of_z v.v_rid; tok_of_bytes v.v_desc; tok_of_bytes v.v_data]
let tok_of_vlrs l = if l = [] then "-" else String.concat "|" (List.map tok_of_vlr l)
let rec chunk n l = if l = [] then [] else
  let rec take k l acc = if k = 0 then (List.rev acc, l) else match l with [] -> (List.rev acc, []) | x :: r -> take (k - 1) r (x :: acc) in
  let (a, b) = take n l [] in a :: chunk n b
let recs_of_tok ps t = chunk ps (bytes_of_tok t)
let tok_of_recs l = tok_of_bytes (List.concat l)
(* x -> bits of (float x * scale + offset) in IEEE binary64: the one float formula of header.grow *)
let i64_of_z zv = Int64.of_string ("0u" ^ string_of_z zv)
let z_of_i64 i = z_of_string (Printf.sprintf "%Lu" i)
let ap s o x =
  let xf = float_of_string (string_of_z x) in
  z_of_i64 (Int64.bits_of_float (xf *. Int64.float_of_bits (i64_of_z s) +. Int64.float_of_bits (i64_of_z o)))
let unit_res = function Ok _ -> "ok" | Err e -> "err:" ^ err_name e

(* ---------- the format of harness/fake_lazrs, as a backend of the model ---------- *)
(* The stream holds the ABSOLUTE file offset of its chunk table: `data_pos` is where the stream starts in the file the
   current command is about (set by each command before the model runs). *)
let data_pos = ref 0
let chunk_size = ref 50
let ints l = List.map int_of_z l
let zs l = List.map z_of_int l
let le n v = List.init n (fun i -> (v lsr (8 * i)) land 255)
let le_signed64 v = if v >= 0 then le 8 v else List.init 8 (fun _ -> 255)
let rec rd l = match l with [] -> 0 | b :: r -> b + 256 * rd r
let rec take k l = if k <= 0 then [] else match l with [] -> [] | x :: r -> x :: take (k - 1) r
let rec drop k l = if k <= 0 then l else match l with [] -> [] | _ :: r -> drop (k - 1) r
let crc_table = Array.init 256 (fun n -> let c = ref n in
  for _ = 0 to 7 do c := if !c land 1 = 1 then 0xEDB88320 lxor (!c lsr 1) else !c lsr 1 done; !c)
let crc32 l = (List.fold_left (fun c b -> crc_table.((c lxor b) land 255) lxor (c lsr 8)) 0xFFFFFFFF l) lxor 0xFFFFFFFF
let xor_ks l = List.mapi (fun j b -> b lxor ((0x5B + 73 * j + (j lsr 8)) land 255)) l
let point_sizes = [| 20; 28; 26; 34; 57; 63; 30; 36; 38; 59; 67 |]
let fk_magic = [0x46; 0x4B; 0x43; 0x48] and tb_magic = [0x46; 0x4B; 0x54; 0x42]

let lzdata fmt n =
  let fmt = int_of_z fmt and n = int_of_z n in
  zs (le 2 (if fmt < 6 then 2 else 3) @ le 2 0xFA4E @ [2; 2] @ le 2 0 @ le 4 0 @ le 4 !chunk_size
      @ le_signed64 (-1) @ le_signed64 (-1) @ le 2 1 @ le 2 0 @ le 2 (point_sizes.(fmt) + n) @ le 2 fmt)
let d_isz d = rd (take 2 (drop 36 d))
let d_cs d = rd (take 4 (drop 12 d))
exception Bad of Stdlib.String.t
let check_vlr d =
  if List.length d <> 40 || rd (take 2 (drop 2 d)) <> 0xFA4E then raise (Bad "laszip record")

let rec split_chunks cs recs = if recs = [] then [] else take cs recs :: split_chunks cs (drop cs recs)
let enc_chunk isz recs =
  let plain = List.concat recs in
  fk_magic @ le 4 (List.length recs) @ le 4 isz @ xor_ks plain @ le 4 (crc32 plain)
let enc_table entries =
  let ent = List.concat (List.map (fun (n, b) -> le 8 n @ le 8 b) entries) in
  tb_magic @ le 4 0 @ le 4 (List.length entries) @ ent @ le 4 (crc32 ent)
(* the finished stream of a record sequence (records as int lists) *)
let fk_enc d recs =
  let isz = d_isz d and cs = d_cs d in
  let chunks = List.map (enc_chunk isz) (split_chunks cs recs) in
  let body = List.concat chunks in
  le 8 (!data_pos + 8 + List.length body) @ body
  @ enc_table (List.map2 (fun c r -> (List.length r, List.length c)) chunks (split_chunks cs recs))
(* parse a finished stream: records, and what follows the chunk table *)
let fk_dec d src =
  check_vlr d;
  let isz = d_isz d in
  if List.length src < 8 then raise (Bad "short");
  let toff = rd (take 8 src) - !data_pos in
  if toff < 8 || toff > List.length src then raise (Bad "table offset");
  let rec chunks l acc = (* l = bytes before the table *)
    if l = [] then List.rev acc else begin
      if take 4 l <> fk_magic then raise (Bad "chunk magic");
      let n = rd (take 4 (drop 4 l)) in
      if rd (take 4 (drop 8 l)) <> isz then raise (Bad "item size");
      let body = take (n * isz) (drop 12 l) in
      if List.length body <> n * isz then raise (Bad "chunk short");
      let plain = xor_ks body in
      if rd (take 4 (drop (12 + n * isz) l)) <> crc32 plain then raise (Bad "crc");
      chunks (drop (16 + n * isz) l) (List.rev_append (chunk isz plain) acc)
    end in
  let recs = chunks (take (toff - 8) (drop 8 src)) [] in
  let t = drop toff src in
  if take 4 t <> tb_magic then raise (Bad "table magic");
  let n = rd (take 4 (drop 8 t)) in
  (recs, drop (16 + 16 * n) t)

type cstate = { c_d : int list; c_recs : z list list }
let c_new d = { c_d = ints d; c_recs = [] }
let c_feed s recs = { s with c_recs = s.c_recs @ recs }
let c_done s = zs (fk_enc s.c_d (List.map ints s.c_recs))
let a_open _parallel d src =
  try let (recs, _) = fk_dec (ints d) (ints src) in Ok { c_d = ints d; c_recs = List.map zs recs }
  with Bad _ | Invalid_argument _ | Failure _ -> Err EOther
type dstate = { d_recs : z list list; d_at : int; d_tail : z list; d_seekable : bool }
let d_open parallel seekable d src =
  if parallel && not seekable then Err EOther else
  try let (recs, tail) = fk_dec (ints d) (ints src) in
    Ok { d_recs = List.map zs recs; d_at = 0; d_tail = zs tail; d_seekable = seekable }
  with Bad _ | Invalid_argument _ | Failure _ -> Err EOther
let d_read s n =
  let n = int_of_z n in
  if n < 0 || s.d_at + n > List.length s.d_recs then Err EOther
  else Ok ({ s with d_at = s.d_at + n }, take n (drop s.d_at s.d_recs))
let d_seek s i =
  let i = int_of_z i in
  if not s.d_seekable || i < 0 || i > List.length s.d_recs then Err EOther else Ok { s with d_at = i }
let d_rest s = if s.d_at < List.length s.d_recs then Err EOther else Ok s.d_tail

(* ---------- commands ---------- *)
let optb = function "N" -> None | "T" -> Some true | _ -> Some false
let backends_of t = if t = "-" then [] else List.map (fun c -> c = 'P') (explode t)
let out_lz lz =
  let rh = lz.lz_h in
  String.concat " " [tok_of_assoc rh.rh_fields; tok_of_vlrs rh.rh_vlrs;
    (match rh.rh_evlrs with None -> "none" | Some l -> "some:" ^ tok_of_vlrs l);
    string_of_z rh.rh_fmt; tok_of_bool rh.rh_compressed; string_of_z rh.rh_psize; tok_of_recs lz.lz_points]
let set_pos_of_file bytes =
  match dec_header bytes false with Ok rh -> data_pos := int_of_z rh.rh_offset | Err _ -> data_pos := 0
let set_pos_of_header h vl fmt =
  let d = lzd lzdata h fmt in
  match enc_header (with_stats (hc h) stats0) (writer_vlrs vl true d) false with
  | Ok (_, b) -> data_pos := List.length b
  | Err _ -> data_pos := 0
let ops_of toks = List.map (fun t ->
  let v = z_of_string (String.sub t 1 (String.length t - 1)) in
  if t.[0] = 'R' then PRead v else PSeek v) toks
let tok_of_outs outs = if outs = [] then "-" else String.concat "," (List.map (function
  | Ok r -> "o" ^ tok_of_recs r | Err e -> "e" ^ err_name e) outs)

let dispatch cmd a =
  let zi i = z_of_string a.(i) in
  let rest k = Array.to_list (Array.sub a k (Array.length a - k)) in
  match cmd with
  | "chunk" -> chunk_size := int_of_string a.(0); "ok"
  | "bits" -> String.concat " " [tok_of_bool (is_point_format_compressed (zi 0));
                string_of_z (compressed_id_to_uncompressed (zi 0)); string_of_z (uncompressed_id_to_compressed (zi 0))]
  | "decide" -> (* kind is_path is_bytes suffix(codes) dc bg *)
    let suffix = zlist_of_tok a.(3) and dc = optb a.(4) and bg = bool_of_tok a.(5) in
    let ip = bool_of_tok a.(1) and ib = bool_of_tok a.(2) in
    let v = (match a.(0) with
      | "open" -> decide_open ip ib suffix dc bg
      | "lasdata" -> decide_lasdata ip suffix dc bg
      | _ -> decide_writer dc bg) in
    tok_of_bool v ^ " " ^ tok_of_bool (rule dc ip (ext_is_laz suffix) bg) ^ " " ^ tok_of_bool (ext_is_laz suffix)
  | "vrun" -> (* init-vlrs ops...: W<T|F>:<count>:<xdata>  O  T  A<vlr> ; prints held | file after every op *)
    let s0 = vinit (vlrs_of_tok a.(0)) in
    let parse t = match t.[0] with
      | 'W' -> (match String.split_on_char ':' (String.sub t 1 (String.length t - 1)) with
                | [c; n; d] -> VWrite (c = "T", z_of_string n, bytes_of_tok d) | _ -> failwith "W")
      | 'O' -> VOpen | 'T' -> VTouch
      | _ -> VAdd (vlr_of_tok (String.sub t 1 (String.length t - 1))) in
    let (_, outs) = List.fold_left (fun (s, acc) t -> let s' = vstep s (parse t) in
        (s', acc @ [tok_of_vlrs s'.u_held ^ ";" ^ tok_of_vlrs s'.f_vlrs])) (s0, []) (rest 1) in
    if outs = [] then "-" else String.concat " " outs
  | "lzd" -> tok_of_bytes (lzd lzdata (assoc_of_tok a.(0)) (zi 1))
  | "lazfile" -> (* h vlrs fmt ps recs evlrs *)
    let h = assoc_of_tok a.(0) and vl = vlrs_of_tok a.(1) in
    set_pos_of_header h vl (zi 2);
    res tok_of_bytes (laz_file_of ap lzdata c_new c_feed c_done h vl (zi 2) (recs_of_tok (int_of_string a.(3)) a.(4)) (vlrs_of_tok a.(5)))
  | "lazsession" -> (* h vlrs fmt ps evlrs chunk... *)
    let h = assoc_of_tok a.(0) and vl = vlrs_of_tok a.(1) in
    set_pos_of_header h vl (zi 2);
    let ps = int_of_string a.(3) in
    res tok_of_bytes (lz_session ap lzdata c_new c_feed c_done h vl (zi 2) (List.map (recs_of_tok ps) (rest 5)) (vlrs_of_tok a.(4)))
  | "lazread" -> (* backends bytes *)
    let b = bytes_of_tok a.(1) in set_pos_of_file b;
    res out_lz (read_laz d_open d_read (backends_of a.(0)) b)
  | "lazread_ns" ->
    let b = bytes_of_tok a.(1) in set_pos_of_file b;
    res out_lz (read_laz_ns d_open d_read d_rest (backends_of a.(0)) b)
  | "lazappend" -> (* parallel ps bytes chunk... *)
    let b = bytes_of_tok a.(2) in set_pos_of_file b;
    let ps = int_of_string a.(1) in
    res tok_of_bytes (lz_arun ap c_feed c_done a_open (bool_of_tok a.(0)) b (List.map (recs_of_tok ps) (rest 3)))
  | "cursor" -> (* backends bytes ops... : outputs of the compressed source, of the uncompressed formula on the same points, in-range flag *)
    let b = bytes_of_tok a.(1) in set_pos_of_file b;
    (match dec_header b true with
     | Err e -> "err " ^ err_name e
     | Ok rh ->
       (match laz_source d_open (backends_of a.(0)) true rh b with
        | Err e -> "err " ^ err_name e
        | Ok s0 ->
          let ops = ops_of (rest 2) in
          let outs = snd (prun (laz_pstep d_read d_seek) s0 ops) in
          let spec = snd (prun (spec_pstep s0.d_recs) Z0 ops) in
          "ok " ^ tok_of_outs outs ^ " " ^ tok_of_outs spec ^ " "
          ^ tok_of_bool (ops_ok (z_of_int (List.length s0.d_recs)) Z0 ops)))
  | "selinfo" -> (* all(), the OR of every member, number of members, to_lazrs(all()), all layers reached? *)
    String.concat " " [string_of_z selection_all; string_of_z (or_all (List.map snd selection_members));
      string_of_int (List.length selection_members); string_of_z (sel_to_lazrs selection_all);
      tok_of_bool (List.for_all (fun l -> has (sel_to_lazrs selection_all) l) lz_layers);
      tok_of_zlist (List.map snd selection_defaults)]
  | "tolazrs" -> String.concat "," (List.map (fun t -> string_of_z (sel_to_lazrs (z_of_string t))) (Array.to_list a))
  | "mask" -> (* laspy-selection fmt ps recs : the records as a backend honouring to_lazrs(selection) hands them out *)
    let ps = int_of_string a.(2) in
    tok_of_recs (List.map (mask_record (sel_to_lazrs (zi 0)) (zi 1)) (recs_of_tok ps a.(3)))
  | "lazread_sel" | "lazread_ns_sel" -> (* selection(N = none passed) backends bytes *)
    let sel = if a.(0) = "N" then None else Some (zi 0) in
    let b = bytes_of_tok a.(2) in set_pos_of_file b;
    let r = if cmd = "lazread_sel" then read_laz d_open d_read (backends_of a.(1)) b
            else read_laz_ns d_open d_read d_rest (backends_of a.(1)) b in
    res out_lz (match r with Ok lz -> Ok (lz_select sel lz) | Err e -> Err e)
  | "forms" -> (* form(D | 1<P|S> | M<variants>) seekable bytes : what the three _create_laz_backend visit for an argument of that form,
                  and the variants the reader's loop tries on the file until one constructs *)
    let form = (let t = a.(0) in
      if t = "D" then C14Absent
      else if t.[0] = '1' then C14One (t.[1] = 'P')
      else C14Many (backends_of (if String.length t = 1 then "-" else String.sub t 1 (String.length t - 1)))) in
    let b = bytes_of_tok a.(2) in set_pos_of_file b;
    let show l = if l = [] then "-" else String.concat "" (List.map (fun p -> if p then "P" else "S") l) in
    let tried = (match dec_header b (bool_of_tok a.(1)) with
      | Err e -> "err:" ^ err_name e
      | Ok rh -> (match List.find_opt is_laszip rh.rh_vlrs with
          | None -> "nolaszip"
          | Some lz -> show (select_tried d_open (gen_reader_backends form) (bool_of_tok a.(1)) lz.v_data
                               (drop (int_of_z rh.rh_offset) b)))) in
    String.concat " " [show (gen_reader_backends form); show (gen_writer_backends form); show (gen_appender_backends form); tried;
      (match writer_variant form with None -> "-" | Some p -> if p then "P" else "S");
      tok_of_bool (form_names_a_backend form); tok_of_bool (form_names_serial form)]
  | _ -> "unknown-command " ^ cmd

let () =
  try
    while true do
      let line = input_line stdin in
      let toks = List.filter (fun s -> s <> "") (String.split_on_char ' ' line) in
      (match toks with
       | [] -> print_endline ""
       | cmd :: args ->
         (try print_endline (dispatch cmd (Array.of_list args))
          with ex -> print_endline ("driver-error " ^ Printexc.to_string ex)))
    done
  with End_of_file -> ()
