(* Line-protocol driver around the extracted round-5 models (model.ml, from coq/ExtractC06.v).
   One command per input line, one result per output line. Tokens: decimal ints (any size), T/F, x<hex> byte strings.
     cap <major> <minor> <count> <n>           -> T / F : does a file of that version holding <count> points take <n> more (takes_more)
     dimg <old> <k> <j> <op> ...               -> x<hex> : dest_image old ops k j;  op = T<size> | W<pos>:<x hex>
     grw <off> <hb> <file>                     -> ok x<hex> | err ELaspy : guarded_rewrite (the in-place header rewrite at close)
     aops <file> <ps> <tok> ...                -> ok x<hex> | err E | open : arun_ops with aclose_t; tok = T<x hex> | F<x hex> | C *)
open Model

let rec pos_of_int n = if n = 1 then XH else if n land 1 = 0 then XO (pos_of_int (n lsr 1)) else XI (pos_of_int (n lsr 1))
let z_of_int n = if n = 0 then Z0 else if n > 0 then Zpos (pos_of_int n) else Zneg (pos_of_int (-n))
let rec nat_of_int n = if n <= 0 then O else S (nat_of_int (n - 1))
let ten = z_of_int 10
let z_of_string s =
  let neg = String.length s > 0 && s.[0] = '-' in
  let acc = ref Z0 in
  String.iteri (fun i c -> if not (i = 0 && neg) then
    acc := Z.add (Z.mul !acc ten) (z_of_int (Char.code c - 48))) s;
  if neg then Z.sub Z0 !acc else !acc
let rec int_of_pos = function XH -> 1 | XO p -> 2 * int_of_pos p | XI p -> 2 * int_of_pos p + 1
let int_of_z = function Z0 -> 0 | Zpos p -> int_of_pos p | Zneg p -> - (int_of_pos p)
let tok_of_bool b = if b then "T" else "F"
let bytes_of_tok s =
  let n = (String.length s - 1) / 2 in
  List.init n (fun i -> z_of_int (int_of_string ("0x" ^ String.sub s (1 + 2 * i) 2)))
let tok_of_bytes l =
  let b = Buffer.create 64 in
  Buffer.add_char b 'x';
  List.iter (fun zv -> let v = int_of_z zv in
    if v < 0 || v > 255 then Buffer.add_string b "??" else Buffer.add_string b (Printf.sprintf "%02x" v)) l;
  Buffer.contents b

let op_of_tok t =
  if String.length t > 0 && t.[0] = 'T' then DTrunc (z_of_string (String.sub t 1 (String.length t - 1)))
  else match String.index_opt t ':' with
    | Some i -> DWrite (z_of_string (String.sub t 1 (i - 1)), bytes_of_tok (String.sub t (i + 1) (String.length t - i - 1)))
    | None -> failwith ("bad op " ^ t)

(* ---------- round 6 ---------- *)
let err_name = function
  | EOverflow -> "EOverflow" | EIndex -> "EIndex" | ELaspy -> "ELaspy" | EValue -> "EValue"
  | EShort -> "EShort" | EFuel -> "EFuel" | EStop -> "EStop" | EOther -> "EOther"
let res f = function Ok a -> "ok " ^ f a | Err e -> "err " ^ err_name e
let rec chunk n l =
  if l = [] then [] else
  let rec take k l acc = if k = 0 then (List.rev acc, l) else match l with [] -> (List.rev acc, []) | x :: r -> take (k - 1) r (x :: acc) in
  let (a, r) = take n l [] in a :: chunk n r
let recs_of_tok ps t = chunk ps (bytes_of_tok t)
let billion = z_of_int 1000000000
let rec string_of_posz zv =
  match zv with
  | Z0 -> "0"
  | _ -> let (q, r) = Z.div_eucl zv billion in
         let rs = (match r with Z0 -> 0 | Zpos p -> int_of_pos p | Zneg _ -> 0) in
         (match q with Z0 -> string_of_int rs | _ -> string_of_posz q ^ Printf.sprintf "%09d" rs)
let string_of_z = function Zneg p -> "-" ^ string_of_posz (Zpos p) | zv -> string_of_posz zv
(* x -> bits of (float x * scale + offset) in IEEE binary64: the one float formula of header.grow (same three lines as ocaml/driver.ml) *)
let i64_of_z zv = Int64.of_string ("0u" ^ string_of_z zv)
let z_of_i64 i = z_of_string (Printf.sprintf "%Lu" i)
let ap s o x =
  let xf = float_of_string (string_of_z x) in
  z_of_i64 (Int64.bits_of_float (xf *. Int64.float_of_bits (i64_of_z s) +. Int64.float_of_bits (i64_of_z o)))

let aop_of_tok ps t =
  if t = "C" then AoClose
  else AoPoints (recs_of_tok ps (String.sub t 1 (String.length t - 1)), t.[0] = 'T')

let handle line =
  match String.split_on_char ' ' line with
  | ["grw"; off; hb; f] -> res tok_of_bytes (guarded_rewrite (z_of_string off) (bytes_of_tok hb) (bytes_of_tok f))
  | "aops" :: file :: ps :: toks ->
      (match aopen_f (bytes_of_tok file) with
       | Err e -> "open-err:" ^ err_name e
       | Ok s0 ->
         let ps = int_of_string ps in
         (match snd (arun_ops ap aclose_t s0 (List.map (aop_of_tok ps) (List.filter (fun s -> s <> "") toks))) with
          | None -> "open"
          | Some r -> res tok_of_bytes r))
  | ["cap"; maj; mnr; c; n] -> tok_of_bool (takes_more (z_of_string maj) (z_of_string mnr) (z_of_string c) (z_of_string n))
  | "dimg" :: old :: k :: j :: ops ->
      tok_of_bytes (dest_image (bytes_of_tok old) (List.map op_of_tok (List.filter (fun s -> s <> "") ops))
                      (nat_of_int (int_of_string k)) (nat_of_int (int_of_string j)))
  | _ -> "bad command"

let () =
  try
    while true do
      let line = input_line stdin in
      print_string (try handle line with ex -> "exception " ^ Printexc.to_string ex);
      print_newline ()
    done
  with End_of_file -> ()
