(* Line-protocol driver around the extracted aliasing models (ocaml/c04/model.ml, from Model/WriterAlias.v and Model/DataAlias.v).
   One command per input line, one result per output line. Tokens as in ocaml/driver.ml (the helper functions are copied from there).

   sess <plain|with> <assoc> <vlrs> <hfmt> <fmts> <op> <op> ...
        the caller's world at the moment the writer is opened: header fields, VLR list, address of the header's format object,
        the format objects  fmts = <id>:<size>:x<hex>|...
        op = S<name>=<value>            h.<field> = value (in place or re-bound: the field list now says value)
           | V<vlrs>                    the header's VLR list now holds <vlrs>
           | F<a>:<id>:<size>:x<hex>    the format object at address a now has this value (extended / shrunk in place)
           | B<a>                       h.point_format = the object at address a
           | P<a>:x<hex>                write_points(records built on the format object at address a)
           | E<vlrs> | C | R            write_evlrs, close, the caller's own code raises
        plain: every exception is caught, the session goes on; with: the first refused call / R leaves the block, __exit__ closes;
        withc: a with-block inside which every exception is caught (plain, then the close of __exit__, its outcome not listed)
     -> <outcomes> <file> <assoc> <vlrs> <hfmt> <fmts>      (the caller's world after the session)   | open-err:<E>

   dworld <assoc> <vlrs> <evlrs> <id>:<size>:x<hex> x<records> <op> <op> ...
        one LasData (header fields, VLRs, EVLRs, point format value, records), then a history over the objects las0, las1, ...
        op = X<i>:<k,k,..|->            las_i[indices]  -> a new object
           | K<i>                       a deep copy of las_i (convert / read back) -> a new object
           | D<i>!<assoc|->!<vlrs|~>!<evlrs|~>!<format|~>!<x records|~>     one in-place operation on las_i: fields set, lists /
                                        format value / records it leaves (~ = untouched)
           | W<i>                       las_i.write()
           | N<assoc>!<vlrs>!<evlrs>!<format>!<x records>      round 7: a LasData made from nothing that is live (laspy.create(), LasData(LasHeader()), laspy.read)
     -> one token per W: ok:x<file> | err:<E>      (- when there is none)

   fsess <assoc> <vlrs> <format id> <record size> <op> <op> ...
        round 6 (Model/WriterFault.v): a writer session with scale-aware chunks and faults
        op = P<T|F>x<hex>                         write_points(plain records; T = the writer's point format)
           | S<b0,..,b5>:x<raw>:x<re-expressed>   write_points(ScaleAwarePointRecord whose scales+offsets have these bit patterns)
           | Q<T|F>x<hex> | Q<b0,..,b5>:x<raw>:x<re-expressed>    the same chunk, REFUSED by the destination with nothing stored
           | E<vlrs> | X<k>:<vlrs> | C | Z        write_evlrs; write_evlrs failing once k bytes of the section are stored; close;
                                                  close whose header rewrite the destination refuses
     -> <outcomes> <file>      | open-err:<E>

   vsess <record size> <x records> <op> <op> ...
        round 6 (Model/RecView.v): one cloud obj0, then selections / edits / writes over the objects obj0, obj1, ...
        op = V<i>:<k,k,..|->     obj_i[slice] (positions k of obj_i): a view, the next object
           | K<i>:<k,k,..|->     obj_i[mask / index list]: a copy, the next object
           | E<i>:<off>:x<values>:<width>    the field of <width> bytes at byte offset <off> of the k-th record of obj_i := k-th value
           | W<i>                obj_i is written
     -> <x bytes of every W, joined by ,|-> <x records presented by every object at the end, joined by ,>

   pair <gh> <hex edims|-> <others vlrs|-> <T|F> <gr> <rex edims|-> <record size> <x records>
        round 5 (Model/Pairing.v on Model/ExtraDims.v): a header of point format gh whose PointFormat carries the extra dimensions
        hex, built with the other VLRs `others` and the extra-bytes VLR after (T) or before (F) them, paired with a record of
        format (gr, rex) whose memory is <x records>; written and read back.
        edim = <xname>~s<id>|o<n>~-|<s0,s1,..>/<o0,o1,..>~<xdesc>   joined by +   (the syntax of the C13 driver)
     -> refused by-name=<T|F>
      | err:<E>
      | ok <vlrs as written> <edims read back> <x record bytes read back> <xname>:<x values>,...|-   *)
open Model

let rec pos_of_int n = if n = 1 then XH else if n land 1 = 0 then XO (pos_of_int (n lsr 1)) else XI (pos_of_int (n lsr 1))
let z_of_int n = if n = 0 then Z0 else if n > 0 then Zpos (pos_of_int n) else Zneg (pos_of_int (-n))
let rec nat_of_int n = if n <= 0 then O else S (nat_of_int (n - 1))
let rec int_of_nat = function O -> 0 | S k -> 1 + int_of_nat k
let ten = z_of_int 10
let z_of_string s =
  let neg = String.length s > 0 && s.[0] = '-' in
  let acc = ref Z0 in
  String.iteri (fun i c -> if not (i = 0 && neg) then
    acc := Z.add (Z.mul !acc ten) (z_of_int (Char.code c - 48))) s;
  if neg then Z.sub Z0 !acc else !acc
let rec pos_bits = function XH -> 1 | XO p | XI p -> 1 + pos_bits p
let rec int_of_pos = function XH -> 1 | XO p -> 2 * int_of_pos p | XI p -> 2 * int_of_pos p + 1
let billion = z_of_int 1000000000
let rec string_of_posz zv = (* zv >= 0 *)
  match zv with
  | Z0 -> "0"
  | Zpos p when pos_bits p < 62 -> string_of_int (int_of_pos p)
  | _ -> let (q, r) = Z.div_eucl zv billion in
         let rs = (match r with Z0 -> 0 | Zpos p -> int_of_pos p | Zneg _ -> 0) in
         string_of_posz q ^ Printf.sprintf "%09d" rs
let string_of_z = function
  | Zneg p -> "-" ^ string_of_posz (Zpos p)
  | zv -> string_of_posz zv
let int_of_z = function Z0 -> 0 | Zpos p -> int_of_pos p | Zneg p -> - (int_of_pos p)
let bool_of_tok s = (s = "T")
let tok_of_bool b = if b then "T" else "F"
let bytes_of_tok s =
  let n = (String.length s - 1) / 2 in
  List.init n (fun i -> z_of_int (int_of_string ("0x" ^ String.sub s (1 + 2 * i) 2)))
let tok_of_bytes l =
  let b = Buffer.create 64 in
  Buffer.add_char b 'x';
  List.iter (fun zv -> let v = int_of_z zv in
    if v < 0 || v > 255 then Buffer.add_string b "??" else Buffer.add_string b (Printf.sprintf "%02x" v)) l;
  Buffer.contents b
let zlist_of_tok s = if s = "-" then [] else List.map z_of_string (String.split_on_char ',' s)
let tok_of_zlist l = if l = [] then "-" else String.concat "," (List.map string_of_z l)
let err_name = function
  | EOverflow -> "EOverflow" | EIndex -> "EIndex" | ELaspy -> "ELaspy" | EValue -> "EValue"
  | EShort -> "EShort" | EFuel -> "EFuel" | EStop -> "EStop" | EOther -> "EOther"
let res f = function Ok a -> "ok " ^ f a | Err e -> "err " ^ err_name e


(* ---------- Las model glue ---------- *)
let explode s = List.init (String.length s) (String.get s)
let ascii_of_char c = let n = Char.code c in let b i = (n lsr i) land 1 = 1 in
  Ascii (b 0, b 1, b 2, b 3, b 4, b 5, b 6, b 7)
let char_of_ascii = function Ascii (b0, b1, b2, b3, b4, b5, b6, b7) ->
  let v b i = if b then 1 lsl i else 0 in
  Char.chr (v b0 0 + v b1 1 + v b2 2 + v b3 3 + v b4 4 + v b5 5 + v b6 6 + v b7 7)
let coq_string_of s = List.fold_right (fun c acc -> String (ascii_of_char c, acc)) (explode s) EmptyString
let rec string_of_coq = function EmptyString -> "" | String (c, r) -> Stdlib.String.make 1 (char_of_ascii c) ^ string_of_coq r
let value_of_tok t = if String.length t > 0 && t.[0] = 'x' then VBytes (bytes_of_tok t) else VInt (z_of_string t)
let tok_of_value = function VInt v -> string_of_z v | VBytes b -> tok_of_bytes b
let split_on c s = if s = "-" || s = "" then [] else String.split_on_char c s
let assoc_of_tok t =
  List.map (fun e -> match String.index_opt e '=' with
    | Some i -> (coq_string_of (String.sub e 0 i), value_of_tok (String.sub e (i + 1) (String.length e - i - 1)))
    | None -> failwith ("bad assoc entry " ^ e)) (split_on '|' t)
let tok_of_assoc a = if a = [] then "-" else
  String.concat "|" (List.map (fun (n, v) -> string_of_coq n ^ "=" ^ tok_of_value v) a)
let vlr_of_tok t = match String.split_on_char ':' t with
  | [u; r; d; p] -> { v_uid = bytes_of_tok u; v_rid = z_of_string r; v_desc = bytes_of_tok d; v_data = bytes_of_tok p }
  | _ -> failwith ("bad vlr " ^ t)
let vlrs_of_tok t = List.map vlr_of_tok (split_on '|' t)
let tok_of_vlr v = String.concat ":" [tok_of_bytes v.v_uid; string_of_z v.v_rid; tok_of_bytes v.v_desc; tok_of_bytes v.v_data]
let tok_of_vlrs l = if l = [] then "-" else String.concat "|" (List.map tok_of_vlr l)
let rec chunk n l = if l = [] then [] else
  let rec take k l acc = if k = 0 then (List.rev acc, l) else match l with [] -> (List.rev acc, []) | x :: r -> take (k - 1) r (x :: acc) in
  let (a, b) = take n l [] in a :: chunk n b
let recs_of_tok ps t = chunk ps (bytes_of_tok t)
let tok_of_recs l = tok_of_bytes (List.concat l)
(* x -> bits of (float x * scale + offset) in IEEE binary64: the one float formula of header.grow *)
let i64_of_z zv = Int64.of_string ("0u" ^ string_of_z zv)
let z_of_i64 i = z_of_string (Printf.sprintf "%Lu" i)
let ap s o x =
  let xf = float_of_string (string_of_z x) in
  z_of_i64 (Int64.bits_of_float (xf *. Int64.float_of_bits (i64_of_z s) +. Int64.float_of_bits (i64_of_z o)))
let unit_res = function Ok _ -> "ok" | Err e -> "err:" ^ err_name e


let fdesc_of_tok t = match String.split_on_char ':' t with
  | [i; s; x] -> { fd_id = z_of_string i; fd_size = z_of_string s; fd_extra = bytes_of_tok x }
  | _ -> failwith ("bad format " ^ t)
let tok_of_fdesc d = String.concat ":" [string_of_z d.fd_id; string_of_z d.fd_size; tok_of_bytes d.fd_extra]
let rest t = String.sub t 1 (String.length t - 1)
let rec nth_opt l n = match l, n with [], _ -> None | x :: _, 0 -> Some x | _ :: r, n -> nth_opt r (n - 1)

(* ---------- Pairing glue (edim syntax copied from ocaml/c13/driver.ml) ---------- *)
let etype_of_tok t =
  let v = z_of_string (String.sub t 1 (String.length t - 1)) in
  if t.[0] = 's' then TStd v else TOpaque v
let tok_of_etype = function TStd i -> "s" ^ string_of_z i | TOpaque n -> "o" ^ string_of_z n
let scale_of_tok t = if t = "-" then None else
  match String.split_on_char '/' t with
  | [s; o] -> Some (zlist_of_tok s, zlist_of_tok o)
  | _ -> failwith ("bad scale " ^ t)
let tok_of_scale = function None -> "-" | Some (s, o) -> tok_of_zlist s ^ "/" ^ tok_of_zlist o
let edim_of_tok t = match String.split_on_char '~' t with
  | [n; ty; sc; d] -> { ed_name = bytes_of_tok n; ed_type = etype_of_tok ty; ed_scale = scale_of_tok sc; ed_desc = bytes_of_tok d }
  | _ -> failwith ("bad edim " ^ t)
let tok_of_edim d = String.concat "~" [tok_of_bytes d.ed_name; tok_of_etype d.ed_type; tok_of_scale d.ed_scale; tok_of_bytes d.ed_desc]
let tok_of_edims l = if l = [] then "-" else String.concat "+" (List.map tok_of_edim l)
let edims_of_tok t = List.map edim_of_tok (split_on '+' t)

let dispatch cmd a =
  let zi i = z_of_string a.(i) in
  match cmd with
  | "sess" ->
    let fmts = List.map fdesc_of_tok (split_on '|' a.(4)) in
    let hf = int_of_string a.(3) in
    let c = { cw_h = assoc_of_tok a.(1); cw_vlrs = vlrs_of_tok a.(2); cw_hfmt = nat_of_int hf; cw_fmts = fmts } in
    let ps = (match nth_opt fmts hf with Some d -> int_of_z d.fd_size | None -> 1) in
    let parse t =
      let b = rest t in
      match t.[0] with
      | 'S' -> (match assoc_of_tok b with [(n, v)] -> SEdit (CSet (n, v)) | _ -> failwith ("bad S " ^ t))
      | 'V' -> SEdit (CVlrs (vlrs_of_tok b))
      | 'F' -> (match String.index_opt b ':' with
                | Some i -> SEdit (CFmt (nat_of_int (int_of_string (String.sub b 0 i)), fdesc_of_tok (String.sub b (i + 1) (String.length b - i - 1))))
                | None -> failwith ("bad F " ^ t))
      | 'B' -> SEdit (CRebind (nat_of_int (int_of_string b)))
      | 'P' -> (match String.index_opt b ':' with
                | Some i -> SChunk (recs_of_tok (max ps 1) (String.sub b (i + 1) (String.length b - i - 1)), nat_of_int (int_of_string (String.sub b 0 i)))
                | None -> failwith ("bad P " ^ t))
      | 'E' -> SEvlrs (vlrs_of_tok b)
      | 'C' -> SClose
      | 'R' -> SRaise
      | _ -> failwith ("bad op " ^ t) in
    (match sopen c with
     | Err e -> "open-err:" ^ err_name e
     | Ok st0 ->
       let ops = List.map parse (Array.to_list (Array.sub a 5 (Array.length a - 5))) in
       let (st, outs) =
         if a.(0) = "with" then (let ((st, os), _) = with_run ap st0 ops in (st, os))
         else if a.(0) = "withc" then (let (st1, os) = plain_run ap st0 ops in let ((st, _), _) = with_run ap st1 [] in (st, os))
         else plain_run ap st0 ops in
       let w = st.ss_c in
       String.concat " " [(if outs = [] then "-" else String.concat "," (List.map unit_res outs)); tok_of_bytes st.ss_w.w_file;
                          tok_of_assoc w.cw_h; tok_of_vlrs w.cw_vlrs; string_of_int (int_of_nat w.cw_hfmt);
                          (if w.cw_fmts = [] then "-" else String.concat "|" (List.map tok_of_fdesc w.cw_fmts))])
  | "dworld" ->
    let d0 = fdesc_of_tok a.(3) in
    let w0 = world_of (assoc_of_tok a.(0)) (vlrs_of_tok a.(1)) (vlrs_of_tok a.(2)) d0 (recs_of_tok (max 1 (int_of_z d0.fd_size)) a.(4)) in
    let opt f t = if t = "~" then None else Some (f t) in
    let step (w, outs) t =
      let b = rest t in
      let idx s = nat_of_int (int_of_string s) in
      match t.[0] with
      | 'X' -> (match String.index_opt b ':' with
                | Some i -> let sel = String.sub b (i + 1) (String.length b - i - 1) in
                  let l = if sel = "-" then [] else List.map idx (String.split_on_char ',' sel) in
                  (fst (dstep ap w (DSelect (idx (String.sub b 0 i), l))), outs)
                | None -> failwith ("bad X " ^ t))
      | 'K' -> (fst (dstep ap w (DCopy (idx b))), outs)
      | 'W' -> (match snd (dstep ap w (DWrite (idx b))) with
                | Some (Ok f) -> (w, outs @ ["ok:" ^ tok_of_bytes f])
                | Some (Err e) -> (w, outs @ ["err:" ^ err_name e])
                | None -> (w, outs @ ["none"]))
      | 'D' -> (match String.split_on_char '!' b with
                | [i; sets; vl; evl; fd; recs] ->
                  let i = idx i in
                  let fdo = opt fdesc_of_tok fd in
                  let ps = (match fdo with
                            | Some d -> int_of_z d.fd_size
                            | None -> (match view w i with Some v -> int_of_z v.dv_fmt.fd_size | None -> 1)) in
                  let e = { de_sets = assoc_of_tok sets; de_vlrs = opt vlrs_of_tok vl; de_evlrs = opt vlrs_of_tok evl;
                            de_fmt = fdo; de_recs = opt (recs_of_tok (max 1 ps)) recs } in
                  (fst (dstep ap w (DEdit (i, e))), outs)
                | _ -> failwith ("bad D " ^ t))
      | 'N' -> (match String.split_on_char '!' b with
                | [f; vl; evl; fd; recs] ->
                  let d = fdesc_of_tok fd in
                  (fst (dstep ap w (DCreate (assoc_of_tok f, vlrs_of_tok vl, vlrs_of_tok evl, d,
                                             recs_of_tok (max 1 (int_of_z d.fd_size)) recs))), outs)
                | _ -> failwith ("bad N " ^ t))
      | _ -> failwith ("bad op " ^ t) in
    let (_, outs) = List.fold_left step (w0, []) (Array.to_list (Array.sub a 5 (Array.length a - 5))) in
    if outs = [] then "-" else String.concat " " outs
  | "fsess" ->
    (match wopen (assoc_of_tok a.(0)) (vlrs_of_tok a.(1)) (zi 2) with
     | Err e -> "open-err:" ^ err_name e
     | Ok s0 ->
       let ps = int_of_string a.(3) in
       let scaled b =
         (match String.split_on_char ':' b with
          | [cs; raw; resc] -> { sa_scaling = zlist_of_tok cs; sa_raw = recs_of_tok ps raw; sa_resc = recs_of_tok ps resc }
          | _ -> failwith ("bad scaled chunk " ^ b)) in
       let parse t =
         let b = rest t in
         match t.[0] with
         | 'P' -> FOp (WPoints (recs_of_tok ps (rest b), b.[0] = 'T'))
         | 'S' -> FScaled (scaled b, true)
         | 'Q' -> if b.[0] = 'T' || b.[0] = 'F' then FPointsFault (recs_of_tok ps (rest b), b.[0] = 'T')
                  else (let c = scaled b in
                        (* what the destination is offered is what write_points would store: decided against the header at open *)
                        FPointsFault (express s0.w_h c, true))
         | 'E' -> FOp (WEvlrs (vlrs_of_tok b))
         | 'X' -> (match String.index_opt b ':' with
                   | Some i -> FEvlrsFault (vlrs_of_tok (String.sub b (i + 1) (String.length b - i - 1)), z_of_string (String.sub b 0 i))
                   | None -> failwith ("bad X " ^ t))
         | 'C' -> FOp WClose
         | 'Z' -> FCloseFault
         | _ -> failwith ("bad op " ^ t) in
       let ops = List.map parse (Array.to_list (Array.sub a 4 (Array.length a - 4))) in
       let (s, outs) = frun ap s0 ops in
       String.concat "," (List.map unit_res outs) ^ " " ^ tok_of_bytes s.w_file)
  | "vsess" ->
    let ps = max 1 (int_of_string a.(0)) in
    let w0 = vworld_of (recs_of_tok ps a.(1)) in
    let idx s = nat_of_int (int_of_string s) in
    let sel t = if t = "-" then [] else List.map idx (String.split_on_char ',' t) in
    let parse t =
      let b = rest t in
      match t.[0], String.split_on_char ':' b with
      | 'V', [i; l] -> VView (idx i, sel l)
      | 'K', [i; l] -> VCopy (idx i, sel l)
      | 'E', [i; off; vals; width] -> VEdit (idx i, idx off, chunk (max 1 (int_of_string width)) (bytes_of_tok vals))
      | 'W', [i] -> VWrite (idx i)
      | _ -> failwith ("bad op " ^ t) in
    let ops = List.map parse (Array.to_list (Array.sub a 2 (Array.length a - 2))) in
    let (w, outs) = vrun w0 ops in
    let finals = List.mapi (fun j _ -> tok_of_recs (records_at w (nat_of_int j))) w.vw_objs in
    (if outs = [] then "-" else String.concat "," (List.map tok_of_bytes outs)) ^ " " ^ String.concat "," finals
  | "pair" ->
    let gh = zi 0 and hex = edims_of_tok a.(1) and others = vlrs_of_tok a.(2) and eb_last = bool_of_tok a.(3) in
    let gr = zi 4 and rex = edims_of_tok a.(5) in
    let size = int_of_string a.(6) in
    let recs = if size <= 0 then [] else chunk size (bytes_of_tok a.(7)) in
    if not (gate gh hex gr rex) then "refused by-name=" ^ tok_of_bool (gate_by_name gh hex gr rex)
    else (match pair_up gh hex others eb_last gr rex recs with
      | Err e -> "err:" ^ err_name e
      | Ok s ->
        (match write_state s with
         | Err e -> "err:" ^ err_name e
         | Ok w ->
           (match read_state w with
            | Err e -> "err:" ^ err_name e
            | Ok st ->
              let fields = List.map (fun d ->
                  let vals = List.concat_map (fun r -> match field_of d.ed_name r with Some b -> b | None -> []) st.st_recs in
                  tok_of_bytes d.ed_name ^ ":" ^ tok_of_bytes vals) st.st_extras in
              String.concat " " ["ok"; tok_of_vlrs w.w_vlrs0; tok_of_edims st.st_extras;
                                 tok_of_bytes (List.concat_map rec_bytes st.st_recs);
                                 (if fields = [] then "-" else String.concat "," fields)])))
  | _ -> "unknown-command " ^ cmd

let () =
  try
    while true do
      let line = input_line stdin in
      let toks = List.filter (fun s -> s <> "") (String.split_on_char ' ' line) in
      (match toks with
       | [] -> print_endline ""
       | cmd :: args ->
         (try print_endline (dispatch cmd (Array.of_list args))
          with ex -> print_endline ("driver-error " ^ Printexc.to_string ex)))
    done
  with End_of_file -> ()
