(* Line-protocol driver around the extracted C20 model (ocaml/c20/model.ml: Gen/GenGlobalEncoding.v through Model/GlobalEnc.v and
   Model/GlobalEncPy.v). One command per input line, one result per output line.
     ge_set  <flag 0..4> <value> T|F            -> new field value
     ge_get  <flag> <value>                     -> T|F
     ge_run  <value> <flag><T|F>,...            -> final field value
     ge_setp <flag> <value> <kind> <int>        -> <new field value> <T|F: the kind can hold the integer and it is a legal target of the flag> <T|F truth value>
     ge_runp <value> <flag>:<kind>:<int>,...    -> final field value
   kind = b (Python bool) | i (Python int) | g (GpsTimeType member) | nb (numpy.bool_) | s<bytes> / u<bytes> (numpy intN / uintN) | a<kind> (0-d array) *)
open Model

let rec pos_of_int n = if n = 1 then XH else if n land 1 = 0 then XO (pos_of_int (n lsr 1)) else XI (pos_of_int (n lsr 1))
let z_of_int n = if n = 0 then Z0 else if n > 0 then Zpos (pos_of_int n) else Zneg (pos_of_int (-n))
let rec nat_of_int n = if n <= 0 then O else S (nat_of_int (n - 1))
let rec int_of_nat = function O -> 0 | S k -> 1 + int_of_nat k
let ten = z_of_int 10
let z_of_string s =
  let neg = String.length s > 0 && s.[0] = '-' in
  let acc = ref Z0 in
  String.iteri (fun i c -> if not (i = 0 && neg) then
    acc := Z.add (Z.mul !acc ten) (z_of_int (Char.code c - 48))) s;
  if neg then Z.sub Z0 !acc else !acc
let rec pos_bits = function XH -> 1 | XO p | XI p -> 1 + pos_bits p
let rec int_of_pos = function XH -> 1 | XO p -> 2 * int_of_pos p | XI p -> 2 * int_of_pos p + 1
let billion = z_of_int 1000000000
let rec string_of_posz zv = (* zv >= 0 *)
  match zv with
  | Z0 -> "0"
  | Zpos p when pos_bits p < 62 -> string_of_int (int_of_pos p)
  | _ -> let (q, r) = Z.div_eucl zv billion in
         let rs = (match r with Z0 -> 0 | Zpos p -> int_of_pos p | Zneg _ -> 0) in
         string_of_posz q ^ Printf.sprintf "%09d" rs
let string_of_z = function
  | Zneg p -> "-" ^ string_of_posz (Zpos p)
  | zv -> string_of_posz zv
let int_of_z = function Z0 -> 0 | Zpos p -> int_of_pos p | Zneg p -> - (int_of_pos p)
let bool_of_tok s = (s = "T")
let tok_of_bool b = if b then "T" else "F"
let bytes_of_tok s =
  let n = (String.length s - 1) / 2 in
  List.init n (fun i -> z_of_int (int_of_string ("0x" ^ String.sub s (1 + 2 * i) 2)))
let tok_of_bytes l =
  let b = Buffer.create 64 in
  Buffer.add_char b 'x';
  List.iter (fun zv -> let v = int_of_z zv in
    if v < 0 || v > 255 then Buffer.add_string b "??" else Buffer.add_string b (Printf.sprintf "%02x" v)) l;
  Buffer.contents b
let zlist_of_tok s = if s = "-" then [] else List.map z_of_string (String.split_on_char ',' s)
let tok_of_zlist l = if l = [] then "-" else String.concat "," (List.map string_of_z l)


let rec kind_of_tok t =
  if t = "b" then KPyBool else if t = "i" then KPyInt else if t = "g" then KGpsEnum else if t = "nb" then KNpBool
  else match t.[0] with
    | 'a' -> KNp0d (kind_of_tok (String.sub t 1 (String.length t - 1)))
    | 's' -> KNpInt (true, z_of_string (String.sub t 1 (String.length t - 1)))
    | 'u' -> KNpInt (false, z_of_string (String.sub t 1 (String.length t - 1)))
    | _ -> failwith ("kind " ^ t)

let dispatch cmd a =
  let zi i = z_of_string a.(i) in
  match cmd with
  | "ge_set" -> string_of_z (ge_set (nat_of_int (int_of_string a.(0))) (zi 1) (bool_of_tok a.(2)))
  | "ge_get" -> tok_of_bool (ge_get (nat_of_int (int_of_string a.(0))) (zi 1))
  | "ge_run" ->
    let ops = if Array.length a < 2 || a.(1) = "-" then [] else
      List.map (fun t -> (nat_of_int (Char.code t.[0] - 48), t.[1] = 'T')) (String.split_on_char ',' a.(1)) in
    string_of_z (ge_run (zi 0) ops)
  | "ge_setp" ->
    let i = nat_of_int (int_of_string a.(0)) in
    let x = { pv_kind = kind_of_tok a.(2); pv_int = zi 3 } in
    string_of_z (ge_set_py i (zi 1) x) ^ " " ^ tok_of_bool (target_ok i x) ^ " " ^ tok_of_bool (truthy x)
  | "ge_runp" ->
    let ops = if Array.length a < 2 || a.(1) = "-" then [] else
      List.map (fun t -> match String.split_on_char ':' t with
        | [i; k; z] -> (nat_of_int (int_of_string i), { pv_kind = kind_of_tok k; pv_int = z_of_string z })
        | _ -> failwith "op") (String.split_on_char ',' a.(1)) in
    string_of_z (ge_run_py (zi 0) ops)
  | _ -> "unknown-command " ^ cmd

let () =
  try
    while true do
      let line = input_line stdin in
      let toks = List.filter (fun s -> s <> "") (String.split_on_char ' ' line) in
      (match toks with
       | [] -> print_endline ""
       | cmd :: args ->
         (try print_endline (dispatch cmd (Array.of_list args))
          with ex -> print_endline ("driver-error " ^ Printexc.to_string ex)))
    done
  with End_of_file -> ()
