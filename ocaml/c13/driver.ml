(* Line-protocol driver around the extracted C13 model (ocaml/c13/model.ml).
   One command per input line, one result per output line. Tokens: decimal ints (any size),
   x<hex> byte strings (x alone = empty), - = empty list.

   hist <fmt> <stdsize> <x std bytes of all records> <vlrs> <op>;<op>;...
        op   = A!<edim>+<edim>...            add_extra_dims
             | R!<xname>,<xname>... | R!-     remove_extra_dims
             | S!<xname>!<size>!<x values>    raw values of one extra dimension (size bytes per record)
             | T!<size>!<x blocks>            raw standard bytes of every record
             | P!<edims or ->!<size>!<x bytes> las.points = a record whose own format has these extra dimensions (size bytes per point)
             | W                              write / read round trip
        edim = <xname>~s<id>|o<n>~-|<s0,s1,..>/<o0,o1,..>~<xdesc>
        vlrs = <xuid>:<rid>:<xdesc>:<xdata>|...   or -
     -> fresh=T|F <step>;<step>...   step = ok|err:E @ <edims or -> @ <x all record bytes> @ <xname>:<x values>,... @ <vlrs>
   hist2 <fmt> <init edims or -> <recsize> <x all bytes of all records> <vlrs> <T|F: extra-bytes VLR after the others> <op>;...
        a LasData made from a PointFormat that already carries the init dimensions (init_ex); further ops
             | C!<g>!<size>!<x standard blocks>   laspy.convert to point format g (the standard blocks of the result)
             | U!<k> | U!-                    re-read of a file whose extra-bytes VLR keeps its first k descriptors / is absent
     -> fresh=T|F <step0>;<step>;...   step0 = the initial state (ok@...) or err:E
   hist3 <same arguments as hist2>   a history in a world of several live LasData; further ops
             | N:<op>                         the op (W, C!.., U!..) RETURNS a LasData: the history goes on with it, the old one stays alive
             | F!<T|F>!<i,j,..|->             sel = las[[i, j, ..]] (numpy rule for negative entries); go on with sel (T) or with las (F)
             | K                              another LasData with the same content
     -> fresh=T|F <step0>;<step>;... <other live objects, in order of appearance, joined by # ; or ->
   hist5 <same arguments as hist3> [<initial header point count>]   a history of the CALLER (cworld); further ops
             | V!<T|F>!<vlrs or ->            the VLR list of the current LasData becomes this list: through the vlrs setter (T: it
                                              synchronises) or in place (F)
             | H!<n>                          header.point_count = n
             | G!<i,j,..|->!<n|->             LasData(header', points[[i, j, ..]]) without update_header; the header counts n points
                                              (- : it keeps the count it has); the history goes on with it
             | Y!<edim>                       the caller makes a params object
             | Z!<k>!<edim>                   the caller changes its k-th params object
             | Q!<k,l,..>                     add_extra_dims of the caller's params objects k, l, ..
             several tokens joined by & make ONE step (the state after the last one is printed; the outcome is the first error)
     -> fresh=T|F <step0>;<step>;... <other live objects>   step = ok|err:E @ <state> @ <header point count>
   eb_enc <edim>          -> ok x<192 bytes> | err E
   eb_dec <x bytes>       -> ok <edim> | err E *)
open Model

let rec pos_of_int n = if n = 1 then XH else if n land 1 = 0 then XO (pos_of_int (n lsr 1)) else XI (pos_of_int (n lsr 1))
let z_of_int n = if n = 0 then Z0 else if n > 0 then Zpos (pos_of_int n) else Zneg (pos_of_int (-n))
let rec nat_of_int n = if n <= 0 then O else S (nat_of_int (n - 1))
let rec int_of_nat = function O -> 0 | S k -> 1 + int_of_nat k
let ten = z_of_int 10
let z_of_string s =
  let neg = String.length s > 0 && s.[0] = '-' in
  let acc = ref Z0 in
  String.iteri (fun i c -> if not (i = 0 && neg) then
    acc := Z.add (Z.mul !acc ten) (z_of_int (Char.code c - 48))) s;
  if neg then Z.sub Z0 !acc else !acc
let rec pos_bits = function XH -> 1 | XO p | XI p -> 1 + pos_bits p
let rec int_of_pos = function XH -> 1 | XO p -> 2 * int_of_pos p | XI p -> 2 * int_of_pos p + 1
let billion = z_of_int 1000000000
let rec string_of_posz zv = (* zv >= 0 *)
  match zv with
  | Z0 -> "0"
  | Zpos p when pos_bits p < 62 -> string_of_int (int_of_pos p)
  | _ -> let (q, r) = Z.div_eucl zv billion in
         let rs = (match r with Z0 -> 0 | Zpos p -> int_of_pos p | Zneg _ -> 0) in
         string_of_posz q ^ Printf.sprintf "%09d" rs
let string_of_z = function
  | Zneg p -> "-" ^ string_of_posz (Zpos p)
  | zv -> string_of_posz zv
let int_of_z = function Z0 -> 0 | Zpos p -> int_of_pos p | Zneg p -> - (int_of_pos p)
let bytes_of_tok s =
  let n = (String.length s - 1) / 2 in
  List.init n (fun i -> z_of_int (int_of_string ("0x" ^ String.sub s (1 + 2 * i) 2)))
let tok_of_bytes l =
  let b = Buffer.create 64 in
  Buffer.add_char b 'x';
  List.iter (fun zv -> let v = int_of_z zv in
    if v < 0 || v > 255 then Buffer.add_string b "??" else Buffer.add_string b (Printf.sprintf "%02x" v)) l;
  Buffer.contents b
let zlist_of_tok s = if s = "-" then [] else List.map z_of_string (String.split_on_char ',' s)
let tok_of_zlist l = if l = [] then "-" else String.concat "," (List.map string_of_z l)
let err_name = function
  | EOverflow -> "EOverflow" | EIndex -> "EIndex" | ELaspy -> "ELaspy" | EValue -> "EValue"
  | EShort -> "EShort" | EFuel -> "EFuel" | EStop -> "EStop" | EOther -> "EOther"
let res f = function Ok a -> "ok " ^ f a | Err e -> "err " ^ err_name e

let split_on c s = if s = "-" || s = "" then [] else String.split_on_char c s
let vlr_of_tok t = match String.split_on_char ':' t with
  | [u; r; d; p] -> { v_uid = bytes_of_tok u; v_rid = z_of_string r; v_desc = bytes_of_tok d; v_data = bytes_of_tok p }
  | _ -> failwith ("bad vlr " ^ t)
let vlrs_of_tok t = List.map vlr_of_tok (split_on '|' t)
let tok_of_vlr v = String.concat ":" [tok_of_bytes v.v_uid; string_of_z v.v_rid; tok_of_bytes v.v_desc; tok_of_bytes v.v_data]
let tok_of_vlrs l = if l = [] then "-" else String.concat "|" (List.map tok_of_vlr l)
let rec chunk n l = if l = [] then [] else
  let rec take k l acc = if k = 0 then (List.rev acc, l) else match l with [] -> (List.rev acc, []) | x :: r -> take (k - 1) r (x :: acc) in
  let (a, b) = take n l [] in a :: chunk n b

(* ---------- C13 glue ---------- *)
let etype_of_tok t =
  let v = z_of_string (String.sub t 1 (String.length t - 1)) in
  if t.[0] = 's' then TStd v else TOpaque v
let tok_of_etype = function TStd i -> "s" ^ string_of_z i | TOpaque n -> "o" ^ string_of_z n
let scale_of_tok t = if t = "-" then None else
  match String.split_on_char '/' t with
  | [s; o] -> Some (zlist_of_tok s, zlist_of_tok o)
  | _ -> failwith ("bad scale " ^ t)
let tok_of_scale = function None -> "-" | Some (s, o) -> tok_of_zlist s ^ "/" ^ tok_of_zlist o
let edim_of_tok t = match String.split_on_char '~' t with
  | [n; ty; sc; d] -> { ed_name = bytes_of_tok n; ed_type = etype_of_tok ty; ed_scale = scale_of_tok sc; ed_desc = bytes_of_tok d }
  | _ -> failwith ("bad edim " ^ t)
let tok_of_edim d = String.concat "~" [tok_of_bytes d.ed_name; tok_of_etype d.ed_type; tok_of_scale d.ed_scale; tok_of_bytes d.ed_desc]
let tok_of_edims l = if l = [] then "-" else String.concat "+" (List.map tok_of_edim l)
(* zero-width values still make one entry per record: count given by the caller *)
let values_of size tok = let bs = bytes_of_tok tok in if size = 0 then [] else chunk size bs
let op_of_tok t = match String.split_on_char '!' t with
  | ["A"; ds] -> Add (List.map edim_of_tok (split_on '+' ds))
  | ["R"; ns] -> Remove (List.map bytes_of_tok (split_on ',' ns))
  | ["S"; n; size; vals] -> Assign (bytes_of_tok n, values_of (int_of_string size) vals)
  | ["T"; size; vals] -> AssignStd (values_of (int_of_string size) vals)
  | ["P"; ds; size; vals] -> SetPoints (List.map edim_of_tok (split_on '+' ds), values_of (int_of_string size) vals)
  | ["W"] -> RoundTrip
  | ["C"; g; size; vals] -> Convert (z_of_string g, values_of (int_of_string size) vals)
  | ["U"; "-"] -> Reread None
  | ["U"; k] -> Reread (Some (z_of_string k))
  | _ -> failwith ("bad op " ^ t)
let wop_of_tok t =
  if String.length t > 2 && String.sub t 0 2 = "N:" then WNew (op_of_tok (String.sub t 2 (String.length t - 2)))
  else match String.split_on_char '!' t with
  | ["F"; b; idx] -> WSelect (b = "T", zlist_of_tok idx)
  | ["K"] -> WCopy
  | _ -> WOp (op_of_tok t)
let cop_of_tok t = match String.split_on_char '!' t with
  | ["V"; b; vl] -> CEditVlrs (vlrs_of_tok vl, b = "T")
  | ["H"; n] -> CSetCount (z_of_string n)
  | ["G"; idx; "-"] -> CRewrap (zlist_of_tok idx, None)
  | ["G"; idx; n] -> CRewrap (zlist_of_tok idx, Some (z_of_string n))
  | ["Y"; d] -> CNewParam (edim_of_tok d)
  | ["Z"; k; d] -> CSetParam (nat_of_int (int_of_string k), edim_of_tok d)
  | ["Q"; ks] -> CAddParams (List.map (fun k -> nat_of_int (int_of_string k)) (split_on ',' ks))
  | _ -> CW (wop_of_tok t)
let tok_of_state st =
  let fields = List.map (fun d ->
      let vals = List.concat_map (fun r -> match field_of d.ed_name r with Some b -> b | None -> []) st.st_recs in
      tok_of_bytes d.ed_name ^ ":" ^ tok_of_bytes vals) st.st_extras in
  String.concat "@" [tok_of_edims st.st_extras;
                     tok_of_bytes (List.concat_map rec_bytes st.st_recs);
                     (if fields = [] then "-" else String.concat "," fields);
                     tok_of_vlrs st.st_vlrs]
let unit_res = function Ok _ -> "ok" | Err e -> "err:" ^ err_name e

let dispatch cmd a =
  match cmd with
  | "hist" ->
    let fmt = z_of_string a.(0) in
    let stdsize = int_of_string a.(1) in
    let stds = chunk stdsize (bytes_of_tok a.(2)) in
    let vl = vlrs_of_tok a.(3) in
    let ops = if Array.length a < 5 then [] else List.map op_of_tok (split_on ';' a.(4)) in
    let s0 = init fmt stds vl in
    let fresh = ops_okb s0 ops in
    let steps = trace s0 ops in
    "fresh=" ^ (if fresh then "T" else "F") ^ " " ^
    (if steps = [] then "-" else String.concat ";" (List.map (fun (st, r) -> unit_res r ^ "@" ^ tok_of_state st) steps))
  | "hist2" ->
    let fmt = z_of_string a.(0) in
    let ex = List.map edim_of_tok (split_on '+' a.(1)) in
    let recs = values_of (int_of_string a.(2)) a.(3) in
    let vl = vlrs_of_tok a.(4) in
    let eb_last = a.(5) = "T" in
    let ops = if Array.length a < 7 then [] else List.map op_of_tok (split_on ';' a.(6)) in
    (match init_ex fmt ex recs vl eb_last with
     | Err e -> "fresh=T err:" ^ err_name e
     | Ok s0 ->
       let fresh = ops_okb s0 ops in
       let steps = trace s0 ops in
       "fresh=" ^ (if fresh then "T" else "F") ^ " " ^
       String.concat ";" (("ok@" ^ tok_of_state s0) :: List.map (fun (st, r) -> unit_res r ^ "@" ^ tok_of_state st) steps))
  | "hist3" ->
    let fmt = z_of_string a.(0) in
    let ex = List.map edim_of_tok (split_on '+' a.(1)) in
    let recs = values_of (int_of_string a.(2)) a.(3) in
    let vl = vlrs_of_tok a.(4) in
    let eb_last = a.(5) = "T" in
    let ops = if Array.length a < 7 then [] else List.map wop_of_tok (split_on ';' a.(6)) in
    (match init_ex fmt ex recs vl eb_last with
     | Err e -> "fresh=T err:" ^ err_name e ^ " -"
     | Ok s0 ->
       let w0 = { w_cur = s0; w_others = [] } in
       let fresh = wops_okb w0 ops in
       let steps = wtrace w0 ops in
       let last = wrun w0 ops in
       "fresh=" ^ (if fresh then "T" else "F") ^ " " ^
       String.concat ";" (("ok@" ^ tok_of_state s0) :: List.map (fun (w, r) -> unit_res r ^ "@" ^ tok_of_state w.w_cur) steps)
       ^ " " ^ (if last.w_others = [] then "-" else String.concat "#" (List.map tok_of_state last.w_others)))
  | "hist5" ->
    let fmt = z_of_string a.(0) in
    let ex = List.map edim_of_tok (split_on '+' a.(1)) in
    let recs = values_of (int_of_string a.(2)) a.(3) in
    let vl = vlrs_of_tok a.(4) in
    let eb_last = a.(5) = "T" in
    let groups = if Array.length a < 7 then [] else
        List.map (fun g -> List.map cop_of_tok (String.split_on_char '&' g)) (split_on ';' a.(6)) in
    (match init_ex fmt ex recs vl eb_last with
     | Err e -> "fresh=T err:" ^ err_name e ^ " -"
     | Ok s0 ->
       let cnt0 = if Array.length a > 7 then z_of_string a.(7) else z_of_int (List.length s0.st_recs) in
       let c0 = { cw_w = { w_cur = s0; w_others = [] }; cw_count = cnt0; cw_dirty = false; cw_params = [] } in
       let fresh = cops_okb c0 (List.concat groups) in
       (* round 6: also PointFormat.dimensions (names: the standard dimensions of the format id, then the extra ones) *)
       let show c r = unit_res r ^ "@" ^ tok_of_state c.cw_w.w_cur ^ "@" ^ string_of_z c.cw_count
                      ^ "@" ^ String.concat "," (List.map tok_of_bytes (dim_names c.cw_w.w_cur)) in
       let rec go c gs acc = match gs with
         | [] -> (c, List.rev acc)
         | g :: rest ->
           let (c', r) = List.fold_left (fun (c, r) o -> let (c2, r2) = cstep c o in (c2, (match r with Ok _ -> r2 | Err _ -> r))) (c, Ok ()) g in
           go c' rest (show c' r :: acc) in
       let (last, steps) = go c0 groups [] in
       "fresh=" ^ (if fresh then "T" else "F") ^ " " ^
       String.concat ";" (show c0 (Ok ()) :: steps)
       ^ " " ^ (if last.cw_w.w_others = [] then "-" else String.concat "#" (List.map tok_of_state last.cw_w.w_others)))
  | "eb_enc" -> res tok_of_bytes (enc_eb (edim_of_tok a.(0)))
  | "eb_dec" -> res tok_of_edim (dec_eb (bytes_of_tok a.(0)))
  | "std_names" -> String.concat "," (List.map tok_of_bytes (std_names (z_of_string a.(0))))
  | "rec_names" -> String.concat "," (List.map tok_of_bytes (rec_names (z_of_string a.(0))))
  | "sub_names" -> String.concat "," (List.map tok_of_bytes (sub_names (z_of_string a.(0))))
  | "std_dim_names" -> String.concat "," (List.map tok_of_bytes (std_dim_names (z_of_string a.(0))))
  | _ -> "unknown-command " ^ cmd

let () =
  try
    while true do
      let line = input_line stdin in
      let toks = List.filter (fun s -> s <> "") (String.split_on_char ' ' line) in
      (match toks with
       | [] -> print_endline ""
       | cmd :: args ->
         (try print_endline (dispatch cmd (Array.of_list args))
          with ex -> print_endline ("driver-error " ^ Printexc.to_string ex)))
    done
  with End_of_file -> ()
