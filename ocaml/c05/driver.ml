(* Line-protocol driver around the extracted byte-level cursor model of C05 (ocaml/c05/model.ml, from Model/CursorBytes.v).
   One command per input line, one result per output line.
     brun <off> <stride> <n> <op> ...     op = R<n> | N<k> | S<pos>:<whence> | A
        -> b<first byte>:<end byte> | k<index> | e<error>   per op: the reader of a file whose header announces <n> records from byte
           <off> on, addressing the stream with <stride> bytes per record
     crun <n> <op> ...  /  srun <n> <op> ...   record-level runs of Model/Cursor.v (s<a>:<b> | k<i> | e<error>)
     bfrun <off> <stride> <n> <fop> ...   fop = <op> | !<op> (the source raises on its first call during <op>) | M (a caller operation on
        an object the reader handed out) -> as brun, `-` for M                      (Model/CursorFault.v)
     frun <n> <fop> ... / sfrun <n> <fop> ...  record-level runs with faults *)
open Model

let rec pos_of_int n = if n = 1 then XH else if n land 1 = 0 then XO (pos_of_int (n lsr 1)) else XI (pos_of_int (n lsr 1))
let z_of_int n = if n = 0 then Z0 else if n > 0 then Zpos (pos_of_int n) else Zneg (pos_of_int (-n))
let rec nat_of_int n = if n <= 0 then O else S (nat_of_int (n - 1))
let rec int_of_nat = function O -> 0 | S k -> 1 + int_of_nat k
let ten = z_of_int 10
let z_of_string s =
  let neg = String.length s > 0 && s.[0] = '-' in
  let acc = ref Z0 in
  String.iteri (fun i c -> if not (i = 0 && neg) then
    acc := Z.add (Z.mul !acc ten) (z_of_int (Char.code c - 48))) s;
  if neg then Z.sub Z0 !acc else !acc
let rec pos_bits = function XH -> 1 | XO p | XI p -> 1 + pos_bits p
let rec int_of_pos = function XH -> 1 | XO p -> 2 * int_of_pos p | XI p -> 2 * int_of_pos p + 1
let billion = z_of_int 1000000000
let rec string_of_posz zv = (* zv >= 0 *)
  match zv with
  | Z0 -> "0"
  | Zpos p when pos_bits p < 62 -> string_of_int (int_of_pos p)
  | _ -> let (q, r) = Z.div_eucl zv billion in
         let rs = (match r with Z0 -> 0 | Zpos p -> int_of_pos p | Zneg _ -> 0) in
         string_of_posz q ^ Printf.sprintf "%09d" rs
let string_of_z = function
  | Zneg p -> "-" ^ string_of_posz (Zpos p)
  | zv -> string_of_posz zv
let int_of_z = function Z0 -> 0 | Zpos p -> int_of_pos p | Zneg p -> - (int_of_pos p)
let bool_of_tok s = (s = "T")
let tok_of_bool b = if b then "T" else "F"
let bytes_of_tok s =
  let n = (String.length s - 1) / 2 in
  List.init n (fun i -> z_of_int (int_of_string ("0x" ^ String.sub s (1 + 2 * i) 2)))
let tok_of_bytes l =
  let b = Buffer.create 64 in
  Buffer.add_char b 'x';
  List.iter (fun zv -> let v = int_of_z zv in
    if v < 0 || v > 255 then Buffer.add_string b "??" else Buffer.add_string b (Printf.sprintf "%02x" v)) l;
  Buffer.contents b
let zlist_of_tok s = if s = "-" then [] else List.map z_of_string (String.split_on_char ',' s)
let tok_of_zlist l = if l = [] then "-" else String.concat "," (List.map string_of_z l)


let err_name = function
  | EOverflow -> "EOverflow" | EIndex -> "EIndex" | ELaspy -> "ELaspy" | EValue -> "EValue"
  | EShort -> "EShort" | EFuel -> "EFuel" | EStop -> "EStop" | EOther -> "EOther"

let ops_of a from =
  List.map (fun t ->
    let body = String.sub t 1 (String.length t - 1) in
    match t.[0] with
    | 'R' -> CRead (z_of_string body)
    | 'N' -> CNext (z_of_string body)
    | 'S' -> (match String.split_on_char ':' body with
              | [p; w] -> CSeek (z_of_string p, z_of_string w) | _ -> failwith "seek")
    | _ -> CReadAll) (Array.to_list (Array.sub a from (Array.length a - from)))

let op_of_tok t =
  let body = String.sub t 1 (String.length t - 1) in
  match t.[0] with
  | 'R' -> CRead (z_of_string body)
  | 'N' -> CNext (z_of_string body)
  | 'S' -> (match String.split_on_char ':' body with
            | [p; w] -> CSeek (z_of_string p, z_of_string w) | _ -> failwith "seek")
  | _ -> CReadAll

let fops_of a from =
  List.map (fun t ->
    if t.[0] = 'M' then FCaller
    else if t.[0] = '!' then FFail (op_of_tok (String.sub t 1 (String.length t - 1)))
    else FOk (op_of_tok t)) (Array.to_list (Array.sub a from (Array.length a - from)))

(* one output token per fop: the model emits none for a caller operation, the driver prints `-` there *)
let align fops outs show =
  let rec go fops outs = match fops, outs with
    | [], _ -> []
    | FCaller :: r, _ -> "-" :: go r outs
    | _ :: r, o :: os -> show o :: go r os
    | _ :: r, [] -> "driver-error-missing-output" :: go r [] in
  String.concat " " (go fops outs)

let dispatch cmd a =
  let zi i = z_of_string a.(i) in
  match cmd with
  | "brun" ->
    let outs = snd (brun (zi 0) (zi 1) { b_n = zi 2; b_read = Z0; b_pos = zi 0 } (ops_of a 3)) in
    String.concat " " (List.map (function
      | BBytes (x, y) -> "b" ^ string_of_z x ^ ":" ^ string_of_z y
      | BSeek i -> "k" ^ string_of_z i
      | BErr e -> "e" ^ err_name e) outs)
  | "bfrun" ->
    let fops = fops_of a 3 in
    let outs = snd (bfrun (zi 0) (zi 1) { b_n = zi 2; b_read = Z0; b_pos = zi 0 } fops) in
    align fops outs (function
      | BBytes (x, y) -> "b" ^ string_of_z x ^ ":" ^ string_of_z y
      | BSeek i -> "k" ^ string_of_z i
      | BErr e -> "e" ^ err_name e)
  | "frun" | "sfrun" ->
    let fops = fops_of a 1 in
    let outs = if cmd = "frun" then snd (frun { c_n = zi 0; c_read = Z0; c_src = Z0 } fops)
               else snd (sfrun { sp_n = zi 0; sp_c = Z0 } fops) in
    align fops outs (function
      | OSlice (x, y) -> "s" ^ string_of_z x ^ ":" ^ string_of_z y
      | OSeek i -> "k" ^ string_of_z i
      | OErr e -> "e" ^ err_name e)
  | "crun" | "srun" ->
    let ops = ops_of a 1 in
    let outs = if cmd = "crun" then snd (crun { c_n = zi 0; c_read = Z0; c_src = Z0 } ops)
               else snd (srun { sp_n = zi 0; sp_c = Z0 } ops) in
    String.concat " " (List.map (function
      | OSlice (x, y) -> "s" ^ string_of_z x ^ ":" ^ string_of_z y
      | OSeek i -> "k" ^ string_of_z i
      | OErr e -> "e" ^ err_name e) outs)
  | _ -> "unknown-command " ^ cmd

let () =
  try
    while true do
      let line = input_line stdin in
      let toks = List.filter (fun s -> s <> "") (String.split_on_char ' ' line) in
      (match toks with
       | [] -> print_endline ""
       | cmd :: args ->
         (try print_endline (dispatch cmd (Array.of_list args))
          with ex -> print_endline ("driver-error " ^ Printexc.to_string ex)))
    done
  with End_of_file -> ()
