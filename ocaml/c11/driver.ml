(* Line-protocol driver around the extracted C11 models (model.ml).
   One command per input line, one result per output line.
   Tokens: decimal ints (any size); doubles as exact fractions n/d (d a power of two) or `nan` for a non-finite value;
   comma lists; `-` = empty / None. *)
open Model

let rec pos_of_int n = if n = 1 then XH else if n land 1 = 0 then XO (pos_of_int (n lsr 1)) else XI (pos_of_int (n lsr 1))
let z_of_int n = if n = 0 then Z0 else if n > 0 then Zpos (pos_of_int n) else Zneg (pos_of_int (-n))
let rec nat_of_int n = if n <= 0 then O else S (nat_of_int (n - 1))
let rec int_of_nat = function O -> 0 | S k -> 1 + int_of_nat k
let ten = z_of_int 10
let z_of_string s =
  let neg = String.length s > 0 && s.[0] = '-' in
  let acc = ref Z0 in
  String.iteri (fun i c -> if not (i = 0 && neg) then
    acc := Z.add (Z.mul !acc ten) (z_of_int (Char.code c - 48))) s;
  if neg then Z.sub Z0 !acc else !acc
let rec pos_bits = function XH -> 1 | XO p | XI p -> 1 + pos_bits p
let rec int_of_pos = function XH -> 1 | XO p -> 2 * int_of_pos p | XI p -> 2 * int_of_pos p + 1
let billion = z_of_int 1000000000
let rec string_of_posz zv = (* zv >= 0 *)
  match zv with
  | Z0 -> "0"
  | Zpos p when pos_bits p < 62 -> string_of_int (int_of_pos p)
  | _ -> let (q, r) = Z.div_eucl zv billion in
         let rs = (match r with Z0 -> 0 | Zpos p -> int_of_pos p | Zneg _ -> 0) in
         string_of_posz q ^ Printf.sprintf "%09d" rs
let string_of_z = function
  | Zneg p -> "-" ^ string_of_posz (Zpos p)
  | zv -> string_of_posz zv
let zlist_of_tok s = if s = "-" then [] else List.map z_of_string (String.split_on_char ',' s)
let tok_of_zlist l = if l = [] then "-" else String.concat "," (List.map string_of_z l)
let err_name = function
  | EOverflow -> "EOverflow" | EIndex -> "EIndex" | ELaspy -> "ELaspy" | EValue -> "EValue"
  | EShort -> "EShort" | EFuel -> "EFuel" | EStop -> "EStop" | EOther -> "EOther"
let res f = function Ok a -> "ok " ^ f a | Err e -> "err " ^ err_name e

(* ---------- doubles ---------- *)
let q_of_tok s : q =
  match String.index_opt s '/' with
  | Some i ->
    let n = z_of_string (String.sub s 0 i) and d = z_of_string (String.sub s (i + 1) (String.length s - i - 1)) in
    { qnum = n; qden = (match d with Zpos p -> p | _ -> failwith "bad denominator") }
  | None -> { qnum = z_of_string s; qden = XH }
let fl_of_tok s : fl = if s = "nan" then None else Some (q_of_tok s)
let tok_of_q (x : q) = string_of_z x.qnum ^ "/" ^ string_of_z (Zpos x.qden)
let tok_of_fl = function None -> "nan" | Some x -> tok_of_q x
let fls_of_tok s = if s = "-" then [] else List.map fl_of_tok (String.split_on_char ',' s)
let tok_of_fls l = if l = [] then "-" else String.concat "," (List.map tok_of_fl l)
let cols_of_tok s = List.map zlist_of_tok (String.split_on_char ';' s)
let tok_of_cols c = String.concat ";" (List.map tok_of_zlist c)

(* ---------- histories ---------- *)
let opt_arr s = if s = "-" then None else Some (fls_of_tok s)
let op_of_tok t : fl op =
  match String.split_on_char ':' t with
  | ["RS"; a] -> HReplaceS (fls_of_tok a)
  | ["RO"; a] -> HReplaceO (fls_of_tok a)
  | ["MS"; ax; v] -> HMutateS (nat_of_int (int_of_string ax), fl_of_tok v)
  | ["MO"; ax; v] -> HMutateO (nat_of_int (int_of_string ax), fl_of_tok v)
  | ["A"; ax; vs] -> Assign (nat_of_int (int_of_string ax), fls_of_tok vs)
  | ["X"; a; b; c] -> AssignXYZ [fls_of_tok a; fls_of_tok b; fls_of_tok c]
  | ["P"; ax; vs] -> RecAssign (nat_of_int (int_of_string ax), fls_of_tok vs)
  | ["C"; s; o] -> ChangeScaling (opt_arr s, opt_arr o)
  | ["W"] -> Write
  | ["S"; ws; wo] -> StreamInto (fls_of_tok ws, fls_of_tok wo)
  | _ -> failwith ("bad op " ^ t)
(* a value: `v=<doubles>` | `s=<axis>=<indices>` (a view of this record) | `o=<ints>=<scale>=<offset>` (a view of another record)
   | `p=...` (an augmented assignment: the view of this record combined with operands) *)
let natlist_of_tok s = if s = "-" then [] else List.map (fun x -> nat_of_int (int_of_string x)) (String.split_on_char ',' s)
let vsrc_of_tok t : fl vsrc =
  match String.split_on_char '=' t with
  | ["v"; a] -> VVals (fls_of_tok a)
  | ["s"; ax; idx] -> VSelf (nat_of_int (int_of_string ax), natlist_of_tok idx)
  | ["o"; xs; s; o] -> VOther (zlist_of_tok xs, fl_of_tok s, fl_of_tok o)
  (* `p=<axis>=<indices>=<add|sub|mul|div>=<operands>`: view[indices] op= operands (one per index) *)
  | ["p"; ax; idx; b; ds] ->
    let b = (match b with "add" -> BAdd | "sub" -> BSub | "mul" -> BMul | "div" -> BDiv | _ -> failwith ("bad operator " ^ b)) in
    VSelfOp (nat_of_int (int_of_string ax), natlist_of_tok idx, f_view_op b, fls_of_tok ds)
  | _ -> failwith ("bad value " ^ t)
let sop_of_tok t : fl sop =
  match String.split_on_char ':' t with
  | ["SA"; ax; v] -> SAttr (nat_of_int (int_of_string ax), vsrc_of_tok v)
  | ["SI"; ax; v] -> SItem (nat_of_int (int_of_string ax), vsrc_of_tok v)
  | ["SP"; ax; v] -> SRecAttr (nat_of_int (int_of_string ax), vsrc_of_tok v)
  | ["SV"; ax; idx; v] -> SView (nat_of_int (int_of_string ax), natlist_of_tok idx, vsrc_of_tok v)
  | ["SX"; a; b; c] -> SItems [fls_of_tok a; fls_of_tok b; fls_of_tok c]
  | ["PRS"; a] -> SRecReplaceS (fls_of_tok a)
  | ["PRO"; a] -> SRecReplaceO (fls_of_tok a)
  | ["PMS"; ax; v] -> SRecMutateS (nat_of_int (int_of_string ax), fl_of_tok v)
  | ["PMO"; ax; v] -> SRecMutateO (nat_of_int (int_of_string ax), fl_of_tok v)
  | ["WO"] -> SOpenHdr
  | ["WO"; ws; wo; pre] -> SOpenWith (fls_of_tok ws, fls_of_tok wo, cols_of_tok pre)
  | ["WW"] -> SWrite
  | ["WC"] -> SClose
  | _ -> SBase (op_of_tok t)
let tok_of_out = function
  | ONone -> "-"
  | OErr e -> "err " ^ err_name e
  | OFile f -> "file " ^ tok_of_fls f.f_scales ^ " " ^ tok_of_fls f.f_offsets ^ " " ^ tok_of_cols f.f_ints
let nat_eq a b = int_of_nat a = int_of_nat b
let tok_of_state (s : fl st) =
  String.concat " " [
    tok_of_cols s.ints;
    tok_of_fls (get s.heap s.r_s); tok_of_fls (get s.heap s.r_o);
    tok_of_fls (get s.heap s.h_s); tok_of_fls (get s.heap s.h_o);
    (if nat_eq s.r_s s.h_s then "T" else "F"); (if nat_eq s.r_o s.h_o then "T" else "F");
    String.concat ";" (List.map (fun a -> tok_of_fls (f_presented s (nat_of_int a))) [0; 1; 2]) ]

let handle line =
  match String.split_on_char ' ' line with
  | ["store"; v; s; o] -> res string_of_z (f_store_checked (fl_of_tok v) (fl_of_tok s) (fl_of_tok o))
  | ["restore"; v; s; o] -> res string_of_z (f_restore_checked (fl_of_tok v) (fl_of_tok s) (fl_of_tok o))
  | ["present"; x; s; o] -> tok_of_fl (f_present (z_of_string x) (fl_of_tok s) (fl_of_tok o))
  | ["qstore"; v; s; o] -> res string_of_z (q_store_checked (q_of_tok v) (q_of_tok s) (q_of_tok o))
  | ["rnd"; x] -> tok_of_fl (rnd64 (q_of_tok x))
  | ["hist"; sc; off; cols; ops] ->
    let s0 = f_init (fls_of_tok sc) (fls_of_tok off) (cols_of_tok cols) in
    let ops = if ops = "-" then [] else List.map op_of_tok (String.split_on_char '|' ops) in
    let _, outs = List.fold_left (fun (s, acc) o -> let (s1, x) = f_step s o in (s1, (tok_of_out x ^ " # " ^ tok_of_state s1) :: acc)) (s0, []) ops in
    tok_of_state s0 ^ " | " ^ String.concat " | " (List.rev outs)
  | ["shist"; sc; off; cols; ops] ->
    let s0 = { base = f_init (fls_of_tok sc) (fls_of_tok off) (cols_of_tok cols); wr = None } in
    let ops = if ops = "-" then [] else List.map sop_of_tok (String.split_on_char '|' ops) in
    let _, outs = List.fold_left (fun (s, acc) o -> let (s1, x) = f_sstep s o in (s1, (tok_of_out x ^ " # " ^ tok_of_state s1.base) :: acc)) (s0, []) ops in
    tok_of_state s0.base ^ " | " ^ String.concat " | " (List.rev outs)
  | _ -> "bad command"

let () =
  try
    while true do
      let line = input_line stdin in
      print_string (try handle line with ex -> "exception " ^ Printexc.to_string ex);
      print_newline ()
    done
  with End_of_file -> ()
