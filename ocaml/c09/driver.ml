(* Line-protocol driver around the extracted C09 record-level model (ocaml/c09/model.ml, from Model/SubFieldRec.v).
   One command per input line, one result per output line.

   sf_hist <fmt> <cols> <op>;<op>;...
        cols  = <composed name>=x<hex, one byte per point>|...      (the packed bytes of the record)
        op    = V!<name>!<chain>!<sel>     rec[name][s1]..[sk][key] = value
                     chain = - | <idx>/<idx>..   idx = e | i,i,i  (positions each slice selects in the previous view)
                     sel   = - | i:v,i:v         (position in the last view : value, in numpy's order)
              | S!<name>!<vs>              rec[name] = vs      vs = - | v,v,v
              | C!<sfmt>!<cols>!<plain>    rec.copy_fields_from(source)   plain = - | <name>=v,v,v|...
     -> <step>;<step>...   step = ok|err:E @ <cols> @ <name>=v,v,..|...   (state after the step; values read per sub-field)

   sf_world <wop>;<wop>;...          several record objects over shared memory (Model/SubFieldRec.v, wrun7 from the empty world; P!a!fields!name!vs = wattr)
        wop   = N!<fmt>!<cols>             a record with memory of its own
              | L!<a>!<chain>              a view of object a (chain as above; - = all of it)
              | G!<a>!<idx>                a copy of the points idx of object a
              | K!<a>!<fmt>!<plain>        from_point_record / convert of object a
              | A!<a>!<op>                 an operation (V / S / C as above) on object a
              | F!<a>!<s>!<plain>          a.copy_fields_from(s)
     -> <step>;<step>...   step = ok|err:E @ <cols of object 0> # <cols of object 1> # ...   (every object after the step)

   sf_routes <mask> <bytes> <route>,<route>,...      the read routes of one sub-field over packed bytes (sf_route)
        route = arr | max | min | sum | cnt | uniq | bool | i<bits> | u<bits> | at<i> | c<op>_<c>   (op 0 < 1 <= 2 >= 3 > 4 == 5 !=)
     -> <values>;<values>...    values = - (empty) | v,v,v | none (numpy refuses: reduction of nothing, index outside)

   sf_lookup <fmt> <field>,<field>,... <name>,<name>,...     what rec[name] addresses on a record whose array has these fields (resolve)
     -> <t>;<t>...   t = sub:<composed>:<mask> | field:<name> | none *)
open Model

let rec pos_of_int n = if n = 1 then XH else if n land 1 = 0 then XO (pos_of_int (n lsr 1)) else XI (pos_of_int (n lsr 1))
let z_of_int n = if n = 0 then Z0 else if n > 0 then Zpos (pos_of_int n) else Zneg (pos_of_int (-n))
let rec nat_of_int n = if n <= 0 then O else S (nat_of_int (n - 1))
let rec int_of_nat = function O -> 0 | S k -> 1 + int_of_nat k
let ten = z_of_int 10
let z_of_string s =
  let neg = String.length s > 0 && s.[0] = '-' in
  let acc = ref Z0 in
  String.iteri (fun i c -> if not (i = 0 && neg) then
    acc := Z.add (Z.mul !acc ten) (z_of_int (Char.code c - 48))) s;
  if neg then Z.sub Z0 !acc else !acc
let rec pos_bits = function XH -> 1 | XO p | XI p -> 1 + pos_bits p
let rec int_of_pos = function XH -> 1 | XO p -> 2 * int_of_pos p | XI p -> 2 * int_of_pos p + 1
let billion = z_of_int 1000000000
let rec string_of_posz zv = (* zv >= 0 *)
  match zv with
  | Z0 -> "0"
  | Zpos p when pos_bits p < 62 -> string_of_int (int_of_pos p)
  | _ -> let (q, r) = Z.div_eucl zv billion in
         let rs = (match r with Z0 -> 0 | Zpos p -> int_of_pos p | Zneg _ -> 0) in
         string_of_posz q ^ Printf.sprintf "%09d" rs
let string_of_z = function
  | Zneg p -> "-" ^ string_of_posz (Zpos p)
  | zv -> string_of_posz zv
let int_of_z = function Z0 -> 0 | Zpos p -> int_of_pos p | Zneg p -> - (int_of_pos p)
let bool_of_tok s = (s = "T")
let tok_of_bool b = if b then "T" else "F"
let bytes_of_tok s =
  let n = (String.length s - 1) / 2 in
  List.init n (fun i -> z_of_int (int_of_string ("0x" ^ String.sub s (1 + 2 * i) 2)))
let tok_of_bytes l =
  let b = Buffer.create 64 in
  Buffer.add_char b 'x';
  List.iter (fun zv -> let v = int_of_z zv in
    if v < 0 || v > 255 then Buffer.add_string b "??" else Buffer.add_string b (Printf.sprintf "%02x" v)) l;
  Buffer.contents b
let zlist_of_tok s = if s = "-" then [] else List.map z_of_string (String.split_on_char ',' s)
let tok_of_zlist l = if l = [] then "-" else String.concat "," (List.map string_of_z l)
let err_name = function
  | EOverflow -> "EOverflow" | EIndex -> "EIndex" | ELaspy -> "ELaspy" | EValue -> "EValue"
  | EShort -> "EShort" | EFuel -> "EFuel" | EStop -> "EStop" | EOther -> "EOther"
let res f = function Ok a -> "ok " ^ f a | Err e -> "err " ^ err_name e


let explode s = List.init (String.length s) (String.get s)
let ascii_of_char c = let n = Char.code c in let b i = (n lsr i) land 1 = 1 in
  Ascii (b 0, b 1, b 2, b 3, b 4, b 5, b 6, b 7)
let char_of_ascii = function Ascii (b0, b1, b2, b3, b4, b5, b6, b7) ->
  let v b i = if b then 1 lsl i else 0 in
  Char.chr (v b0 0 + v b1 1 + v b2 2 + v b3 3 + v b4 4 + v b5 5 + v b6 6 + v b7 7)
let coq_string_of s = List.fold_right (fun c acc -> String (ascii_of_char c, acc)) (explode s) EmptyString
let rec string_of_coq = function EmptyString -> "" | String (c, r) -> Stdlib.String.make 1 (char_of_ascii c) ^ string_of_coq r

let split_on c s = if s = "-" || s = "" then [] else String.split_on_char c s
let nat_list s = if s = "e" then [] else List.map (fun t -> nat_of_int (int_of_string t)) (String.split_on_char ',' s)
let parse_cols s = List.map (fun t -> match String.split_on_char '=' t with
  | [n; b] -> (coq_string_of n, bytes_of_tok b) | _ -> failwith "cols") (split_on '|' s)
let parse_plain s = List.map (fun t -> match String.split_on_char '=' t with
  | [n; v] -> (coq_string_of n, zlist_of_tok v) | _ -> failwith "plain") (split_on '|' s)
let tok_of_cols r = if r = [] then "-" else String.concat "|" (List.map (fun (n, bs) -> string_of_coq n ^ "=" ^ tok_of_bytes bs) r)
let parse_op t = match String.split_on_char '!' t with
  | ["V"; n; ch; sel] ->
    OView (coq_string_of n, List.map nat_list (split_on '/' ch),
           List.map (fun p -> match String.split_on_char ':' p with
             | [i; v] -> (nat_of_int (int_of_string i), z_of_string v) | _ -> failwith "sel") (split_on ',' sel))
  | ["S"; n; vs] -> OSeq (coq_string_of n, zlist_of_tok vs)
  | ["C"; f; cols; plain] -> OCopy (z_of_string f, parse_cols cols, parse_plain plain)
  | _ -> failwith "op"

let parse_wop t = match String.split_on_char '!' t with
  | ["N"; f; cols] -> WNew (z_of_string f, parse_cols cols)
  | ["L"; a; ch] -> WSlice (nat_of_int (int_of_string a), List.map nat_list (split_on '/' ch))
  | ["G"; a; idx] -> WGather (nat_of_int (int_of_string a), nat_list idx)
  | ["K"; a; f; plain] -> WConv (nat_of_int (int_of_string a), z_of_string f, parse_plain plain)
  | "A" :: a :: rest -> WAssign (nat_of_int (int_of_string a), parse_op (String.concat "!" rest))
  | ["F"; a; s; plain] -> WCopyFrom (nat_of_int (int_of_string a), nat_of_int (int_of_string s), parse_plain plain)
  | _ -> failwith "wop"

(* round 7: P!a!fields!name!vs = obj.name = vs by attribute (Model/SubFieldRec.v wattr); every other token is a wop *)
let parse_wop7 t = match String.split_on_char '!' t with
  | ["P"; a; fields; name; vs] ->
    WAttr (nat_of_int (int_of_string a), List.map coq_string_of (split_on ',' fields), coq_string_of name, zlist_of_tok vs)
  | _ -> WOp (parse_wop t)

let parse_route t =
  let n = String.length t in
  let tail k = String.sub t k (n - k) in
  match t with
  | "arr" -> RArray | "max" -> RMax | "min" -> RMin | "sum" -> RSum | "cnt" -> RCount | "uniq" -> RUnique | "bool" -> RBool
  | _ when n > 2 && String.sub t 0 2 = "at" -> RItem (nat_of_int (int_of_string (tail 2)))
  | _ when n > 1 && t.[0] = 'i' -> RInt (z_of_string (tail 1), true)
  | _ when n > 1 && t.[0] = 'u' -> RInt (z_of_string (tail 1), false)
  | _ when n > 1 && t.[0] = 'c' ->
    (match String.split_on_char '_' (tail 1) with
     | [op; c] -> RCmp (z_of_string op, z_of_string c) | _ -> failwith "route")
  | _ -> failwith "route"

let dispatch cmd a =
  match cmd with
  | "sf_routes" ->
    let m = z_of_string a.(0) in
    let bs = bytes_of_tok a.(1) in
    String.concat ";" (List.map (fun t ->
        match sf_route m bs (parse_route t) with Some vs -> tok_of_zlist vs | None -> "none") (String.split_on_char ',' a.(2)))
  | "sf_hist" ->
    let fmt = z_of_string a.(0) in
    let r = parse_cols a.(1) in
    let ops = List.map parse_op (split_on ';' a.(2)) in
    let reads r = String.concat "|" (List.map (fun n ->
        string_of_coq n ^ "=" ^ (match rec_read fmt r n with Some vs -> tok_of_zlist vs | None -> "none")) (fmt_names fmt)) in
    String.concat ";" (List.map (fun (r', e) ->
        (match e with None -> "ok" | Some e -> "err:" ^ err_name e) ^ "@" ^ tok_of_cols r' ^ "@" ^ reads r') (run fmt r ops))
  | "sf_world" ->
    let ops = List.map parse_wop7 (split_on ';' a.(0)) in
    let objs w = let n = List.length (snd w) in
      String.concat "#" (List.init n (fun i -> tok_of_cols (obj_read w (nat_of_int i)))) in
    String.concat ";" (List.map (fun (w, e) ->
        (match e with None -> "ok" | Some e -> "err:" ^ err_name e) ^ "@" ^ objs w) (wrun7 ([], []) ops))
  | "sf_lookup" ->
    let fmt = z_of_string a.(0) in
    let fields = List.map coq_string_of (split_on ',' a.(1)) in
    String.concat ";" (List.map (fun n ->
        match resolve fmt fields (coq_string_of n) with
        | TSub (c, m) -> "sub:" ^ string_of_coq c ^ ":" ^ string_of_z m
        | TField f -> "field:" ^ string_of_coq f
        | TNone -> "none") (split_on ',' a.(2)))
  | "sf_cols" -> String.concat "," (List.map string_of_coq (fmt_cols (z_of_string a.(0))))
  | _ -> "unknown-command " ^ cmd

let () =
  try
    while true do
      let line = input_line stdin in
      let toks = List.filter (fun s -> s <> "") (String.split_on_char ' ' line) in
      (match toks with
       | [] -> print_endline ""
       | cmd :: args ->
         (try print_endline (dispatch cmd (Array.of_list args))
          with ex -> print_endline ("driver-error " ^ Printexc.to_string ex)))
    done
  with End_of_file -> ()
