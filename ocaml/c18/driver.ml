(* Line-protocol driver around the extracted C18 ownership model (model.ml).
   One command per input line, one result per output line.

   run <T|F|A: the stream answers seekable() with True | with False | has no seekable attribute> <position> <event> ...   events:
     O<r|w|a><T|F closefd><T|F read_evlrs>:<outcome>:<offset>,<count>,<psize>,<minor>,<nevlrs>,<evlr_start>,<evlr_bytes>,<size>,<evlr_bad>,<laz>
       (laz: 0 = the points are not flagged as compressed; 1 | 2 | 3 = LAZ-flagged and building the LAZ point reader raises a
        LaspyException | another Exception | a BaseException that is not one)
     P<n>  S<pos>:<whence>  A (read)  Q (.point_source)  W (write/append points)  Bl | Bo (with-body raises Laspy / other)
     G (the handle is dropped without close() and collected)
     R<r|w|a><T|F closefd>:<n|rT|rF|eT|eF> (close() again on an object that was closed before; its point source: none | real | empty, given the source or not)
     U<w|a> (write_points / append_points on an object that was closed before)
     X (exit)  C (close)  D<outcome> (LasData.write)  L<T|F closefd>:<outcome>:<finfo> (laspy.read)  Z (caller rewinds)
     F<l|o|b> (an operation on the handle raises: the stream failed under it; class Laspy / other Exception / not an Exception)
     Y<x|c><j>:<l|o|b> (with-exit | close() and the j-th fallible statement of the close method raises)
     M<T|F closefd>:<l|o|b>:<finfo> (laspy.read whose read() fails because the stream did)
     outcomes: ok empty badsig trunc badvlr incompat fault-<l|o|b> (the stream fails while the constructor runs)
   output: one token per event  <res>/<closed>/<pos>/<handle>  with res in ok|xl|xo|xb|ig, handle = - or <mode><closefd><ps><src>,
           then `#` and the log entries <how>:<closefd>:<was_open>:<closed>, then `#` and T/F (all entries satisfy obs_okb) *)
open Model

let rec pos_of_int n = if n = 1 then XH else if n land 1 = 0 then XO (pos_of_int (n lsr 1)) else XI (pos_of_int (n lsr 1))
let z_of_int n = if n = 0 then Z0 else if n > 0 then Zpos (pos_of_int n) else Zneg (pos_of_int (-n))
let ten = z_of_int 10
let z_of_string s =
  let neg = String.length s > 0 && s.[0] = '-' in
  let acc = ref Z0 in
  String.iteri (fun i c -> if not (i = 0 && neg) then
    acc := Z.add (Z.mul !acc ten) (z_of_int (Char.code c - 48))) s;
  if neg then Z.sub Z0 !acc else !acc
let rec pos_bits = function XH -> 1 | XO p | XI p -> 1 + pos_bits p
let rec int_of_pos = function XH -> 1 | XO p -> 2 * int_of_pos p | XI p -> 2 * int_of_pos p + 1
let billion = z_of_int 1000000000
let rec string_of_posz zv = (* zv >= 0 *)
  match zv with
  | Z0 -> "0"
  | Zpos p when pos_bits p < 62 -> string_of_int (int_of_pos p)
  | _ -> let (q, r) = Z.div_eucl zv billion in
         let rs = (match r with Z0 -> 0 | Zpos p -> int_of_pos p | Zneg _ -> 0) in
         string_of_posz q ^ Printf.sprintf "%09d" rs
let string_of_z = function
  | Zneg p -> "-" ^ string_of_posz (Zpos p)
  | zv -> string_of_posz zv
let bool_of_tok s = (s = "T")
let bool_of_char c = (c = 'T')
let tok_of_bool b = if b then "T" else "F"

let cap_of_tok = function "T" -> CapYes | "F" -> CapNo | "A" -> CapAbsent | s -> failwith ("seekability " ^ s)
let exn_of_char = function 'l' -> XLaspy | 'o' -> XOther | 'b' -> XBase | c -> failwith "exception class"
let rec nat_of_int n = if n <= 0 then O else S (nat_of_int (n - 1))
let outcome_of = function
  | "fault-l" -> OFault XLaspy | "fault-o" -> OFault XOther | "fault-b" -> OFault XBase
  | "ok" -> OOk | "empty" -> OEmpty | "badsig" -> OBadSig | "trunc" -> OTruncated | "badvlr" -> OBadVlr
  | "incompat" -> OIncompat | s -> failwith ("outcome " ^ s)
let mode_of = function 'r' -> MR | 'w' -> MW | 'a' -> MA | c -> failwith "mode"
let finfo_of s = match List.map z_of_string (String.split_on_char ',' s) with
  | [a; b; c; d; e; f; g; h; i; j] ->
    { f_offset = a; f_count = b; f_psize = c; f_minor = d; f_nevlrs = e; f_evlr_start = f; f_evlr_bytes = g; f_size = h;
      f_evlr_bad = (i <> Z0);
      f_laz = (if j = Z0 then None else if j = z_of_int 1 then Some XLaspy else if j = z_of_int 2 then Some XOther else Some XBase) }
  | _ -> failwith ("finfo " ^ s)
let rest t k = String.sub t k (String.length t - k)

let event_of t =
  match t.[0] with
  | 'O' -> (match String.split_on_char ':' (rest t 4) with
            | [""; o; f] | [o; f] -> EOpen (mode_of t.[1], bool_of_char t.[2], bool_of_char t.[3], finfo_of f, outcome_of o)
            | _ -> failwith ("open " ^ t))
  | 'P' -> EReadPoints (z_of_string (rest t 1))
  | 'S' -> (match String.split_on_char ':' (rest t 1) with
            | [p; w] -> ESeek (z_of_string p, z_of_string w) | _ -> failwith "seek")
  | 'A' -> EReadAll
  | 'Q' -> EPointSource
  | 'W' -> EWrite
  | 'B' -> EBodyRaises (exn_of_char t.[1])
  | 'F' -> EOpFault (exn_of_char t.[1])
  | 'Y' -> (match String.split_on_char ':' (rest t 2) with
            | [j; c] -> EEndFault (t.[1] = 'x', nat_of_int (int_of_string j), exn_of_char c.[0])
            | _ -> failwith ("endfault " ^ t))
  | 'M' -> (match String.split_on_char ':' (rest t 2) with
            | [""; c; f] | [c; f] -> EReadLasFault (bool_of_char t.[1], finfo_of f, exn_of_char c.[0])
            | _ -> failwith ("readlasfault " ^ t))
  | 'X' -> EExit
  | 'C' -> EClose
  | 'D' -> ELasDataWrite (outcome_of (rest t 1))
  | 'L' -> (match String.split_on_char ':' (rest t 2) with
            | [""; o; f] | [o; f] -> EReadLas (bool_of_char t.[1], finfo_of f, outcome_of o)
            | _ -> failwith ("readlas " ^ t))
  | 'Z' -> ERewind (if String.length t > 1 then z_of_string (rest t 1) else Z0)
  | 'G' -> EDrop
  | 'R' -> (* R<mode><T|F closefd>:<n | rT | rF | eT | eF: the point source the object has> *)
    let ps = (match rest t 4 with "n" -> PNone | "rT" -> PReal true | "rF" -> PReal false | "eT" -> PNull true | "eF" -> PNull false
                                | x -> failwith ("point source " ^ x)) in
    EReclose (mode_of t.[1], bool_of_char t.[2], ps)
  | 'U' -> EUseClosed (mode_of t.[1])
  | _ -> failwith ("event " ^ t)

let tok_of_res = function RDone -> "ok" | RRaised XLaspy -> "xl" | RRaised XOther -> "xo" | RRaised XBase -> "xb" | RIgnored -> "ig"
let tok_of_mode = function MR -> "r" | MW -> "w" | MA -> "a"
let tok_of_ps = function PNone -> "n-" | PReal b -> "r" ^ tok_of_bool b | PNull b -> "e" ^ tok_of_bool b
let tok_of_handle = function
  | None -> "-"
  | Some h -> tok_of_mode h.h_mode ^ tok_of_bool h.h_closefd ^ tok_of_ps h.h_ps
let tok_of_how = function
  | HFailedOpen -> "failed" | HPrecondition -> "precondition" | HExit -> "exit" | HClose -> "close"
  | HBodyRaised -> "body" | HLasDataWrite -> "lasdatawrite" | HCloseFault -> "closefault"
let tok_of_obs o = String.concat ":" [tok_of_how o.o_how; tok_of_bool o.o_closefd; tok_of_bool o.o_was_open; tok_of_bool o.o_closed]

let dispatch cmd a =
  match cmd with
  | "run" ->
    (* run <seekability T/F/A> <position of the stream when laspy first gets it> <events> *)
    let evs = List.map event_of (Array.to_list (Array.sub a 2 (Array.length a - 2))) in
    let tr = trace (init_at (cap_of_tok a.(0)) (z_of_string a.(1))) evs in
    let last = List.fold_left (fun _ (_, t) -> Some t) None tr in
    let log = match last with Some t -> t.st_log | None -> [] in
    String.concat " " (List.map (fun (r, t) ->
      String.concat "/" [tok_of_res r; tok_of_bool t.st_s.s_closed; string_of_z t.st_s.s_pos; tok_of_handle t.st_h]) tr)
    ^ " # " ^ (if log = [] then "-" else String.concat "," (List.map tok_of_obs log))
    ^ " # " ^ tok_of_bool (List.for_all obs_okb log)
  | "fail_exn" ->
    (match fail_exn (mode_of a.(0).[0]) (outcome_of a.(1)) with None -> "none" | Some XLaspy -> "xl" | Some XOther -> "xo" | Some XBase -> "xb")
  | _ -> "unknown-command " ^ cmd

let () =
  try
    while true do
      let line = input_line stdin in
      let toks = List.filter (fun s -> s <> "") (String.split_on_char ' ' line) in
      (match toks with
       | [] -> print_endline ""
       | cmd :: args ->
         (try print_endline (dispatch cmd (Array.of_list args))
          with ex -> print_endline ("driver-error " ^ Printexc.to_string ex)))
    done
  with End_of_file -> ()
