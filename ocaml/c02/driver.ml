(* Line-protocol driver around the extracted C02 codecs (model.ml): the specification's reference codec
   (Spec/AsprsPoints.v, Spec/Asprs.v layouts) and the same codec over laspy's generated tables.
   One command per input line, one result per output line. Tokens: decimal ints (any size), x<hex> byte strings,
   comma lists of ints (- = empty), records separated by ';', positional value lists separated by '|',
   extra-bytes descriptors  name:data_type:options  separated by ';' (- = none). *)
open Model

let rec pos_of_int n = if n = 1 then XH else if n land 1 = 0 then XO (pos_of_int (n lsr 1)) else XI (pos_of_int (n lsr 1))
let z_of_int n = if n = 0 then Z0 else if n > 0 then Zpos (pos_of_int n) else Zneg (pos_of_int (-n))
let rec nat_of_int n = if n <= 0 then O else S (nat_of_int (n - 1))
let rec int_of_nat = function O -> 0 | S k -> 1 + int_of_nat k
let ten = z_of_int 10
let z_of_string s =
  let neg = String.length s > 0 && s.[0] = '-' in
  let acc = ref Z0 in
  String.iteri (fun i c -> if not (i = 0 && neg) then
    acc := Z.add (Z.mul !acc ten) (z_of_int (Char.code c - 48))) s;
  if neg then Z.sub Z0 !acc else !acc
let rec pos_bits = function XH -> 1 | XO p | XI p -> 1 + pos_bits p
let rec int_of_pos = function XH -> 1 | XO p -> 2 * int_of_pos p | XI p -> 2 * int_of_pos p + 1
let billion = z_of_int 1000000000
let rec string_of_posz zv = (* zv >= 0 *)
  match zv with
  | Z0 -> "0"
  | Zpos p when pos_bits p < 62 -> string_of_int (int_of_pos p)
  | _ -> let (q, r) = Z.div_eucl zv billion in
         let rs = (match r with Z0 -> 0 | Zpos p -> int_of_pos p | Zneg _ -> 0) in
         string_of_posz q ^ Printf.sprintf "%09d" rs
let string_of_z = function
  | Zneg p -> "-" ^ string_of_posz (Zpos p)
  | zv -> string_of_posz zv
let int_of_z = function Z0 -> 0 | Zpos p -> int_of_pos p | Zneg p -> - (int_of_pos p)
let bool_of_tok s = (s = "T")
let tok_of_bool b = if b then "T" else "F"
let bytes_of_tok s =
  let n = (String.length s - 1) / 2 in
  List.init n (fun i -> z_of_int (int_of_string ("0x" ^ String.sub s (1 + 2 * i) 2)))
let tok_of_bytes l =
  let b = Buffer.create 64 in
  Buffer.add_char b 'x';
  List.iter (fun zv -> let v = int_of_z zv in
    if v < 0 || v > 255 then Buffer.add_string b "??" else Buffer.add_string b (Printf.sprintf "%02x" v)) l;
  Buffer.contents b
let zlist_of_tok s = if s = "-" then [] else List.map z_of_string (String.split_on_char ',' s)
let tok_of_zlist l = if l = [] then "-" else String.concat "," (List.map string_of_z l)
let err_name = function
  | EOverflow -> "EOverflow" | EIndex -> "EIndex" | ELaspy -> "ELaspy" | EValue -> "EValue"
  | EShort -> "EShort" | EFuel -> "EFuel" | EStop -> "EStop" | EOther -> "EOther"
let res f = function Ok a -> "ok " ^ f a | Err e -> "err " ^ err_name e



(* ---------- strings, values, association lists ---------- *)
let explode s = List.init (String.length s) (String.get s)
let ascii_of_char c = let n = Char.code c in let b i = (n lsr i) land 1 = 1 in
  Ascii (b 0, b 1, b 2, b 3, b 4, b 5, b 6, b 7)
let char_of_ascii = function Ascii (b0, b1, b2, b3, b4, b5, b6, b7) ->
  let v b i = if b then 1 lsl i else 0 in
  Char.chr (v b0 0 + v b1 1 + v b2 2 + v b3 3 + v b4 4 + v b5 5 + v b6 6 + v b7 7)
let coq_string_of s = List.fold_right (fun c acc -> String (ascii_of_char c, acc)) (explode s) EmptyString
let rec string_of_coq = function EmptyString -> "" | String (c, r) -> Stdlib.String.make 1 (char_of_ascii c) ^ string_of_coq r
let value_of_tok t = if String.length t > 0 && t.[0] = 'x' then VBytes (bytes_of_tok t) else VInt (z_of_string t)
let tok_of_value = function VInt v -> string_of_z v | VBytes b -> tok_of_bytes b
let split_on c s = if s = "-" || s = "" then [] else String.split_on_char c s
let assoc_of_tok t =
  List.map (fun e -> match String.index_opt e '=' with
    | Some i -> (coq_string_of (String.sub e 0 i), value_of_tok (String.sub e (i + 1) (String.length e - i - 1)))
    | None -> failwith ("bad assoc entry " ^ e)) (split_on '|' t)
let tok_of_assoc a = if a = [] then "-" else
  String.concat "|" (List.map (fun (n, v) -> string_of_coq n ^ "=" ^ tok_of_value v) a)

let ebs_all_of_tok t = if t = "-" then [] else
  List.map (fun e -> match Stdlib.String.split_on_char ':' e with
    | [n; dt; opt] -> ((coq_string_of n, z_of_string dt), z_of_string opt)
    | _ -> failwith ("bad extra-bytes descriptor " ^ e)) (Stdlib.String.split_on_char ';' t)
(* an entry with data_type -1 is not a descriptor: "options" undocumented bytes trail every record (allowed last only) *)
let is_trail ((_, dt), _) = (match dt with Zneg _ -> true | _ -> false)
let ebs_of_tok t = List.filter (fun e -> not (is_trail e)) (ebs_all_of_tok t)
let trail_of_tok t =
  let l = ebs_all_of_tok t in
  let rec last_only = function [] -> true | [_] -> true | e :: r -> (not (is_trail e)) && last_only r in
  if not (last_only l) then failwith "undocumented bytes before a descriptor" else
  List.fold_left (fun acc ((_, _), opt as e) -> if is_trail e then Z.add acc opt else acc) Z0 l
let rec chunk n l = if l = [] then [] else
  let rec take k l acc = if k = 0 then (List.rev acc, l) else match l with [] -> (List.rev acc, []) | x :: r -> take (k - 1) r (x :: acc) in
  let (a, b) = take n l [] in a :: chunk n b
let vals_of_tok t = if t = "-" then [] else List.map value_of_tok (Stdlib.String.split_on_char '|' t)
let names_tok l = Stdlib.String.concat "|" (List.map string_of_coq (layout_names l))
let dec_out (a, rest) = tok_of_assoc a ^ " " ^ string_of_int (List.length rest)

(* decode a run of records: every record must decode, results joined by ';' *)
let dec_many dec size_r bytes =
  match size_r with
  | Err e -> "err " ^ err_name e
  | Ok sz ->
    let n = int_of_z sz in
    if n <= 0 then "err EValue" else
    let recs = chunk n bytes in
    let rec go acc = function
      | [] -> "ok " ^ (if acc = [] then "-" else Stdlib.String.concat ";" (List.rev acc))
      | r :: rest -> (match dec r with Ok vs -> go (tok_of_zlist vs :: acc) rest | Err e -> "err " ^ err_name e) in
    go [] recs
let enc_many enc t =
  let recs = if t = "-" then [] else Stdlib.String.split_on_char ';' t in
  let rec go acc = function
    | [] -> "ok " ^ tok_of_bytes (List.concat (List.rev acc))
    | r :: rest -> (match enc (zlist_of_tok r) with Ok bs -> go (bs :: acc) rest | Err e -> "err " ^ err_name e) in
  go [] recs

(* a run of n (E)VLRs: header by the specification's decoder, payload = the next record_length bytes *)
let dec_vlrs e n bytes =
  let rec take k l acc = if k = 0 then (List.rev acc, l, true) else match l with [] -> (List.rev acc, [], false) | x :: r -> take (k - 1) r (x :: acc) in
  let rec go k bytes acc consumed =
    if k = 0 then "ok " ^ (if acc = [] then "-" else Stdlib.String.concat ";" (List.rev acc)) ^ " " ^ string_of_int consumed else
    let total = List.length bytes in
    let (assoc, rest) = spec_dec_vlr_header e bytes in
    let hl = total - List.length rest in
    if hl <> (if e then 60 else 54) then "err EShort" else
    let rl = (match List.find_opt (fun (n, _) -> string_of_coq n = "record_length") assoc with
              | Some (_, VInt v) -> int_of_z v | _ -> -1) in
    if rl < 0 then "err EValue" else
    let (payload, rest', full) = take rl rest [] in
    if not full then "err EShort" else
    go (k - 1) rest' ((tok_of_assoc assoc ^ "#" ^ tok_of_bytes payload) :: acc) (consumed + hl + rl) in
  go n bytes [] 0

(* dimensions as DimensionInfo holds them:  name:kind:num_bits:num_elements:T|F:x<hex of the description>:<offsets>:<scales>  joined
   by ';' (- = none); offsets / scales: N = None, e = an empty array, else a comma list of binary64 bit patterns *)
let string_of_hextok t = Stdlib.String.concat "" (List.map (fun zv -> Stdlib.String.make 1 (Char.chr (int_of_z zv))) (bytes_of_tok t))
let opt_list_of_tok t = if t = "N" then None else if t = "e" then Some [] else Some (zlist_of_tok t)
let dims_of_tok t = if t = "-" then [] else
  List.map (fun e -> match Stdlib.String.split_on_char ':' e with
    | [n; k; b; ne; st; ds; o; s] ->
      (((((((coq_string_of n, z_of_string k), z_of_string b), z_of_string ne), st = "T"),
         coq_string_of (string_of_hextok ds)), opt_list_of_tok o), opt_list_of_tok s)
    | _ -> failwith ("bad dimension " ^ e)) (Stdlib.String.split_on_char ';' t)
let grid_of_tok t = if t = "-" then [] else List.map zlist_of_tok (Stdlib.String.split_on_char ';' t)
let tok_of_grid g = if g = [] then "-" else Stdlib.String.concat ";" (List.map tok_of_zlist g)
let sel_of_tok t = if t = "-" then [] else
  List.map (fun e -> match Stdlib.String.split_on_char ':' e with
    | [i; k; v] -> ((nat_of_int (int_of_string i), nat_of_int (int_of_string k)), z_of_string v)
    | _ -> failwith ("bad assignment " ^ e)) (Stdlib.String.split_on_char ';' t)

let dispatch cmd a =
  let zi i = z_of_string a.(i) in
  let minor i = nat_of_int (int_of_string a.(i)) in
  let ext i = (a.(i) = "T") in
  match cmd with
  | "names" -> res (fun l -> Stdlib.String.concat "," (List.map string_of_coq l)) (spec_leaf_names_rl (zi 0) (ebs_of_tok a.(1)) (trail_of_tok a.(1)))
  | "psize" -> res string_of_z (spec_point_size_rl (zi 0) (ebs_of_tok a.(1)) (trail_of_tok a.(1)))
  | "dec" -> let f = zi 0 and ebs = ebs_of_tok a.(1) and t = trail_of_tok a.(1) in
             dec_many (spec_dec_point_rl f ebs t) (spec_point_size_rl f ebs t) (bytes_of_tok a.(2))
  | "gdec" -> let f = zi 0 and ebs = ebs_of_tok a.(1) and t = trail_of_tok a.(1) in
              dec_many (gen_dec_point_rl f ebs t) (spec_point_size_rl f ebs t) (bytes_of_tok a.(2))
  | "enc" -> enc_many (spec_enc_point_rl (zi 0) (ebs_of_tok a.(1)) (trail_of_tok a.(1))) a.(2)
  | "genc" -> enc_many (gen_enc_point_rl (zi 0) (ebs_of_tok a.(1)) (trail_of_tok a.(1))) a.(2)
  (* resolve <format> <descriptors> <T|F has an Extra Bytes VLR> <record length of the header>
     -> laspy's layout of the file's records (model of LasHeader.read_from): number of leaves, record length; and the specification's *)
  | "resolve" -> let out r = res (fun (n, l) -> string_of_z n ^ " " ^ string_of_z l) r in
                 out (gen_record_summary (zi 0) (ebs_of_tok a.(1)) (a.(2) = "T") (zi 3)) ^ " / " ^
                 out (spec_record_summary (zi 0) (ebs_of_tok a.(1)) (a.(2) = "T") (zi 3))
  (* dec_at <format> <descriptors> <offset_to_point_data> <record length> <number of records> <file>: the specification's
     decoder on a file, record i cut out at offset + i * record length (Model/RecordPlace.v) *)
  | "dec_at" -> let f = zi 0 and ebs = ebs_of_tok a.(1) and t = trail_of_tok a.(1) in
                (match spec_dec_records f ebs t (bytes_of_tok a.(5)) (zi 2) (zi 3) (zi 4) with
                 | Ok recs -> "ok " ^ (if recs = [] then "-" else Stdlib.String.concat ";" (List.map tok_of_zlist recs))
                 | Err e -> "err " ^ err_name e)
  (* append <offset> <count> <record length> <minor> <number_of_evlrs> <start_of_first_evlr> <file> <chunk;chunk;...>: the file after
     LasAppender.__init__ and one append_points call per chunk (x<hex> of whole records, x = no record) *)
  | "append" -> let ps = int_of_z (zi 2) in
                if ps <= 0 then "err EValue" else
                let chunks = List.map (fun c -> chunk ps (bytes_of_tok c)) (split_on ';' a.(7)) in
                tok_of_bytes (append_session (bytes_of_tok a.(6)) (zi 0) (zi 1) (zi 2) (zi 3) (zi 4) (zi 5) chunks)
  (* edits <offset> <record length> <file> <i:x<record>;...>: records replaced in place, one after the other *)
  | "edits" -> let file = List.fold_left (fun file e -> match Stdlib.String.split_on_char ':' e with
                   | [i; r] -> edit_record file (zi 0) (zi 1) (z_of_string i) (bytes_of_tok r)
                   | _ -> failwith ("bad edit " ^ e)) (bytes_of_tok a.(2)) (split_on ';' a.(3)) in
               tok_of_bytes file
  (* accepts <header format> <header dimensions> <record format> <record dimensions>: the hand-over of a record to a header
     (LasWriter.write_points, LasAppender.append_points, LasData(header, points), LasData.points = ..) *)
  | "accepts" -> tok_of_bool (handover_accepts (zi 0) (dims_of_tok a.(1)) (zi 2) (dims_of_tok a.(3)))
  (* ebs_of_dims <dimensions>: the Extra Bytes descriptors the header declares for them *)
  | "ebs_of_dims" -> (match ebs_of_dims (dims_of_tok a.(0)) with
                      | Some l -> "ok " ^ (if l = [] then "-" else Stdlib.String.concat ";" (List.map (fun ((n, dt), opt) ->
                                    string_of_coq n ^ ":" ^ string_of_z dt ^ ":" ^ string_of_z opt) l))
                      | None -> "none")
  (* assign <rows of stored values> <point:element:value;...>: the stored values of one extra dimension after the assignments *)
  | "assign" -> tok_of_grid (assign_elems (grid_of_tok a.(0)) (sel_of_tok a.(1)))
  (* wevlr <minor> <start_of_first_evlr and number_of_evlrs of the header handed to the writer> <end of the points> <k | ->: the EVLR
     fields of the header a LasWriter writes when write_evlrs is called with k records (-: not called) *)
  | "wevlr" -> (match writer_evlr_fields (zi 0) (zi 1) (zi 2) (zi 3) (if a.(4) = "-" then None else Some (zi 4)) with
                | Some (s, c) -> "ok " ^ string_of_z s ^ " " ^ string_of_z c
                | None -> "refused")
  | "pf_sync" -> tok_of_bool point_format_writers_sync
  | "legacy_ok" -> tok_of_bool (spec_legacy_ok (zi 0) (zi 1) (zi 2))
  | "hdr_names" -> names_tok (spec_hdr_layout (minor 0))
  | "dec_hdr" -> dec_out (spec_dec_header (minor 0) (bytes_of_tok a.(1)))
  | "enc_hdr" -> res tok_of_bytes (spec_enc_header (minor 0) (vals_of_tok a.(1)))
  | "vlr_names" -> names_tok (spec_vlr_hdr_layout (ext 0))
  | "dec_vlr" -> dec_out (spec_dec_vlr_header (ext 0) (bytes_of_tok a.(1)))
  | "dec_vlrs" -> dec_vlrs (ext 0) (int_of_string a.(1)) (bytes_of_tok a.(2))
  | "enc_vlr" -> res tok_of_bytes (spec_enc_vlr_header (ext 0) (vals_of_tok a.(1)))
  (* payloads of the other records the specification lays out: known_names / dec_known / enc_known <lookup|waveform|geokeys_header|geokey> ..;
     lookup <payload>: the classification lookup table parse_record_data builds (class:description;..), none = not a whole number of records *)
  | "known_names" -> Stdlib.String.concat "|" (List.map string_of_coq (spec_known_names (coq_string_of a.(0))))
  | "dec_known" -> (match spec_dec_known (coq_string_of a.(0)) (bytes_of_tok a.(1)) with
                    | Ok r -> dec_out r
                    | Err e -> "err " ^ err_name e)
  | "enc_known" -> res tok_of_bytes (spec_enc_known (coq_string_of a.(0)) (vals_of_tok a.(1)))
  | "lookup" -> (match lookup_parse (bytes_of_tok a.(0)) with
                 | Some t -> "ok " ^ (if t = [] then "-" else Stdlib.String.concat ";" (List.map (fun (c, d) -> string_of_z c ^ ":" ^ tok_of_bytes d) t))
                 | None -> "none")
  | "ebd_names" -> names_tok spec_eb_descriptor
  | "dec_ebd" -> dec_out (spec_dec_eb_descriptor (bytes_of_tok a.(0)))
  | "enc_ebd" -> res tok_of_bytes (spec_enc_eb_descriptor (vals_of_tok a.(0)))
  | _ -> "unknown-command " ^ cmd

let () =
  try
    while true do
      let line = input_line stdin in
      let toks = List.filter (fun s -> s <> "") (Stdlib.String.split_on_char ' ' line) in
      (match toks with
       | [] -> print_endline ""
       | cmd :: args ->
         (try print_endline (dispatch cmd (Array.of_list args))
          with ex -> print_endline ("driver-error " ^ Printexc.to_string ex)))
    done
  with End_of_file -> ()
