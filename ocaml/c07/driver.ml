(* Line-protocol driver around the extracted attribute-assignment model of C07 (ocaml/c07/model.ml, from Model/HeaderAttr.v).
   One command per input line, one result per output line.
     hrun2 <v.maj> <v.min> <fmt> <op> ...
        op = N<v|->:<f|-> V<maj.min> F<f> B<maj.min>:<f> C<f|->:<v|-> W      the API operations of Model/HeaderOps.v
           | X<a>:<x>   header.<attribute> = value; a = v (version) | f (point_format) | r (read-only property) | p (any other
                        attribute); x = v<maj.min> (a version) | f<id> (a point format) | o (anything else)
        -> per op  ok:<maj.min>:<fmt>  |  err:<maj.min>:<fmt>     (the state after the op)
     route_computed <field name> ...   -> T | F per name (Model/HeaderRoute.v)
     sync_computed <minor> <name> ...  -> T | F per name: routes through LasData.update_header (waveform pointer computed from 1.4 on)
     route_computed_names              -> the names, space separated *)
open Model

let rec pos_of_int n = if n = 1 then XH else if n land 1 = 0 then XO (pos_of_int (n lsr 1)) else XI (pos_of_int (n lsr 1))
let z_of_int n = if n = 0 then Z0 else if n > 0 then Zpos (pos_of_int n) else Zneg (pos_of_int (-n))
let rec nat_of_int n = if n <= 0 then O else S (nat_of_int (n - 1))
let rec int_of_nat = function O -> 0 | S k -> 1 + int_of_nat k
let ten = z_of_int 10
let z_of_string s =
  let neg = String.length s > 0 && s.[0] = '-' in
  let acc = ref Z0 in
  String.iteri (fun i c -> if not (i = 0 && neg) then
    acc := Z.add (Z.mul !acc ten) (z_of_int (Char.code c - 48))) s;
  if neg then Z.sub Z0 !acc else !acc
let rec pos_bits = function XH -> 1 | XO p | XI p -> 1 + pos_bits p
let rec int_of_pos = function XH -> 1 | XO p -> 2 * int_of_pos p | XI p -> 2 * int_of_pos p + 1
let billion = z_of_int 1000000000
let rec string_of_posz zv = (* zv >= 0 *)
  match zv with
  | Z0 -> "0"
  | Zpos p when pos_bits p < 62 -> string_of_int (int_of_pos p)
  | _ -> let (q, r) = Z.div_eucl zv billion in
         let rs = (match r with Z0 -> 0 | Zpos p -> int_of_pos p | Zneg _ -> 0) in
         string_of_posz q ^ Printf.sprintf "%09d" rs
let string_of_z = function
  | Zneg p -> "-" ^ string_of_posz (Zpos p)
  | zv -> string_of_posz zv
let int_of_z = function Z0 -> 0 | Zpos p -> int_of_pos p | Zneg p -> - (int_of_pos p)
let bool_of_tok s = (s = "T")
let tok_of_bool b = if b then "T" else "F"
let bytes_of_tok s =
  let n = (String.length s - 1) / 2 in
  List.init n (fun i -> z_of_int (int_of_string ("0x" ^ String.sub s (1 + 2 * i) 2)))
let tok_of_bytes l =
  let b = Buffer.create 64 in
  Buffer.add_char b 'x';
  List.iter (fun zv -> let v = int_of_z zv in
    if v < 0 || v > 255 then Buffer.add_string b "??" else Buffer.add_string b (Printf.sprintf "%02x" v)) l;
  Buffer.contents b
let zlist_of_tok s = if s = "-" then [] else List.map z_of_string (String.split_on_char ',' s)
let tok_of_zlist l = if l = [] then "-" else String.concat "," (List.map string_of_z l)



(* Coq strings (ExtrOcamlBasic only: string = EmptyString | String of ascii * string) *)
let explode s = List.init (Stdlib.String.length s) (Stdlib.String.get s)
let ascii_of_char c = let n = Char.code c in let b i = (n lsr i) land 1 = 1 in
  Ascii (b 0, b 1, b 2, b 3, b 4, b 5, b 6, b 7)
let char_of_ascii = function Ascii (b0, b1, b2, b3, b4, b5, b6, b7) ->
  let v b i = if b then 1 lsl i else 0 in
  Char.chr (v b0 0 + v b1 1 + v b2 2 + v b3 3 + v b4 4 + v b5 5 + v b6 6 + v b7 7)
let coq_string_of s = List.fold_right (fun c acc -> String (ascii_of_char c, acc)) (explode s) EmptyString
let rec string_of_coq = function EmptyString -> "" | String (c, r) -> Stdlib.String.make 1 (char_of_ascii c) ^ string_of_coq r

let dispatch cmd a =
  let zi i = z_of_string a.(i) in
  match cmd with
  | "route_computed" ->
    (* route_computed <field name> ... -> T | F per name: does a writing route compute the field itself (Model/HeaderRoute.v)? *)
    Stdlib.String.concat " " (List.map (fun n -> if route_computed (coq_string_of n) then "T" else "F") (Array.to_list a))
  | "sync_computed" ->
    (* sync_computed <version minor> <field name> ... -> T | F per name: computed by a route that goes through LasData.update_header *)
    Stdlib.String.concat " " (List.map (fun n -> if sync_computed (zi 0) (coq_string_of n) then "T" else "F") (List.tl (Array.to_list a)))
  | "route_computed_names" -> Stdlib.String.concat " " (List.map string_of_coq route_computed_names)
  | "hrun2" ->
    let ver t = match String.split_on_char '.' t with [x; y] -> (z_of_string x, z_of_string y) | _ -> failwith "version" in
    let optv t = if t = "-" then None else Some (ver t) in
    let optf t = if t = "-" then None else Some (z_of_string t) in
    let parse t = let body = String.sub t 1 (String.length t - 1) in
      match t.[0] with
      | 'N' -> (match String.split_on_char ':' body with [v; f] -> HApi (HNew (optv v, optf f)) | _ -> failwith "N")
      | 'V' -> HApi (HSetVersion (ver body))
      | 'F' -> HApi (HSetFormat (z_of_string body))
      | 'B' -> (match String.split_on_char ':' body with [v; f] -> HApi (HSetBoth (ver v, z_of_string f)) | _ -> failwith "B")
      | 'C' -> (match String.split_on_char ':' body with [f; v] -> HApi (HConvert (optf f, optv v)) | _ -> failwith "C")
      | 'X' -> (match String.split_on_char ':' body with
                | [at; x] ->
                  let attr = (match at with "v" -> AVersion | "f" -> APointFormat | "r" -> AReadOnly | _ -> APlain) in
                  let rest = String.sub x 1 (String.length x - 1) in
                  let v = (match x.[0] with 'v' -> XVersion (ver rest) | 'f' -> XFormat (z_of_string rest) | _ -> XOther) in
                  HAssign (attr, v)
                | _ -> failwith "X")
      | _ -> HApi HOpenWriter in
    let s0 = { hs_v = (zi 0, zi 1); hs_f = zi 2 } in
    let ops = List.map parse (Array.to_list (Array.sub a 3 (Array.length a - 3))) in
    String.concat " " (List.map (fun (ok, s) ->
      (if ok then "ok:" else "err:") ^ string_of_z (fst s.hs_v) ^ "." ^ string_of_z (snd s.hs_v) ^ ":" ^ string_of_z s.hs_f) (htrace2 s0 ops))
  | _ -> "unknown-command " ^ cmd

let () =
  try
    while true do
      let line = input_line stdin in
      let toks = List.filter (fun s -> s <> "") (String.split_on_char ' ' line) in
      (match toks with
       | [] -> print_endline ""
       | cmd :: args ->
         (try print_endline (dispatch cmd (Array.of_list args))
          with ex -> print_endline ("driver-error " ^ Printexc.to_string ex)))
    done
  with End_of_file -> ()
