(* Line-protocol driver around the extracted binary64 formula (model.ml, from coq/ExtractAp.v).
   One command per input line, one result per output line; integers are decimal (any size):
     ap64 <scale bits> <offset bits> <X>   -> bit pattern of  X * scale + offset  in binary64
     good <scale bits> <offset bits>       -> T / F   (good_scaling)
     dec <bits>                            -> n/d  (the rational value)  or  nan  (inf, nan, not a 64-bit pattern)
     enc <n> <d>                           -> bit pattern of the value n/d (d > 0) *)
open Model

let rec pos_of_int n = if n = 1 then XH else if n land 1 = 0 then XO (pos_of_int (n lsr 1)) else XI (pos_of_int (n lsr 1))
let z_of_int n = if n = 0 then Z0 else if n > 0 then Zpos (pos_of_int n) else Zneg (pos_of_int (-n))
let ten = z_of_int 10
let z_of_string s =
  let neg = String.length s > 0 && s.[0] = '-' in
  let acc = ref Z0 in
  String.iteri (fun i c -> if not (i = 0 && neg) then
    acc := Z.add (Z.mul !acc ten) (z_of_int (Char.code c - 48))) s;
  if neg then Z.sub Z0 !acc else !acc
let rec pos_bits = function XH -> 1 | XO p | XI p -> 1 + pos_bits p
let rec int_of_pos = function XH -> 1 | XO p -> 2 * int_of_pos p | XI p -> 2 * int_of_pos p + 1
let billion = z_of_int 1000000000
let rec string_of_posz zv = (* zv >= 0 *)
  match zv with
  | Z0 -> "0"
  | Zpos p when pos_bits p < 62 -> string_of_int (int_of_pos p)
  | _ -> let (q, r) = Z.div_eucl zv billion in
         let rs = (match r with Z0 -> 0 | Zpos p -> int_of_pos p | Zneg _ -> 0) in
         string_of_posz q ^ Printf.sprintf "%09d" rs
let string_of_z = function
  | Zneg p -> "-" ^ string_of_posz (Zpos p)
  | zv -> string_of_posz zv
let tok_of_bool b = if b then "T" else "F"

let handle line =
  match String.split_on_char ' ' line with
  | ["ap64"; s; o; x] -> string_of_z (ap64 (z_of_string s) (z_of_string o) (z_of_string x))
  | ["good"; s; o] -> tok_of_bool (good_scaling (z_of_string s) (z_of_string o))
  | ["dec"; b] -> (match fl_of_bits (z_of_string b) with
                   | None -> "nan"
                   | Some q -> string_of_z q.qnum ^ "/" ^ string_of_z (Zpos q.qden))
  | ["enc"; n; d] -> (match z_of_string d with
                      | Zpos p -> string_of_z (bits_of_fl (Some { qnum = z_of_string n; qden = p }))
                      | _ -> "bad denominator")
  | _ -> "bad command"

let () =
  try
    while true do
      let line = input_line stdin in
      print_string (try handle line with ex -> "exception " ^ Printexc.to_string ex);
      print_newline ()
    done
  with End_of_file -> ()
