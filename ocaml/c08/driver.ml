(* Line-protocol driver around the extracted C08 model (model.ml): known record types, vlr_factory, list codec.
   One command per input line, one result per output line. Tokens: decimal ints, T/F, x<hex> byte strings. *)
open Model

let rec pos_of_int n = if n = 1 then XH else if n land 1 = 0 then XO (pos_of_int (n lsr 1)) else XI (pos_of_int (n lsr 1))
let z_of_int n = if n = 0 then Z0 else if n > 0 then Zpos (pos_of_int n) else Zneg (pos_of_int (-n))
let rec nat_of_int n = if n <= 0 then O else S (nat_of_int (n - 1))
let rec int_of_nat = function O -> 0 | S k -> 1 + int_of_nat k
let ten = z_of_int 10
let z_of_string s =
  let neg = String.length s > 0 && s.[0] = '-' in
  let acc = ref Z0 in
  String.iteri (fun i c -> if not (i = 0 && neg) then
    acc := Z.add (Z.mul !acc ten) (z_of_int (Char.code c - 48))) s;
  if neg then Z.sub Z0 !acc else !acc
let rec pos_bits = function XH -> 1 | XO p | XI p -> 1 + pos_bits p
let rec int_of_pos = function XH -> 1 | XO p -> 2 * int_of_pos p | XI p -> 2 * int_of_pos p + 1
let billion = z_of_int 1000000000
let rec string_of_posz zv = (* zv >= 0 *)
  match zv with
  | Z0 -> "0"
  | Zpos p when pos_bits p < 62 -> string_of_int (int_of_pos p)
  | _ -> let (q, r) = Z.div_eucl zv billion in
         let rs = (match r with Z0 -> 0 | Zpos p -> int_of_pos p | Zneg _ -> 0) in
         string_of_posz q ^ Printf.sprintf "%09d" rs
let string_of_z = function
  | Zneg p -> "-" ^ string_of_posz (Zpos p)
  | zv -> string_of_posz zv
let int_of_z = function Z0 -> 0 | Zpos p -> int_of_pos p | Zneg p -> - (int_of_pos p)
let bool_of_tok s = (s = "T")
let tok_of_bool b = if b then "T" else "F"
let bytes_of_tok s =
  let n = (String.length s - 1) / 2 in
  List.init n (fun i -> z_of_int (int_of_string ("0x" ^ String.sub s (1 + 2 * i) 2)))
let tok_of_bytes l =
  let b = Buffer.create 64 in
  Buffer.add_char b 'x';
  List.iter (fun zv -> let v = int_of_z zv in
    if v < 0 || v > 255 then Buffer.add_string b "??" else Buffer.add_string b (Printf.sprintf "%02x" v)) l;
  Buffer.contents b
let zlist_of_tok s = if s = "-" then [] else List.map z_of_string (String.split_on_char ',' s)
let tok_of_zlist l = if l = [] then "-" else String.concat "," (List.map string_of_z l)
let err_name = function
  | EOverflow -> "EOverflow" | EIndex -> "EIndex" | ELaspy -> "ELaspy" | EValue -> "EValue"
  | EShort -> "EShort" | EFuel -> "EFuel" | EStop -> "EStop" | EOther -> "EOther"
let res f = function Ok a -> "ok " ^ f a | Err e -> "err " ^ err_name e


(* ---------- glue ---------- *)
let explode s = List.init (String.length s) (String.get s)
let char_of_ascii = function Ascii (b0, b1, b2, b3, b4, b5, b6, b7) ->
  let v b i = if b then 1 lsl i else 0 in
  Char.chr (v b0 0 + v b1 1 + v b2 2 + v b3 3 + v b4 4 + v b5 5 + v b6 6 + v b7 7)
let rec string_of_coq = function EmptyString -> "" | String (c, r) -> Stdlib.String.make 1 (char_of_ascii c) ^ string_of_coq r
let split_on c s = if s = "-" || s = "" then [] else String.split_on_char c s
let vlr_of_tok t = match String.split_on_char ':' t with
  | [u; r; d; p] -> { v_uid = bytes_of_tok u; v_rid = z_of_string r; v_desc = bytes_of_tok d; v_data = bytes_of_tok p }
  | _ -> failwith ("bad vlr " ^ t)
let vlrs_of_tok t = List.map vlr_of_tok (split_on '|' t)
let hex l = tok_of_bytes l
let hexcat ll = tok_of_bytes (List.concat ll)
let commas f l = if l = [] then "-" else String.concat "," (List.map f l)

let content_tok = function
  | CLookup l -> "L" ^ commas (fun (k, d) -> string_of_z k ^ "=" ^ hex d) l
  | CLasZip d -> "Z" ^ hex d
  | CExtra c -> "E" ^ string_of_int (List.length c) ^ "/" ^ hexcat c
  | CWave r -> "W" ^ hex r
  | CGeoKeys g -> "G" ^ hex g.gk_head ^ "/" ^ string_of_z g.gk_count ^ "/" ^ string_of_int (List.length g.gk_keys) ^ "/" ^ hexcat g.gk_keys
  | CDoubles c -> "D" ^ string_of_int (List.length c) ^ "/" ^ hexcat c
  | CAscii ss -> "A" ^ commas hex ss
  | CWkt s -> "T" ^ hex s
let ser_tok c = match ser_content c with Ok b -> hex b | Err e -> "!" ^ err_name e
let rec_tok = function
  | KRaw v -> String.concat ":" ["raw"; hex v.v_uid; string_of_z v.v_rid; hex v.v_desc; hex v.v_data]
  | KKnown (cls, u, r, d, c) -> String.concat ":" [string_of_coq cls; hex u; string_of_z r; hex d; content_tok c; ser_tok c]
  | KUnmodelled (cls, v) -> String.concat ":" ["unmodelled/" ^ string_of_coq cls; hex v.v_uid; string_of_z v.v_rid; hex v.v_desc; hex v.v_data]
let recs_tok l = if l = [] then "-" else String.concat "|" (List.map rec_tok l)
let class_tok = function None -> "none" | Some (cls, lo) -> string_of_coq cls ^ "/" ^ string_of_z lo
let lookup_of_tok t = List.map (fun e -> match String.index_opt e '=' with
    | Some i -> (z_of_string (String.sub e 0 i), bytes_of_tok (String.sub e (i + 1) (String.length e - i - 1)))
    | None -> failwith ("bad lookup entry " ^ e)) (split_on ',' t)

(* content tokens (as printed by content_tok) back to a content; entries are cut at the sizes of the generated module *)
let rec chunks w l =
  if l = [] then [] else
  let rec take n l = if n <= 0 then ([], l) else (match l with [] -> ([], []) | x :: r -> let (a, b) = take (n - 1) r in (x :: a, b)) in
  let (a, b) = take w l in a :: chunks w b
let coq_of_string s =
  let ascii_of_char c = let n = Char.code c in let b i = (n lsr i) land 1 = 1 in Ascii (b 0, b 1, b 2, b 3, b 4, b 5, b 6, b 7) in
  List.fold_right (fun c acc -> String (ascii_of_char c, acc)) (explode s) EmptyString
let content_of_tok t =
  let body = String.sub t 1 (String.length t - 1) in
  let parts = String.split_on_char '/' body in
  match t.[0], parts with
  | 'L', _ -> CLookup (lookup_of_tok body)
  | 'Z', _ -> CLasZip (bytes_of_tok body)
  | 'E', [_; h] -> CExtra (chunks (int_of_nat eb_struct_size) (bytes_of_tok h))
  | 'W', _ -> CWave (bytes_of_tok body)
  | 'G', [h; c; _; ks] -> CGeoKeys { gk_head = bytes_of_tok h; gk_count = z_of_string c; gk_keys = chunks (int_of_nat gk_entry_size) (bytes_of_tok ks) }
  | 'D', [_; h] -> CDoubles (chunks (int_of_nat double_size) (bytes_of_tok h))
  | 'A', _ -> CAscii (List.map bytes_of_tok (split_on ',' body))
  | 'T', _ -> CWkt (bytes_of_tok body)
  | _ -> failwith ("bad content " ^ t)
(* an item of a list a user holds: k<record> went through the reader; e<class>:<uid>:<rid>:<desc>:<content> is a parsed
   record saying <content>; anything else a raw record *)
let item_of_tok t =
  if String.length t > 0 && t.[0] = 'k' then vlr_factory (vlr_of_tok (String.sub t 1 (String.length t - 1)))
  else if String.length t > 0 && t.[0] = 'e' then
    (match String.split_on_char ':' (String.sub t 1 (String.length t - 1)) with
     | [cls; u; r; d; c] -> KKnown (coq_of_string cls, bytes_of_tok u, z_of_string r, bytes_of_tok d, content_of_tok c)
     | _ -> failwith ("bad item " ^ t))
  else KRaw (vlr_of_tok t)
let items_of_tok t = List.map item_of_tok (split_on '|' t)

let run line =
  match String.split_on_char ' ' (String.trim line) with
  | ["op"; m; l; g] ->
      (* a method / property setter of LasHeader on a header whose VLR list is l; g = the extra-bytes record generated
         from the point format (none: no extra dimensions) *)
      recs_tok (header_op (coq_of_string m) (items_of_tok l) (if g = "none" then None else Some (item_of_tok g)))
  | ["edit"; t] ->
      (* a parsed record saying the given content: how it shows (with its serialisation), what the next reader hands out *)
      let k = item_of_tok t in
      rec_tok k ^ " " ^ (match reread k with Ok k2 -> rec_tok k2 | Err er -> "err " ^ err_name er)
  | ["wk"; e; l] ->
      (* a list a user holds written by VLRList.write_to and read again *)
      let ext = bool_of_tok e in
      let kl = items_of_tok l in
      (match write_known ext kl with
       | Err er -> "err " ^ err_name er
       | Ok bs -> (match read_known ext (nat_of_int (List.length kl)) bs with
           | Err er -> "rerr " ^ err_name er
           | Ok (ks, _) -> "ok " ^ hex bs ^ " " ^ recs_tok ks))
  | ["factory"; v] -> rec_tok (vlr_factory (vlr_of_tok v))
  | ["rt"; e; l] ->
      let ext = bool_of_tok e in
      let vl = vlrs_of_tok l in
      let n = nat_of_int (List.length vl) in
      (match enc_vlrs ext vl with
       | Err er -> "err " ^ err_name er
       | Ok bs ->
         (match read_known ext n bs with
          | Err er -> "rerr " ^ err_name er
          | Ok (ks, _) ->
            let second = (match write_known ext ks with
              | Err er -> "w2err:" ^ err_name er
              | Ok bs2 -> (match read_known ext n bs2 with
                  | Err er -> "r2err:" ^ err_name er
                  | Ok (ks2, _) -> "w2ok:" ^ hex bs2 ^ ":" ^ (if ks2 = ks then "same" else "differ"))) in
            "ok " ^ hex bs ^ " " ^ recs_tok ks ^ " " ^ second))
  | ["read"; e; n; b] ->
      (match read_known (bool_of_tok e) (nat_of_int (int_of_string n)) (bytes_of_tok b) with
       | Err er -> "err " ^ err_name er
       | Ok (ks, rest) -> "ok " ^ recs_tok ks ^ " " ^ string_of_int (List.length rest))
  | ["file"; hs; v14; sn; se; vl; npts; evl] ->
      (* one generation of a file: the lists a user holds (k-prefixed records went through the reader) written by a
         writer whose header announces sn EVLRs at se, then read *)
      let kl t = items_of_tok t in
      let hsz = z_of_string hs in
      let pts = List.init (int_of_string npts) (fun _ -> Z0) in
      let stale = { l_nvlr = Z0; l_offset = Z0; l_nevlr = z_of_string sn; l_estart = z_of_string se } in
      (match write_file_known hsz (bool_of_tok v14) stale (kl vl) pts (if evl = "none" then None else Some (kl evl)) with
       | Err er -> "err " ^ err_name er
       | Ok (loc, body) ->
         (match read_file hsz (bool_of_tok v14) loc body with
          | Err er -> "rerr " ^ err_name er
          | Ok (ks, eo) ->
            let rec drop n l = if n <= 0 then l else (match l with [] -> [] | _ :: r -> drop (n - 1) r) in
            let rec take n l = if n <= 0 then [] else (match l with [] -> [] | x :: r -> x :: take (n - 1) r) in
            let vb = take (int_of_z loc.l_offset - int_of_z hsz) body in
            let eb = if int_of_z loc.l_nevlr > 0 then drop (int_of_z loc.l_estart - int_of_z hsz) body else [] in
            String.concat " " ["ok"; string_of_z loc.l_nvlr; string_of_z loc.l_offset; string_of_z loc.l_nevlr;
                               string_of_z loc.l_estart; string_of_int (List.length body); hex vb; hex eb; recs_tok ks;
                               (match eo with None -> "none" | Some l -> recs_tok l)]))
  | ["readfile"; hs; v14; nv; off; ne; es; pos; b] ->
      (* a file as it is (written by anything): header fields that locate the records + everything behind the header;
         read by a source that can seek, and by one that can only be read forward and stands at pos *)
      let hsz = z_of_string hs in
      let loc = { l_nvlr = z_of_string nv; l_offset = z_of_string off; l_nevlr = z_of_string ne; l_estart = z_of_string es } in
      let body = bytes_of_tok b in
      let show = function
        | Err er -> "rerr " ^ err_name er
        | Ok (ks, eo) -> "ok " ^ recs_tok ks ^ " " ^ (match eo with None -> "none" | Some l -> recs_tok l) in
      show (read_file hsz (bool_of_tok v14) loc body) ^ " # " ^ show (read_file_from hsz (bool_of_tok v14) loc (z_of_string pos) body)
  | ["append"; hs; v14; nv; off; ne; es; npts; b; np; evl] ->
      (* an append session on the file (located as above, npts bytes of points): np = the bytes appended, evl = the
         list the appender holds at close (k-prefixed records were read from the file) or none *)
      let kl t = items_of_tok t in
      let hsz = z_of_string hs in
      let loc = { l_nvlr = z_of_string nv; l_offset = z_of_string off; l_nevlr = z_of_string ne; l_estart = z_of_string es } in
      (match append_file hsz (bool_of_tok v14) loc (bytes_of_tok b) (z_of_string npts) (bytes_of_tok np)
               (if evl = "none" then None else Some (kl evl)) with
       | Err er -> "err " ^ err_name er
       | Ok (loc', body') ->
         (match read_file hsz (bool_of_tok v14) loc' body' with
          | Err er -> "rerr " ^ err_name er
          | Ok (ks, eo) ->
            String.concat " " ["ok"; string_of_z loc'.l_nvlr; string_of_z loc'.l_offset; string_of_z loc'.l_nevlr;
                               string_of_z loc'.l_estart; hex body'; recs_tok ks;
                               (match eo with None -> "none" | Some l -> recs_tok l)]))
  | ["ser_lookup"; l] -> res hex (ser_lookup (lookup_of_tok l))
  | ["wf_lookup"; p] -> tok_of_bool (wf_lookup_payload (bytes_of_tok p))
  | ["wf_geokeys"; p] -> tok_of_bool (wf_geokeys_payload (bytes_of_tok p))
  | ["class"; u; r] -> let uid = bytes_of_tok u in let rid = z_of_string r in
      class_tok (find_class known_table uid rid) ^ " " ^ class_tok (class_spec uid rid)
  | _ -> "bad-command"

let () =
  try
    while true do
      let line = input_line stdin in
      let out = (try run line with ex -> "exception " ^ Printexc.to_string ex) in
      print_string out; print_char '\n'
    done
  with End_of_file -> ()
