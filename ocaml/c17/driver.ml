(* Line-protocol driver around the extracted models (model.ml).
   One command per input line, one result per output line. Tokens: decimal ints (any size),
   T/F booleans, x<hex> byte strings (x alone = empty), comma lists of ints (- = empty). *)
open Model

let rec pos_of_int n = if n = 1 then XH else if n land 1 = 0 then XO (pos_of_int (n lsr 1)) else XI (pos_of_int (n lsr 1))
let z_of_int n = if n = 0 then Z0 else if n > 0 then Zpos (pos_of_int n) else Zneg (pos_of_int (-n))
let rec nat_of_int n = if n <= 0 then O else S (nat_of_int (n - 1))
let rec int_of_nat = function O -> 0 | S k -> 1 + int_of_nat k
let ten = z_of_int 10
let z_of_string s =
  let neg = String.length s > 0 && s.[0] = '-' in
  let acc = ref Z0 in
  String.iteri (fun i c -> if not (i = 0 && neg) then
    acc := Z.add (Z.mul !acc ten) (z_of_int (Char.code c - 48))) s;
  if neg then Z.sub Z0 !acc else !acc
let rec pos_bits = function XH -> 1 | XO p | XI p -> 1 + pos_bits p
let rec int_of_pos = function XH -> 1 | XO p -> 2 * int_of_pos p | XI p -> 2 * int_of_pos p + 1
let billion = z_of_int 1000000000
let rec string_of_posz zv = (* zv >= 0 *)
  match zv with
  | Z0 -> "0"
  | Zpos p when pos_bits p < 62 -> string_of_int (int_of_pos p)
  | _ -> let (q, r) = Z.div_eucl zv billion in
         let rs = (match r with Z0 -> 0 | Zpos p -> int_of_pos p | Zneg _ -> 0) in
         string_of_posz q ^ Printf.sprintf "%09d" rs
let string_of_z = function
  | Zneg p -> "-" ^ string_of_posz (Zpos p)
  | zv -> string_of_posz zv
let int_of_z = function Z0 -> 0 | Zpos p -> int_of_pos p | Zneg p -> - (int_of_pos p)
let bool_of_tok s = (s = "T")
let tok_of_bool b = if b then "T" else "F"
let bytes_of_tok s =
  let n = (String.length s - 1) / 2 in
  List.init n (fun i -> z_of_int (int_of_string ("0x" ^ String.sub s (1 + 2 * i) 2)))
let tok_of_bytes l =
  let b = Buffer.create 64 in
  Buffer.add_char b 'x';
  List.iter (fun zv -> let v = int_of_z zv in
    if v < 0 || v > 255 then Buffer.add_string b "??" else Buffer.add_string b (Printf.sprintf "%02x" v)) l;
  Buffer.contents b
let zlist_of_tok s = if s = "-" then [] else List.map z_of_string (String.split_on_char ',' s)
let tok_of_zlist l = if l = [] then "-" else String.concat "," (List.map string_of_z l)
let err_name = function
  | EOverflow -> "EOverflow" | EIndex -> "EIndex" | ELaspy -> "ELaspy" | EValue -> "EValue"
  | EShort -> "EShort" | EFuel -> "EFuel" | EStop -> "EStop" | EOther -> "EOther"
let res f = function Ok a -> "ok " ^ f a | Err e -> "err " ^ err_name e

(* ---------- Las model glue ---------- *)
let explode s = List.init (String.length s) (String.get s)
let char_of_ascii = function Ascii (b0, b1, b2, b3, b4, b5, b6, b7) ->
  let v b i = if b then 1 lsl i else 0 in
  Char.chr (v b0 0 + v b1 1 + v b2 2 + v b3 3 + v b4 4 + v b5 5 + v b6 6 + v b7 7)
let rec string_of_coq = function EmptyString -> "" | String (c, r) -> Stdlib.String.make 1 (char_of_ascii c) ^ string_of_coq r
let tok_of_value = function VInt v -> string_of_z v | VBytes b -> tok_of_bytes b
let tok_of_assoc a = if a = [] then "-" else
  String.concat "|" (List.map (fun (n, v) -> string_of_coq n ^ "=" ^ tok_of_value v) a)
let tok_of_vlr v = String.concat ":" [tok_of_bytes v.v_uid; string_of_z v.v_rid; tok_of_bytes v.v_desc; tok_of_bytes v.v_data]
let tok_of_vlrs l = if l = [] then "-" else String.concat "|" (List.map tok_of_vlr l)
let tok_of_recs l = tok_of_bytes (List.concat l)

(* ---------- C17 ---------- *)
let tok_of_lasfile lf =
  let rh = lf.lf_h in
  String.concat " " [tok_of_assoc rh.rh_fields; tok_of_vlrs rh.rh_vlrs;
    (match rh.rh_evlrs with None -> "none" | Some l -> "some:" ^ tok_of_vlrs l);
    string_of_z rh.rh_fmt; string_of_z rh.rh_psize; string_of_z rh.rh_offset;
    string_of_int (List.length lf.lf_points); tok_of_recs lf.lf_points]
let tok_of_op = function
  | ORead n -> "r" ^ string_of_z n
  | OReadInto n -> "i" ^ string_of_z n
  | OSeek p -> "s" ^ string_of_z p
  | OTell -> "t"
  | OSeekable -> "k"
let tok_of_log l = if l = [] then "-" else String.concat "," (List.map tok_of_op l)

(* steps of consumption: - (none) or a comma list of c<k> (chunk iterator by k points) / p<n> (read_points n) *)
let steps_of_tok s =
  if s = "-" then [] else
  List.map (fun t ->
    let v = z_of_string (String.sub t 1 (String.length t - 1)) in
    if t.[0] = 'c' then SChunks v else SPoints v) (String.split_on_char ',' s)
(* read_evlrs: T / F / D (not given: the default of the source) *)
let evlrs_of_tok s = if s = "D" then default_read_evlrs else bool_of_tok s
let caps_of a = { c_seekable = bool_of_tok a.(0); c_readinto = bool_of_tok a.(1); c_has_seekable = bool_of_tok a.(2) }
let rec split_every w l =
  if l = [] then [] else
  let rec take n l = if n = 0 then ([], l) else match l with [] -> ([], []) | x :: r -> let (a, b) = take (n - 1) r in (x :: a, b) in
  let (a, b) = take w l in a :: split_every w b

let dispatch cmd a =
  let zi i = z_of_string a.(i) in
  match cmd with
  | "via" -> (* seekable readinto has_seekable read_evlrs steps xfile : result | log | no_seek_tell | only_offered *)
    let c = caps_of a in
    let (r, log) = read_via c (evlrs_of_tok a.(3)) (steps_of_tok a.(4)) (bytes_of_tok a.(5)) in
    res tok_of_lasfile r ^ " | " ^ tok_of_log log ^ " | " ^ tok_of_bool (no_seek_tell log) ^ " | " ^ tok_of_bool (only_offered c log)
  | "consume" -> (* the same without the final read(): the header the reader shows and the records handed out *)
    let c = caps_of a in
    let (r, log) = consume_via c (evlrs_of_tok a.(3)) (steps_of_tok a.(4)) (bytes_of_tok a.(5)) in
    res tok_of_lasfile r ^ " | " ^ tok_of_log log ^ " | " ^ tok_of_bool (no_seek_tell log) ^ " | " ^ tok_of_bool (only_offered c log)
  | "open" -> (* seekable readinto has_seekable read_evlrs xfile : the header after laspy.open alone | log *)
    let c = caps_of a in
    let (r, log) = open_via c (evlrs_of_tok a.(3)) (bytes_of_tok a.(4)) in
    res (fun rh -> tok_of_lasfile { lf_h = rh; lf_points = [] }) r ^ " | " ^ tok_of_log log ^ " | " ^ tok_of_bool (no_seek_tell log) ^ " | " ^ tok_of_bool (only_offered c log)
  | "default" -> tok_of_bool default_read_evlrs
  | "mmap" -> res tok_of_lasfile (read_mmap (bytes_of_tok a.(0)))
  | "file" -> res tok_of_lasfile (read_file (bytes_of_tok a.(0)))
  | "set" -> (* xfile off ps i o xbytes *)
    tok_of_bytes (mmap_set (bytes_of_tok a.(0)) (zi 1) (zi 2) (zi 3) (zi 4) (bytes_of_tok a.(5)))
  | "setdim" -> (* xfile off ps o w xvalues : one value of w bytes per record *)
    tok_of_bytes (mmap_set_dim (bytes_of_tok a.(0)) (zi 1) (zi 2) (zi 3) (split_every (int_of_string a.(4)) (bytes_of_tok a.(5))))
  | "shortcall" -> (* into cap n pos xbytes : ONE call on a source that gives at most cap bytes: data | position | log *)
    let s = { st_bytes = bytes_of_tok a.(4); st_pos = zi 3; st_log = [] } in
    let (d, s1) = if bool_of_tok a.(0) then s_readinto_short (zi 1) (zi 2) s else s_read_short (zi 1) (zi 2) s in
    tok_of_bytes d ^ " | " ^ string_of_z s1.st_pos ^ " | " ^ tok_of_log s1.st_log
  | "exact" -> (* into caps n pos xbytes : asking again until the n bytes are there; and the one call of a source that is never short *)
    let s = { st_bytes = bytes_of_tok a.(4); st_pos = zi 3; st_log = [] } in
    let (d, s1) = read_exact (bool_of_tok a.(0)) (zlist_of_tok a.(1)) (zi 2) s in
    let (d0, s0) = if bool_of_tok a.(0) then s_readinto (zi 2) s else s_read (zi 2) s in
    tok_of_bytes d ^ " | " ^ string_of_z s1.st_pos ^ " | " ^ tok_of_log s1.st_log ^ " | " ^ tok_of_bool (d = d0 && s1.st_pos = s0.st_pos)
  | _ -> "unknown-command " ^ cmd

let () =
  try
    while true do
      let line = input_line stdin in
      let toks = List.filter (fun s -> s <> "") (String.split_on_char ' ' line) in
      (match toks with
       | [] -> print_endline ""
       | cmd :: args ->
         (try print_endline (dispatch cmd (Array.of_list args))
          with ex -> print_endline ("driver-error " ^ Printexc.to_string ex)))
    done
  with End_of_file -> ()
