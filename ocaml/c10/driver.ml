(* Line-protocol driver around the extracted C10 model (ocaml/c10/model.ml = Model/Views.v over Gen/GenViews.v).
   One command per input line, one result per output line.

   route <av|sf|sc> <op 0..10>                 -> Materialised k | DoComparison k | GridComparison k | Inherited | none
   rroute <av|sf|sc> <op 0..10>                -> Absent | Swapped k | none      (the reflected method answering `x <op> view`)
   inplace                                     -> fallback (no in-place method: v op= x is v = v op x) | own
   rcmpcol <mask> <op> <py|np|bool|other> <bits> <T|F signed> <c>
                                               -> 256 chars 0/1/- : `operand <op> view` for composed bytes 0..255
   red <av|sf|sc> <T|F multi> <T|F args> <max|min>   -> mat max|min  /  grid max|min  /  gridargs max|min
   cmpcol <mask> <op> <py|np|bool|other> <bits> <T|F signed> <c>
                                               -> 256 chars 0/1/- : `view <op> operand` for composed bytes 0..255
   sfidx <mask> <xbytes> <positions>           -> values of view[positions] | none
   index <view> <ix> [<ix> ...]                -> <value|view|none> <materialise (view[ix][ix]..)> <np.array(view)[ix][ix]..>   (none | nd)
   reduce <max|min> <T|F initial> <view> [<ix> ...]
                                               -> grid:<t> | grid:none | mat:<max|min>:<init|noinit>:<nd> | none | nochain
   ufwhere <mask> <xbytes> <T/F,..> <out> <add|sub|mul> <c>
                                               -> buffer after np.<op>(view, c, out=buffer, where=mask) | none
   concat <view> <view> ...                    -> <nd of np.concatenate([view, ...])> <nd of the joined grids scaled with the first view's scaling>
   view:  1 <xs>  |  2 <k> <row;row;...>       (values comma separated, - = empty)
          1s <scale index> <offset index> <xs>  |  2s <k> <first scale/offset index> <row;row;...>
   ix:    int:<i> | slice:<ps> | adv:<ps> | row:i<i> | row:s<ps> | pair:<ax>:<ax> | zip:<ps>:<js>    ax = i<n> | s<ps>
   nd:    sc:<t> | a1:<n>:<t,t,..> | a2:<n>:<k>:<t,t,..>     t = <scale index>.<offset index>.<grid value>
   The scaled values are symbolic triples: the harness evaluates (x * scale[s]) + offset[o] in binary64. *)
open Model

let rec pos_of_int n = if n = 1 then XH else if n land 1 = 0 then XO (pos_of_int (n lsr 1)) else XI (pos_of_int (n lsr 1))
let z_of_int n = if n = 0 then Z0 else if n > 0 then Zpos (pos_of_int n) else Zneg (pos_of_int (-n))
let rec nat_of_int n = if n <= 0 then O else S (nat_of_int (n - 1))
let rec int_of_nat = function O -> 0 | S k -> 1 + int_of_nat k
let ten = z_of_int 10
let z_of_string s =
  let neg = String.length s > 0 && s.[0] = '-' in
  let acc = ref Z0 in
  String.iteri (fun i c -> if not (i = 0 && neg) then
    acc := Z.add (Z.mul !acc ten) (z_of_int (Char.code c - 48))) s;
  if neg then Z.sub Z0 !acc else !acc
let rec pos_bits = function XH -> 1 | XO p | XI p -> 1 + pos_bits p
let rec int_of_pos = function XH -> 1 | XO p -> 2 * int_of_pos p | XI p -> 2 * int_of_pos p + 1
let billion = z_of_int 1000000000
let rec string_of_posz zv = (* zv >= 0 *)
  match zv with
  | Z0 -> "0"
  | Zpos p when pos_bits p < 62 -> string_of_int (int_of_pos p)
  | _ -> let (q, r) = Z.div_eucl zv billion in
         let rs = (match r with Z0 -> 0 | Zpos p -> int_of_pos p | Zneg _ -> 0) in
         string_of_posz q ^ Printf.sprintf "%09d" rs
let string_of_z = function
  | Zneg p -> "-" ^ string_of_posz (Zpos p)
  | zv -> string_of_posz zv
let int_of_z = function Z0 -> 0 | Zpos p -> int_of_pos p | Zneg p -> - (int_of_pos p)
let bool_of_tok s = (s = "T")
let bytes_of_tok s =
  let n = (String.length s - 1) / 2 in
  List.init n (fun i -> z_of_int (int_of_string ("0x" ^ String.sub s (1 + 2 * i) 2)))
let zlist_of_tok s = if s = "-" || s = "" then [] else List.map z_of_string (String.split_on_char ',' s)
let natlist_of_tok s = if s = "-" || s = "" then [] else List.map (fun t -> nat_of_int (int_of_string t)) (String.split_on_char ',' s)
let tok_of_zlist l = if l = [] then "-" else String.concat "," (List.map string_of_z l)

let ops = Array.of_list all_ops
let op_index op = let r = ref (-1) in Array.iteri (fun i o -> if o = op then r := i) ops; !r
let cls_of = function "av" -> CArrayView | "sf" -> CSubField | "sc" -> CScaled | s -> failwith ("class " ^ s)
let red_of = function "max" -> RMax | "min" -> RMin | s -> failwith ("reduction " ^ s)
let red_name = function RMax -> "max" | RMin -> "min"

let tok_of_route = function
  | None -> "none"
  | Some (Materialised op) -> Printf.sprintf "Materialised %d" (op_index op)
  | Some (DoComparison op) -> Printf.sprintf "DoComparison %d" (op_index op)
  | Some (GridComparison op) -> Printf.sprintf "GridComparison %d" (op_index op)
  | Some Inherited -> "Inherited"

(* symbolic values *)
let ap s o x = ((s, o), x)
let tok_of_t ((s, o), x) = string_of_z s ^ "." ^ string_of_z o ^ "." ^ string_of_z x
let tok_of_ts l = if l = [] then "-" else String.concat "," (List.map tok_of_t l)
let tok_of_nd = function
  | Sc f -> "sc:" ^ tok_of_t f
  | A1 l -> Printf.sprintf "a1:%d:%s" (List.length l) (tok_of_ts l)
  | A2 (k, m) -> Printf.sprintf "a2:%d:%d:%s" (List.length m) (int_of_nat k) (tok_of_ts (List.concat m))
let tok_of_ndo = function None -> "none" | Some a -> tok_of_nd a

let view_of_toks a i =
  match a.(i) with
  | "1" -> (V1 (zlist_of_tok a.(i + 1), Z0, Z0), i + 2)
  | "2" ->
      let k = int_of_string a.(i + 1) in
      let rows = if a.(i + 2) = "-" then [] else List.map zlist_of_tok (String.split_on_char ';' a.(i + 2)) in
      let idx = List.init k z_of_int in
      (V2 (rows, idx, idx), i + 3)
  | "1s" -> (V1 (zlist_of_tok a.(i + 3), z_of_string a.(i + 1), z_of_string a.(i + 2)), i + 4)
  | "2s" ->
      let k = int_of_string a.(i + 1) and base = int_of_string a.(i + 2) in
      let rows = if a.(i + 3) = "-" then [] else List.map zlist_of_tok (String.split_on_char ';' a.(i + 3)) in
      let idx = List.init k (fun j -> z_of_int (base + j)) in
      (V2 (rows, idx, idx), i + 4)
  | s -> failwith ("view " ^ s)

let rec views_of_toks a i = if i >= Array.length a then [] else let (v, j) = view_of_toks a i in v :: views_of_toks a j

let axis_of_tok t =
  let rest = String.sub t 1 (String.length t - 1) in
  if t.[0] = 'i' then AInt (nat_of_int (int_of_string rest)) else ASel (natlist_of_tok rest)

let ix_of_tok t =
  match String.split_on_char ':' t with
  | ["int"; i] -> IxInt (nat_of_int (int_of_string i))
  | ["slice"; ps] -> IxSlice (natlist_of_tok ps)
  | ["adv"; ps] -> IxAdv (natlist_of_tok ps)
  | ["row"; ax] -> IxRow (axis_of_tok ax)
  | ["pair"; r; c] -> IxPair (axis_of_tok r, axis_of_tok c)
  | ["zip"; ps; js] -> IxZip (natlist_of_tok ps, natlist_of_tok js)
  | _ -> failwith ("index " ^ t)

let operand_of kind bits signed c =
  match kind with
  | "py" -> PyInt c
  | "np" -> NpInt (bits, signed, c)
  | "bool" -> PyBool (c <> Z0)
  | _ -> NonInt

let handle line =
  let a = Array.of_list (List.filter (fun s -> s <> "") (String.split_on_char ' ' line)) in
  match a.(0) with
  | "route" -> tok_of_route (route_of (cls_of a.(1)) ops.(int_of_string a.(2)))
  | "rroute" ->
      (match reflected_route_of (cls_of a.(1)) ops.(int_of_string a.(2)) with
       | None -> "none"
       | Some RAbsent -> "Absent"
       | Some (RSwapped op) -> Printf.sprintf "Swapped %d" (op_index op))
  | "inplace" -> if views_inplace_absent && views_operator_surface_closed then "fallback" else "own"
  | "rcmpcol" ->
      let m = z_of_string a.(1) and op = ops.(int_of_string a.(2)) in
      let x = operand_of a.(3) (z_of_string a.(4)) (bool_of_tok a.(5)) (z_of_string a.(6)) in
      let bs = List.init 256 z_of_int in
      String.concat "" (List.map (function Some true -> "1" | Some false -> "0" | None -> "-") (sfv_rbinop_arr m bs op x))
  | "red" ->
      (match reduce_route (cls_of a.(1)) (bool_of_tok a.(2)) (bool_of_tok a.(3)) (red_of a.(4)) with
       | RedMaterialised r -> "mat " ^ red_name r
       | RedApplyGrid r -> "grid " ^ red_name r
       | RedApplyGridArgs r -> "gridargs " ^ red_name r)
  | "cmpcol" ->
      let m = z_of_string a.(1) and op = ops.(int_of_string a.(2)) in
      let x = operand_of a.(3) (z_of_string a.(4)) (bool_of_tok a.(5)) (z_of_string a.(6)) in
      String.init 256 (fun b -> match sfv_binop_elem m (z_of_int b) op x with Some true -> '1' | Some false -> '0' | None -> '-')
  | "sfidx" ->
      let m = z_of_string a.(1) in
      (match sfv_index (natlist_of_tok a.(3)) (bytes_of_tok a.(2)) with
       | Some bs -> tok_of_zlist (sf_materialise m bs)
       | None -> "none")
  | "index" ->
      let (v, i) = view_of_toks a 1 in
      let ixs = List.map ix_of_tok (Array.to_list (Array.sub a i (Array.length a - i))) in
      let vr = chain ap ixs v in
      let kind = (match vr with None -> "none" | Some x -> if is_value x then "value" else "view") in
      kind ^ " " ^ tok_of_ndo (match vr with Some v' -> Some (materialise ap v') | None -> None)
      ^ " " ^ tok_of_ndo (np_chain ixs (materialise ap v))
  | "reduce" ->
      (* a.(3): the scale indices whose scale is not > 0 *)
      let negs = zlist_of_tok a.(3) in
      let pos s = not (List.mem s negs) in
      let (v, i) = view_of_toks a 4 in
      let ixs = List.map ix_of_tok (Array.to_list (Array.sub a i (Array.length a - i))) in
      let init = if bool_of_tok a.(2) then Some (ap Z0 Z0 Z0) else None in
      (match chain ap ixs v with
       | None -> "nochain"
       | Some x ->
         (match reduce_plan ap pos (red_of a.(1)) init x with
          | PlanGrid (Some f) -> "grid:" ^ tok_of_t f
          | PlanGrid None -> "grid:none"
          | PlanMaterialised (r, i0, nd) -> "mat:" ^ red_name r ^ ":" ^ (match i0 with Some _ -> "init" | None -> "noinit") ^ ":" ^ tok_of_nd nd
          | PlanNone -> "none"))
  | "ufwhere" ->
      let m = z_of_string a.(1) and c = z_of_string a.(6) in
      let g = (match a.(5) with
               | "add" -> (fun v -> Z.add v c) | "sub" -> (fun v -> Z.sub v c) | "mul" -> (fun v -> Z.mul v c)
               | s -> failwith ("ufunc " ^ s)) in
      let mask = if a.(3) = "-" then [] else List.map bool_of_tok (String.split_on_char ',' a.(3)) in
      (match sfv_ufunc_where g m (bytes_of_tok a.(2)) mask (zlist_of_tok a.(4)) with
       | Some r -> tok_of_zlist r
       | None -> "none")
  | "concat" ->
      let vs = views_of_toks a 1 in
      tok_of_ndo (concatenate_views ap vs) ^ " " ^ tok_of_ndo (concat_grid_first ap vs)
  | c -> failwith ("unknown command " ^ c)

let () =
  try
    while true do
      let line = input_line stdin in
      (try print_endline (handle line) with
       | Failure m -> print_endline ("fail " ^ m)
       | Invalid_argument m -> print_endline ("fail " ^ m)
       | Not_found -> print_endline "fail not_found")
    done
  with End_of_file -> ()
