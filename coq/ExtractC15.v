(* Extraction of the C15 model (COPC hierarchy traversal and query) to OCaml. ExtrOcamlBasic only. *)
Require Extraction.
Require Import ExtrOcamlBasic.
From Coq Require Import ZArith List.
From LasV Require Import Lib.Base Gen.GenCopc Model.Copc.
Extraction Language OCaml.
Extraction "../ocaml/c15/model.ml"
  Z.add Z.mul Z.sub Z.div_eucl Z.compare Z.of_nat Z.to_nat
  load_octree query fuel_bound level_range res_level wf_treeb pts_okb csys_okb lookup_pts exact_grid
  sort_off groups byte_queries chunk_table fetch_and_decode rint grid child overlaps
  sort_q apartb fetch_and_decode_queue ensure_3d_st query_st session query_fresh
  traverse_rd query_rd reader_session open_cache dict_view n_fetches.
