(* Extraction of the C02 codecs (specification reference codec and laspy-layout codec) to OCaml.
   ExtrOcamlBasic only; Z/N/positive/nat stay the extracted inductive datatypes. *)
Require Extraction.
Require Import ExtrOcamlBasic.
From Coq Require Import ZArith List.
From LasV Require Import Lib.Base Lib.Layout Spec.Asprs Spec.AsprsPoints Model.PointLayout Model.RecordPlace.
Extraction Language OCaml.
Extraction "../ocaml/c02/model.ml"
  Z.add Z.mul Z.sub Z.div_eucl Z.compare Z.of_nat Z.to_nat
  spec_enc_point spec_dec_point spec_leaf_names spec_point_size gen_enc_point gen_dec_point
  spec_enc_point_rl spec_dec_point_rl spec_leaf_names_rl spec_point_size_rl gen_enc_point_rl gen_dec_point_rl
  gen_record_summary spec_record_summary spec_legacy_ok
  spec_hdr_layout spec_enc_header spec_dec_header
  spec_vlr_hdr_layout spec_enc_vlr_header spec_dec_vlr_header
  spec_eb_descriptor spec_enc_eb_descriptor spec_dec_eb_descriptor layout_names
  spec_dec_known spec_enc_known spec_known_names lookup_parse lookup_bytes
  record_at spec_dec_records append_session edit_record
  handover_accepts ebs_of_dims assign_elems writer_evlr_fields point_format_writers_sync.
