(* Extraction of the C12 model (Model/Convert.v) for the correspondence check. ExtrOcamlBasic only. *)
Require Extraction.
Require Import ExtrOcamlBasic.
From Coq Require Import ZArith List.
From LasV Require Import Lib.Base Gen.GenDims Model.SubField Model.HeaderOps Model.Convert.
Extraction Language OCaml.
Extraction "../ocaml/c12/model.ml"
  Z.add Z.mul Z.sub Z.div_eucl Z.compare Z.of_nat Z.to_nat
  convert convert_io dim_names lost std_ids storage_names resolutions.
