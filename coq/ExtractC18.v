(* Extraction of the C18 ownership model for the correspondence check (ExtrOcamlBasic only). *)
Require Extraction.
Require Import ExtrOcamlBasic.
From Coq Require Import ZArith List.
From LasV Require Import Lib.Base Gen.GenCursor Gen.GenOwnership Model.Ownership.
Extraction Language OCaml.
Extraction "../ocaml/c18/model.ml"
  Z.add Z.mul Z.sub Z.div_eucl Z.compare Z.of_nat Z.to_nat
  trace run init init_at obs_okb fail_exn header_read_pos.
