(* Extraction of the C11 models (binary64 arithmetic on integers, histories) for the correspondence check. *)
Require Extraction.
Require Import ExtrOcamlBasic.
From Coq Require Import ZArith QArith List.
From LasV Require Import Lib.Base Gen.GenScaling Model.Scaling.
Extraction Language OCaml.
Extraction "../ocaml/c11/model.ml"
  Z.add Z.mul Z.sub Z.div_eucl Z.compare Z.of_nat Z.to_nat Z.to_pos
  rnd64 f_present f_store f_store_checked f_restore_checked q_store q_store_checked q_present
  f_step f_run f_presented f_init f_add f_sub f_mul f_div f_sstep f_srun f_view_op.
