(* SELECTIONS of point records that are VIEWS (C01, round 6).

   A point record (PackedPointRecord, the `points` of a LasData) does not contain its records: it REFERS to a numpy buffer and
   says which positions of it, in which order, it presents (offset, stride, sign of a slice; slices of slices compose).
   rec[a:b:k] is a new record object over the SAME buffer; rec[mask] / rec[index list] copies the selected records into a NEW
   buffer. An edit made through any record object goes to the buffer, hence to every object presenting the same positions.
   Writing a record (LasData.write, LasWriter.write_points) packs the presented records into bytes for the destination and
   changes nothing: neither a buffer nor which buffer / positions an object presents.

   Definitions only; proofs in Proofs/RecViewProofs.v. *)
From Coq Require Import ZArith List Bool.
From LasV Require Import Lib.Base Model.WriterAlias.
Import ListNotations.
Open Scope list_scope.

Record vobj := mkVO { vo_buf : nat; vo_idx : list nat }.
Record vworld := mkVW { vw_bufs : list (list (list Z)); vw_objs : list vobj }.

Inductive vop :=
| VView (i : nat) (sel : list nat)                    (* obj_i[slice]: the positions sel of obj_i, same buffer *)
| VCopy (i : nat) (sel : list nat)                    (* obj_i[mask] / obj_i[index list]: the selected records, new buffer *)
| VEdit (i : nat) (off : nat) (vals : list (list Z))  (* the field at byte offset off of the k-th record of obj_i := vals[k] *)
| VWrite (i : nat).                                   (* the bytes handed to the destination *)

Definition buf_at (w : vworld) (b : nat) : list (list Z) := nth b (vw_bufs w) [].
Definition records_of (w : vworld) (o : vobj) : list (list Z) := map (fun p => nth p (buf_at w (vo_buf o)) []) (vo_idx o).
Definition records_at (w : vworld) (j : nat) : list (list Z) :=
  match nth_error (vw_objs w) j with Some o => records_of w o | None => [] end.

Definition pick {A} (d : A) (l : list A) (sel : list nat) : list A := map (fun k => nth k l d) sel.

(* bytes [off, off + |v|) of record r replaced by v *)
Definition patch (r : list Z) (off : nat) (v : list Z) : list Z := firstn off r ++ v ++ skipn (off + length v) r.

Definition edit_buf (buf : list (list Z)) (off : nat) (pairs : list (nat * list Z)) : list (list Z) :=
  fold_left (fun b p => set_nth (fst p) (patch (nth (fst p) b []) off (snd p)) b) pairs buf.

Definition vstep (w : vworld) (op : vop) : vworld * option (list Z) :=
  match op with
  | VView i sel =>
      match nth_error (vw_objs w) i with
      | Some o => (mkVW (vw_bufs w) (vw_objs w ++ [mkVO (vo_buf o) (pick 0%nat (vo_idx o) sel)]), None)
      | None => (w, None)
      end
  | VCopy i sel =>
      match nth_error (vw_objs w) i with
      | Some o => (mkVW (vw_bufs w ++ [pick [] (records_of w o) sel])
                        (vw_objs w ++ [mkVO (length (vw_bufs w)) (seq 0 (length sel))]), None)
      | None => (w, None)
      end
  | VEdit i off vals =>
      match nth_error (vw_objs w) i with
      | Some o => (mkVW (set_nth (vo_buf o) (edit_buf (buf_at w (vo_buf o)) off (combine (vo_idx o) vals)) (vw_bufs w)) (vw_objs w), None)
      | None => (w, None)
      end
  | VWrite i => (w, Some (concat (records_at w i)))
  end.

Fixpoint vrun (w : vworld) (ops : list vop) : vworld * list (list Z) :=
  match ops with
  | [] => (w, [])
  | op :: r =>
      let '(w', o) := vstep w op in
      let '(w'', os) := vrun w' r in
      (w'', match o with Some x => x :: os | None => os end)
  end.

Definition is_write (op : vop) : bool := match op with VWrite _ => true | _ => false end.

(* one cloud: one buffer, one object presenting all of it *)
Definition vworld_of (recs : list (list Z)) : vworld := mkVW [recs] [mkVO 0 (seq 0 (length recs))].
