(* C05, histories with FAULTS and with CALLER operations. A fault: the point source raises on the first call it receives during
   one reader operation (read / readinto for read_points, next(chunk_iterator), read(); seek for seek()), before it consumed or
   moved anything; the caller catches the exception and goes on with the same reader. What the unchanged code does, per operation:
     read_points / next / read   asks the source first and advances `points_read` only after the source delivered: a raising
                                 source leaves points_read AND the source position where they were. When nothing is left
                                 (points_left <= 0) the source is not called at all: the fault cannot show, the call is the plain one.
     seek                        range check, then point_source.seek, then `points_read = point_index`: a raising source.seek
                                 leaves both where they were; a refused target (IndexError / ValueError) never reaches the source.
   A caller operation (FCaller): anything done to an object the reader handed out (the LasData of read(), its header, its point
   format, its point record): the reader's state has no component such an operation can reach.
   The cursor bookkeeping is the translated code of Gen/GenCursor.v, as in Model/Cursor.v / Model/CursorBytes.v. Definitions only. *)
From Coq Require Import ZArith List Bool.
From LasV Require Import Lib.Base Gen.GenCursor Model.Cursor Model.CursorBytes.
Import ListNotations.
Open Scope Z_scope.

Inductive fop := FOk (op : cop) | FFail (op : cop) | FCaller.

(* does the operation reach the point source at all, from (header count, points_read)? *)
Definition touches (n r : Z) (op : cop) : bool :=
  match op with
  | CRead k | CNext k => 0 <=? snd (gen_read_points n r k)
  | CReadAll => 0 <=? snd (gen_read_points n r (-1))
  | CSeek pos whence => match gen_seek n r pos whence with Ok _ => true | Err _ => false end
  end.

(* record level; a failed call: state unchanged, the exception of the source comes out (EOther) *)
Definition fstep (s : cstate) (f : fop) : cstate * list cout :=
  match f with
  | FOk op => let '(s', o) := cstep s op in (s', [o])
  | FFail op => if touches (c_n s) (c_read s) op then (s, [OErr EOther]) else let '(s', o) := cstep s op in (s', [o])
  | FCaller => (s, [])
  end.
Definition frun (s : cstate) (fops : list fop) : cstate * list cout :=
  fold_left (fun acc f => let '(s', o) := fstep (fst acc) f in (s', snd acc ++ o)) fops (s, []).

(* byte level *)
Definition bfstep (off st : Z) (s : bstate) (f : fop) : bstate * list bout :=
  match f with
  | FOk op => let '(s', o) := bstep off st s op in (s', [o])
  | FFail op => if touches (b_n s) (b_read s) op then (s, [BErr EOther]) else let '(s', o) := bstep off st s op in (s', [o])
  | FCaller => (s, [])
  end.
Definition bfrun (off st : Z) (s : bstate) (fops : list fop) : bstate * list bout :=
  fold_left (fun acc f => let '(s', o) := bfstep off st (fst acc) f in (s', snd acc ++ o)) fops (s, []).

(* the abstract cursor of the property with faults: a read reaches the source iff something is left, a seek iff its target is
   a point of the file; a failed call is a no-op *)
Definition spec_touches (t : sstate) (op : cop) : bool :=
  match op with
  | CRead _ | CNext _ | CReadAll => sp_c t <? sp_n t
  | CSeek pos whence =>
      if (whence =? 0) || (whence =? 1) || (whence =? 2) then
        let tg := if whence =? 0 then pos else if whence =? 1 then sp_c t + pos else sp_n t + pos in
        (0 <=? tg) && (tg <? sp_n t)
      else false
  end.
Definition spec_fstep (t : sstate) (f : fop) : sstate * list cout :=
  match f with
  | FOk op => let '(t', o) := spec_step t op in (t', [o])
  | FFail op => if spec_touches t op then (t, [OErr EOther]) else let '(t', o) := spec_step t op in (t', [o])
  | FCaller => (t, [])
  end.
Definition sfrun (t : sstate) (fops : list fop) : sstate * list cout :=
  fold_left (fun acc f => let '(t', o) := spec_fstep (fst acc) f in (t', snd acc ++ o)) fops (t, []).

(* the history the reader actually served: failed calls and caller operations erased *)
Fixpoint erase (s : cstate) (fops : list fop) : list cop :=
  match fops with
  | [] => []
  | FOk op :: r => op :: erase (fst (cstep s op)) r
  | FFail op :: r => if touches (c_n s) (c_read s) op then erase s r else op :: erase (fst (cstep s op)) r
  | FCaller :: r => erase s r
  end.
Definition is_fault (o : cout) : bool := match o with OErr EOther => true | _ => false end.

(* a reader that moves its cursor BEFORE it asks the source (what must not happen): on a failed read the cursor has advanced,
   the source has not *)
Definition fstep_early (s : cstate) (f : fop) : cstate * list cout :=
  match f with
  | FFail (CRead k) =>
      if touches (c_n s) (c_read s) (CRead k)
      then (mkC (c_n s) (fst (gen_read_points (c_n s) (c_read s) k)) (c_src s), [OErr EOther])
      else let '(s', o) := cstep s (CRead k) in (s', [o])
  | _ => fstep s f
  end.
Definition frun_early (s : cstate) (fops : list fop) : cstate * list cout :=
  fold_left (fun acc f => let '(s', o) := fstep_early (fst acc) f in (s', snd acc ++ o)) fops (s, []).
